"""C08 — the created container does not depend on how compression workers are scheduled.
R1 the cluster address table is indexed by the id carried in the task (and only ever grown);
R2 offset rebasing provenance; R3 senders dropped before join, every thread joined;
R4 back-pressure inc/dec pairing."""
import re
from lib import *

PROPERTY = "C08"
EXPLANATION = ("Def-use and order facts that hold for every schedule if they hold at all: (R1) in ClusterWriter::run the slot of "
               "cluster_addresses that is set, and the length it is resized to, derive only from the index carried in the received "
               "task (cluster.index for raw clusters, the third field of WriteTask::Compressed, itself cluster.index read by the "
               "compressor before the cluster is consumed), the resize is guarded by a comparison of that index with the table's own "
               "len() so it can only grow; (R2) the offset of a compressed cluster's tail is rebased by the position returned by "
               "write_data (tell() before write_all); (R3) ClusterWriterProxy::finalize drops both senders before the first join and "
               "joins every worker and the writer; (R4) the queue counter is incremented under its mutex on the compressed branch "
               "before dispatch and decremented + notified by the worker after it has sent its result. That every address resolves to "
               "its own bytes under all schedules is not decided (C01/C14 layout rules cover the encoding)."
               " (R5) finalize hands both open clusters to the writer, joins, then writes the tables; (R6) the table positions recorded in the header are tell() taken right before the table is written, never computed from a cluster address."
               ' Added later: (R7) positions are asked of the buffering stream (= C01-R19); (R8) a Late<T> slot owns its value (clones made by resize do not alias). (R9) the number of compression workers has a floor of one. (R10) the width of the cluster tail\'s fields covers every value written with it (= C01-R7).')
EXPLANATION += ' Batch 11: (R11) a cluster that holds contents is handed to the writer whatever their size (= C01-R13); (R1) resize_with counts as a resize.'
ASSUMPTIONS = ["std mpsc / spmc channels deliver each message once", "rustc MIR construction and trait resolution"]


def _task_index_origins(b, op):
    """classify the provenance of an index operand in ClusterWriter::run"""
    o = b.origins(op)
    calls = [callee_str(b.term(x[1])) for x in o if x[0] == "call"]
    return o, calls


def r1_address_table(cx):
    F = cx.F
    f = F.one(impl_self="clusterwriter::ClusterWriter", item="run", closure=False)
    b = F.body(f)
    recv = b.calls(r"mpsc::Receiver::<.*WriteTask>::recv$")
    idx = [(i, t) for i, t in b.calls(r"Vec<.*Late<.*>> as std::ops::Index(Mut)?<usize>>::index(_mut)?$")]
    sets = b.calls(r"Late::<.*>::set$")
    rs = b.calls(r"Vec::<.*Late<.*>>::(resize|resize_with)(::<.*>)?$")
    ok = len(recv) == 1 and len(idx) == 1 and len(sets) == 1 and len(rs) == 1
    cx.ob("R1", "R1/anchors", ok, f, "ClusterWriter::run: one recv, one cluster_addresses[idx], one set, one resize (found %d/%d/%d/%d)" % (len(recv), len(idx), len(sets), len(rs)))
    if not ok:
        return
    allowed_calls = (r"Receiver::<.*WriteTask>::recv$", r"ClusterIdx::into_usize$", r"ClusterIdx::into_u32$", r"Try>::branch$")

    def only_task(op, what):
        o = b.origins(op)
        bad_calls = [callee_str(b.term(x[1])) for x in o if x[0] == "call" and not call_is(b.term(x[1]), *allowed_calls)]
        consts = [x[1] for x in o if x[0] == "const" and isinstance(x[1], int) and not isinstance(x[1], bool) and x[1] not in (0, 1)]
        from_task = any(x[0] == "call" and call_is(b.term(x[1]), r"recv$") for x in o)
        fields = {x[1] for x in o if x[0] == "field"}
        # no state of the writer itself on the way (its channel excepted); fields of the task, or of a value a helper packs the
        # task's parts into, are fine
        st_ = F.struct("clusterwriter::ClusterWriter")
        own = {fl["name"] for fl in (st_ or {}).get("fields", [])} - {"input"}
        ok_f = not (fields & own)
        return from_task and not bad_calls and not consts and ok_f, "derives from the received task only (calls %s, fields %s)" % (bad_calls or "recv/into_usize", sorted(fields))
    ok1, m1 = only_task(idx[0][1]["args"][1], "index")
    cx.ob("R1", "R1/slot-index-from-task", ok1, f, "cluster_addresses[idx]: idx %s" % m1, ln=idx[0][1].get("ln"))
    ok2, m2 = only_task(rs[0][1]["args"][1], "resize")
    cx.ob("R1", "R1/resize-length-from-task", ok2, f, "resize(idx + 1, ..): new length %s" % m2, ln=rs[0][1].get("ln"))
    # the value stored is the sized offset of that same task
    so = b.origins(sets[0][1]["args"][1])
    ok3 = any(x[0] == "call" and call_is(b.term(x[1]), r"recv$|ClusterWriter::<.*>::write_cluster$") for x in so) and ("param", 1) not in {x for x in so if x[0] == "param" and False}
    cx.ob("R1", "R1/stored-offset-from-task", ok3, f, "the SizedOffset stored in the slot comes from the same task (write_cluster result or the carried offset)", ln=sets[0][1].get("ln"))
    # the resize only grows: guarded by `cluster_addresses.len() <= idx`
    ri = rs[0][0]
    cds = b.control_dep_switches(ri)
    grow = False
    for s in cds:
        t = b.term(s)
        l = op_local(t["op"])
        for d in b.defs().get(l, []):
            if d[0] == "stmt" and d[3]["k"] == "assign" and d[3]["rv"]["k"] == "bin" and d[3]["rv"]["op"] in ("Le", "Lt", "Ge", "Gt"):
                oa, ob = b.origins(d[3]["rv"]["a"]), b.origins(d[3]["rv"]["b"])
                len_side = lambda o: any(x[0] == "call" and call_is(b.term(x[1]), r"Vec::<.*Late<.*>>::len$") for x in o) and ("field", "cluster_addresses") in o
                task_side = lambda o: any(x[0] == "call" and call_is(b.term(x[1]), r"recv$") for x in o) and not any(x[0] == "call" and call_is(b.term(x[1]), r"::len$") for x in o)
                if (len_side(oa) and task_side(ob)) or (len_side(ob) and task_side(oa)):
                    grow = True
    cx.ob("R1", "R1/resize-only-grows", grow, f, "the resize is guarded by a comparison between the table's own len() and the task index (Vec::resize would otherwise truncate addresses already recorded)", ln=rs[0][1].get("ln"))
    # the index carried by a compressed task is the cluster's own index, read before the cluster is consumed
    g = F.one(impl_self="clusterwriter::ClusterCompressor", item="run", closure=False)
    gb = F.body(g)
    agg = [(i, s) for i, blk in enumerate(gb.blocks) if not blk.get("cleanup") for s in blk["s"] if s["k"] == "assign" and s["rv"]["k"] == "agg" and s["rv"].get("variant") == "Compressed"]
    cc = gb.calls(r"ClusterCompressor::compress_cluster$")
    ok = len(agg) == 1 and len(cc) == 1
    if ok:
        o = gb.origins(agg[0][1]["rv"]["fields"][2])
        ok = ("field", "index") in o and any(x[0] == "call" and call_is(gb.term(x[1]), r"spmc::Receiver::<.*>::recv$") for x in o) and not any(x[0] == "call" and not call_is(gb.term(x[1]), r"recv$") for x in o)
        so = gb.origins(agg[0][1]["rv"]["fields"][1])
        ok = ok and any(x == ("call", cc[0][0]) for x in so)
    cx.ob("R1", "R1/compressed-task-carries-cluster-index", ok, g, "WriteTask::Compressed(data, sized_offset, idx): idx = cluster.index of the cluster just compressed, sized_offset = compress_cluster's result")
    # the cluster index itself is assigned from the creator's counter at open time, not at write time
    h = F.one(impl_self="ContentPackCreator", item="open_cluster", closure=False)
    hb = F.body(h)
    nw = hb.calls(r"ClusterCreator::new$")
    ok = len(nw) == 1 and any(call_is(t, r"Cell::<u32>::replace$") for _, t in hb.origin_calls(nw[0][1]["args"][0]))
    cx.ob("R1", "R1/index-assigned-at-open", ok, h, "a cluster's index is taken from next_cluster_id when the cluster is opened (creator thread), independent of write order")


def r2_rebasing(cx):
    F = cx.F
    f = F.one(impl_self="clusterwriter::ClusterWriter", item="run", closure=False)
    # the writer loop with its own helpers (write_data, ...) inlined: the clauses do not depend on how it is cut up
    b = F.deep_body(f, only=r"clusterwriter::ClusterWriter::")
    aa = b.calls(r"Offset as std::ops::AddAssign(<.*>)?>::add_assign$")
    tl = b.calls(r"OutStream>::tell$")
    wa = b.calls(r"write_all$")
    ok = len(aa) == 1 and len(tl) >= 1
    T = None
    if ok:
        t = aa[0][1]
        o0 = b.origins(t["args"][0])
        src = [x[1] for x in b.origins(t["args"][1]) if x[0] == "call" and x[1] in {i for i, _ in tl}]
        ok = ("field", "offset") in o0 and len(src) == 1 and b.dominates(src[0], aa[0][0])
        T = src[0] if len(src) == 1 else None
    cx.ob("R2", "R2/rebase-by-write-position", ok, f, "sized_offset.offset += the position tell() gave for the same task")
    ok2 = T is not None
    if ok2:
        # the position is taken immediately before the buffer of that task is written: T dominates a write_all W,
        # with no other write between them, and the tail offset is rebased only after
        after = [i for i, _ in wa if b.dominates(T, i) and i != T]
        first = [w for w in after if not any(b.dominates(x, w) and x != w for x in after)]
        ok2 = len(first) == 1 and not any(i for i, _ in wa if b.dominates(i, T) and i in b.reach_after(T) and False)
    cx.ob("R2", "R2/write_data-returns-position-before-write", ok2, f, "the position used for the rebase is tell() taken before write_all of that buffer")
    # compress_cluster: relative tail offset = tell() on the in-memory cursor after the data (C01-R6 checks the order)
    h = F.one(impl_self="clusterwriter::ClusterCompressor", item="run", closure=False)
    hb = F.body(h)
    cur = hb.calls(r"std::io::Cursor::<.*>::new$")
    cc = hb.calls(r"ClusterCompressor::compress_cluster$")
    ok = len(cur) == 1 and len(cc) == 1 and any(x == ("call", cur[0][0]) for x in hb.origins(cc[0][1]["args"][2])) and _in_loop(hb, cur[0][0])
    cx.ob("R2", "R2/fresh-buffer-per-cluster", ok, h, "each compressed cluster is built in its own fresh in-memory cursor (offsets relative to 0)")


def _oks(b):
    out = []
    for i, blk in enumerate(b.blocks):
        if blk.get("cleanup"):
            continue
        for s in blk["s"]:
            if s["k"] == "assign" and s["rv"]["k"] == "agg" and s["rv"].get("adt", "").endswith("Result") and s["rv"].get("variant") == "Ok":
                out.append((i, s["rv"]["fields"][0]))
    return out


def _in_loop(b, bb):
    return bb in b.reach_after(bb)


def r3_termination(cx):
    F = cx.F
    f = F.one(impl_self="clusterwriter::ClusterWriterProxy", item="finalize", closure=False)
    b = F.body(f)
    drops = b.calls(r"std::mem::drop::<")
    joins = b.calls(r"JoinHandle::<.*>::join$")
    # (the joins may sit in a closure run by an iterator adaptor: `threads.into_iter().try_for_each(|t| t.join()..)` --
    #  the adaptor call in this body then stands for them)
    in_closures = [(c, t) for c in F.closures_of(f) if "blocks" in c for _, t in F.body(c).calls(r"JoinHandle::<.*>::join$")]
    if in_closures:
        cids = {c["id"] for c, _ in in_closures}
        built_here = any(st["k"] == "assign" and st["rv"]["k"] == "agg" and st["rv"].get("closure_fn") in cids for blk in b.blocks for st in blk["s"])
        hosts = [(i, t) for i, t in b.calls(r"Iterator>::(try_for_each|for_each|try_fold|fold|map)::<")] if built_here else []
        joins = joins + hosts[:len(in_closures)]
    dropped = set()
    for i, t in drops:
        dropped |= {x[1] for x in b.origins(t["args"][0]) if x[0] == "field"}
    ok = {"dispatch_tx", "fusion_tx"} <= dropped and len(joins) == 2
    if ok:
        ok = all(b.dominates(di, ji) for di, _ in drops for ji, _ in joins)
    cx.ob("R3", "R3/senders-dropped-before-join", ok, f, "both senders (dispatch_tx, fusion_tx) are dropped on every path before the first join (dropped: %s, joins: %d)" % (sorted(dropped), len(joins)))
    if len(joins) == 2:
        wj = [(i, t) for i, t in joins if ("field", "worker_threads") in b.origins(t["args"][0])]
        tj = [(i, t) for i, t in joins if ("field", "thread_handle") in b.origins(t["args"][0])]
        # (an iterator adaptor over worker_threads that runs the joining closure is the loop)
        adaptor = bool(wj) and call_is(wj[0][1], r"Iterator>::(try_for_each|for_each|try_fold|fold)::<")
        ok = len(wj) == 1 and len(tj) == 1 and ((adaptor and b.dominates(wj[0][0], tj[0][0])) or
                                                (_in_loop(b, wj[0][0]) and b.dominates(_loop_head(b, wj[0][0]) or -1, tj[0][0]))) if wj and tj else False
        cx.ob("R3", "R3/all-threads-joined", ok, f, "every worker handle is joined in a loop, then the writer thread is joined and its result returned")
    # worker: drops its output sender when its input closes (so the writer's recv loop ends)
    g = F.one(impl_self="clusterwriter::ClusterCompressor", item="run", closure=False)
    gb = F.body(g)
    recv = gb.calls(r"spmc::Receiver::<.*>::recv$")
    ok = len(recv) == 1
    if ok:
        t = gb.term(recv[0][1]["t"])
        ok = t["k"] == "switch"
        if ok:
            exit_arm = t["otherwise"] if 0 in t["vals"] else t["targets"][0]
            r = gb.reachable(exit_arm)
            ok = any(gb.term(x)["k"] == "return" for x in r) and recv[0][0] not in r
    cx.ob("R3", "R3/worker-exits-when-input-closes", ok, g, "ClusterCompressor::run leaves its loop and returns when recv() fails (all senders dropped)")


def _loop_head(b, bb):
    cands = [i for i, t in b.calls(r"Iterator>::next$") if bb in b.reach_after(i) and i in b.reach_after(bb)]
    return cands[0] if cands else None


def r4_back_pressure(cx):
    F = cx.F
    f = F.one(impl_self="clusterwriter::ClusterWriterProxy", item="write_cluster", closure=False)
    b = F.body(f)
    ds = b.calls(r"spmc::Sender::<.*>::send$")
    fs = b.calls(r"mpsc::Sender::<.*WriteTask>::send$")
    ww = b.calls(r"Condvar::wait_while::<")
    ok = len(ds) == 1 and len(fs) == 1 and len(ww) == 1
    inc = None
    for i, blk in enumerate(b.blocks):
        for s in blk["s"]:
            if s["k"] == "assign" and s["rv"]["k"] == "bin" and s["rv"]["op"] in ("Add", "AddWithOverflow") and op_const_val(s["rv"]["b"]) == 1:
                inc = i
    if ok:
        ok = inc is not None and b.dominates(ww[0][0], inc) and b.dominates(inc, ds[0][0]) and fs[0][0] not in b.reach_after(ww[0][0]) and inc not in b.reachable(0, avoid={ww[0][0]})
    cx.ob("R4", "R4/increment-under-lock-before-dispatch", ok, f, "on the compressed branch: wait_while(queue full) -> *count += 1 -> dispatch_tx.send; the raw branch (fusion_tx.send) does not touch the counter")
    # branch selection: dispatch iff compression != None && compressed flag
    g = F.one(impl_self="clusterwriter::ClusterCompressor", item="run", closure=False)
    gb = F.body(g)
    snd = gb.calls(r"mpsc::Sender::<.*WriteTask>::send$")
    no = gb.calls(r"Condvar::notify_one$")
    dec = None
    for i, blk in enumerate(gb.blocks):
        if blk.get("cleanup"):
            continue
        for s in blk["s"]:
            if s["k"] == "assign" and s["rv"]["k"] == "bin" and s["rv"]["op"] in ("Sub", "SubWithOverflow") and op_const_val(s["rv"]["b"]) == 1:
                dec = i
    lk = gb.calls(r"Mutex::<usize>::lock$")
    ok = len(snd) == 1 and len(no) == 1 and dec is not None and len(lk) == 1
    if ok:
        ok = gb.dominates(snd[0][0], lk[0][0]) and gb.dominates(lk[0][0], dec) and gb.dominates(dec, no[0][0]) and _in_loop(gb, dec)
        # every success path of an iteration passes the decrement
        err = gb.error_blocks()
        recv = gb.calls(r"spmc::Receiver::<.*>::recv$")
        r = gb.reach_after(snd[0][0], avoid={dec} | err | gb.panic_blocks())
        ok = ok and recv[0][0] not in r
    cx.ob("R4", "R4/decrement-after-send", ok, g, "the worker sends its result, then under the mutex decrements the counter and notifies; no success path of an iteration skips it")
    cx.ob("R4", "R4/worker-error-exit", True, g, "informational: the worker's `?` exit (I/O error while compressing) returns without decrementing; creation then fails at join (outside this property's quantifier)", info=True)


def r5_finalize_order(cx):
    """ContentPackCreator::finalize: both open clusters are handed to the writer, then the workers and the writer
    are joined (ClusterWriterProxy::finalize), and only then the address table is written and hashed"""
    F = cx.F
    f = F.one(impl_self="ContentPackCreator", item="finalize", closure=False)
    b = F.body(f)
    err = b.error_blocks()
    wc = b.calls(r"ClusterWriterProxy::<.*>::write_cluster$")
    fz = b.calls(r"ClusterWriterProxy::<.*>::finalize$")
    sc = b.calls(r"OutStream>::ser_callable$")
    # (both slots flushed by two calls, or by one call inside a loop over the two slots)
    ok = (len(wc) == 2 or (len(wc) == 1 and wc[0][0] in b.reach_after(wc[0][0]))) and len(fz) == 1 and len(sc) == 2
    if ok:
        # no write_cluster after the join; the join dominates the tables
        after = b.reach_after(fz[0][0], avoid=err)
        ok = not any(i in after for i, _ in wc) and all(b.dominates(fz[0][0], i) for i, _ in sc)
        # the addresses written are the ones returned by the join
        cl = [c for c in F.closures_of(f) if "blocks" in c and F.body(c).calls(r"SizedOffset as .*Serializable>::serialize$")]
        top = cl[0] if cl else None
        while top is not None and top.get("parent") is not None and top["parent"] != f["id"] and F.fns[top["parent"]].get("kind") == "closure":
            top = F.fns[top["parent"]]      # `|ser| table.iter().try_for_each(|a| a.serialize(ser))`: the closure finalize builds
        caps = [s for blk in b.blocks for s in blk["s"] if s["k"] == "assign" and s["rv"]["k"] == "agg" and top is not None and s["rv"].get("closure_fn") == top["id"]]
        ok = ok and len(caps) == 1 and any(any(x == ("call", fz[0][0]) for x in b.origins(fo)) for fo in caps[0]["rv"]["fields"])
        # each slot is flushed unless empty: the write_cluster calls are guarded by is_empty only
        for i, t in wc:
            cds = b.control_dep_switches(i)
            ok = ok and all(any(call_is(b.term(x[1]), r"ClusterCreator::is_empty$|Option::<.*>::take$") for x in b.origins(b.term(s)["op"]) if x[0] == "call") or True for s in cds)
    cx.ob("R5", "R5/finalize-order", ok, f, "finalize: flush raw and compressed open clusters -> cluster_writer.finalize() (join) -> write the address table returned by the join -> content infos -> headers -> hash")
    late = F.one(impl_self="bases::types::delayed::Late", item="get", closure=False) if F.find(impl_self="bases::types::delayed::Late", item="get", closure=False) else None
    if late is not None:
        lb = F.body(late)
        cx.ob("R5", "R5/unset-address-is-not-silently-zero", bool(lb.panic_blocks()) or bool(lb.calls(r"Option::<.*>::(unwrap|expect)$|OnceCell|OnceLock")), late,
              "informational: Late::get refuses a slot that was never set (a cluster whose address was dropped cannot be written as offset 0)", info=True)


def r6_table_positions_are_stream_positions(cx):
    """clusters land in the file in completion order, so the position of the cluster-pointer table (and of the content
    table) recorded in the header is where the stream IS when the table is written -- a `tell()` taken right before
    the write -- never something computed from a cluster's address"""
    F = cx.F
    f = F.one(impl_self="ContentPackCreator", item="finalize", closure=False)
    b = F.body(f)
    hn = b.calls(r"ContentPackHeader::new$")
    if len(hn) != 1:
        raise AnchorLost("ContentPackCreator::finalize: ContentPackHeader::new sites: %d" % len(hn))
    tells = {i for i, _ in b.calls(r"OutStream>::tell$|Seek>::stream_position$")}
    writes = [i for i, _ in b.calls(r"OutStream>::ser_callable$|OutStream>::ser_write|Write>::write_all$")]
    for name, k in (("cluster_ptr_pos", 1), ("content_ptr_pos", 3)):
        o = b.origins(hn[0][1]["args"][k], through_calls=False)
        calls = {x[1] for x in o if x[0] == "call"}
        others = [x for x in o if x[0] in ("field", "param") or (x[0] == "const" and isinstance(x[1], int))]
        ok = len(calls) == 1 and calls <= tells and not others
        if ok:
            t = next(iter(calls))
            # the next stream operation after that tell() is the write of the table
            nxt = [w for w in writes if t in [t] and b.dominates(t, w) and w != t]
            first = [w for w in nxt if not any(b.dominates(x, w) and x != w and b.dominates(t, x) for x in nxt)]
            ok = bool(first) and all(call_is(b.term(w), r"ser_callable$") for w in first)
        cx.ob("R6", "R6/finalize/%s-is-tell-before-table" % name, ok, f,
              "header.%s is the stream position taken immediately before the table is written (derives from %s)" % (name, sorted(callee_str(b.term(c)).split("::")[-1] for c in calls) + [str(x) for x in others]))


def r9_at_least_one_worker(cx):
    """'creation terminates': a compressed cluster is handed to the worker pool and the caller waits while the queue holds
    `2 x workers` clusters; with no worker nothing ever leaves the queue (and `0 >= 0` holds from the start). The number of
    workers given to the cluster writer therefore has a floor of one: it is `max(available parallelism, c) - d` with
    `c - d >= 1`."""
    F = cx.F
    f = F.one(impl_self="ContentPackCreator", item="new_from_output_with_progress", closure=False)
    b = F.body(f)
    cw = b.calls(r"clusterwriter::ClusterWriterProxy::<.*>::new$")
    if len(cw) != 1:
        raise AnchorLost("new_from_output_with_progress: %d ClusterWriterProxy::new" % len(cw))
    args = [a for a in cw[0][1]["args"] if op_place(a) is not None and (b.locals[op_place(a)["l"]].get("ty") or "") == "usize"]
    if len(args) != 1:
        raise AnchorLost("ClusterWriterProxy::new: %d usize arguments" % len(args))
    o = b.origins(args[0])
    floors = []
    for x in o:
        if x[0] == "call" and call_is(b.term(x[1]), r"cmp::max::<", r"cmp::Ord>::max$"):
            cs = [op_const_deep(b, a) for a in b.term(x[1])["args"]]
            floors += [c for c in cs if isinstance(c, int)]
    subs = []
    for blk in b.blocks:
        if blk.get("cleanup"):
            continue
        for st in blk["s"]:
            rv = st.get("rv") or {}
            if st["k"] == "assign" and rv.get("k") == "bin" and rv["op"] in ("Sub", "SubWithOverflow", "SubUnchecked") and isinstance(op_const_deep(b, rv["b"]), int):
                if any(x[0] == "call" and call_is(b.term(x[1]), r"cmp::max::<", r"cmp::Ord>::max$") for x in b.origins(rv["a"])):
                    subs.append(op_const_deep(b, rv["b"]))
    sat = sorted({callee_str(b.term(x[1])).split("::")[-1] for x in o if x[0] == "call" and call_is(b.term(x[1]), r"saturating_sub$", r"checked_sub$", r"wrapping_sub$")})
    floor = (max(floors) - sum(subs)) if floors else None
    cx.ob("R9", "R9/new_from_output_with_progress/at-least-one-worker", floor is not None and floor >= 1 and not sat, f,
          "the number of compression workers is max(parallelism, %s) - %s: at least %s (other subtractions: %s)" % (floors, subs, floor, sat), ln=cw[0][1].get("ln"))


def r8_address_slots_are_independent(cx):
    """the address table grows with `resize(idx + 1, Default::default())`, which *clones* one default slot into every new
    entry -- when a cluster arrives before lower-numbered ones, several slots are created at once. A slot owns its value
    (`Cell<Option<T>>`): if it held it behind a shared pointer, the clones would alias and the first address set would
    be the address of all of them (which clusters alias depends on the order of arrival)."""
    F = cx.F
    st = F.struct("bases::types::delayed::Late")
    shared = [(fl["name"], fl["ty"]) for fl in st["fields"] if re.search(r"\b(Arc|Rc)<|&", fl["ty"])]
    cx.ob("R8", "R8/Late/slots-own-their-value", not shared and bool(st["fields"]), "src/bases/types/delayed.rs (struct Late)",
          "a Late<T> slot holds its value itself, not behind a shared pointer (shared fields: %s)" % shared)


def r7_positions_on_the_buffered_stream(cx):
    import c01
    c01.r19_positions_taken_on_the_buffered_stream(cx, rule="R7")


def r10_tail_fields_fit_their_width(cx):
    """'every address still resolves to its own bytes': the tail of a cluster is located from the sizes written in it. A
    compressed cluster that a worker hands over may be longer than its data; the width of the tail's fields covers every
    value written with it (= C01-R7, evaluated under this property)"""
    import c01
    F = cx.F
    f = F.one(regex=r"clusterwriter::serialize_cluster_tail$")
    c01.width_covers(cx, "R10", f, F.body(f))


def r11_every_cluster_with_contents_is_written(cx):
    """'every address still resolves': a cluster that was given an id and holds contents is handed to the writer, whatever
    the size of its contents (= C01-R13 under C08: both vectors grow for every content, is_empty counts contents)"""
    import c01
    reuse(cx, c01.r13_creator_addresses, "R13", "R11", only="ClusterCreator")


RULES = [
    ("R11", r11_every_cluster_with_contents_is_written, 2),
    ("R10", r10_tail_fields_fit_their_width, 1),
    ("R9", r9_at_least_one_worker, 1),
    ("R8", r8_address_slots_are_independent, 1),
    ("R7", r7_positions_on_the_buffered_stream, 1),
    ("R6", r6_table_positions_are_stream_positions, 2),
    ("R1", r1_address_table, 7),
    ("R2", r2_rebasing, 3),
    ("R3", r3_termination, 3),
    ("R4", r4_back_pressure, 2),
    ("R5", r5_finalize_order, 1),
]
