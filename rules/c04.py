"""C04 — created packs verify; any later change to checksummed bytes makes the check fail.
Structural clauses (DESIGN.md §4 C04): R1 hash after the last write into the hashed range,
R2 what `check` hashes and returns, R3 container-wide check shape, R4 exempt bytes = location."""
import re
from lib import *
import ref, streams, layout

PROPERTY = "C04"
EXPLANATION = ("Order/dominance and provenance facts over the MIR of the three pack creators, the three Pack::check impls, "
               "CheckInfo::check, Container::check and ContainerPack::check, plus constant agreement between the manifest mask "
               "(PACK_INFO_TO_CHECK / PACK_INFO_SIZE) and the extracted PackInfo layout. They are necessary conditions of C04 "
               "that hold on every execution at once (success paths of `?` considered); that a particular alteration changes "
               "the Blake3 digest is the hash's property and is assumed."
               " (R5) an error met while locating, opening or parsing a pack is never turned into 'absent' (= C06-R7): the container-wide check cannot skip an altered pack."
               ' Added later: (R6) FileSource positions every read with an absolute seek (the read buffer is discarded, a re-check re-reads the file); (R1) before the hash, rewind() is the origin only for a creator that recorded none. (R5) also the match form: an Err arm that goes on to a normal return.')
EXPLANATION += ' Batch 12: (R7) the reader masks 1 + count() pack-info slots as soon as a first offset exists (counted, not computed from distances).'
ASSUMPTIONS = ["Blake3 collision resistance", "CheckKind::None (container packs) verifies by design",
               "std::io Seek/Read/Write semantics", "rustc MIR construction and trait resolution"]

CREATORS = [
    ("content", dict(impl_self="ContentPackCreator", item="finalize"), "ContentPackHeader"),
    ("directory", dict(impl_self="FinalizedDirectoryPackCreator", item="write"), "DirectoryPackHeader"),
    ("manifest", dict(impl_self="ManifestPackCreator", item="finalize"), "ManifestPackHeader"),
]


def _types(b, ev, kind):
    return [(i, streams.written_type(b, b.term(i))) for i, k in ev.items() if k == kind]


def r1_hash_after_writes(cx):
    F = cx.F
    for name, loc, second in CREATORS:
        f = F.one(closure=False, **loc)
        b = F.body(f)
        ev = streams.events(b)
        err = b.error_blocks()
        H = [i for i, k in ev.items() if k == "hash"]
        cx.ob("R1", "R1/%s/one-hash" % name, len(H) == 1, f, "exactly one CheckInfo::new_blake3 call (found %d)" % len(H))
        if len(H) != 1:
            continue
        h = H[0]
        writes = {i: streams.written_type(b, b.term(i)) for i, k in ev.items() if k == "write"}
        # (i) both header writes dominate the hash
        for what, pat in (("PackHeader", r"headers::pack::PackHeader$"), (second, second + "$")):
            ws = [i for i, t in writes.items() if t and re.search(pat, t)]
            ok = len(ws) == 1 and b.dominates(ws[0], h)
            cx.ob("R1", "R1/%s/header-before-hash/%s" % (name, what), ok, f,
                  "ser_write(&%s) happens on every path before the digest is computed (sites: %s)" % (what, [b.ln(w) for w in ws]), ln=b.ln(h))
        # (iii) the hashed reader is positioned at the pack origin: last stream event before H is seek_start
        moving = {i for i, k in ev.items() if k in ("write", "seek_end", "seek_cur", "seek_unknown", "read", "seek_start")}
        starts = {i for i, k in ev.items() if k == "seek_start"}
        bad = []
        for e in moving - starts:
            if h in b.reach_after(e, avoid=starts | err):
                bad.append(b.ln(e))
        dom_start = [s for s in starts if b.dominates(s, h)]
        cx.ob("R1", "R1/%s/hash-from-origin" % name, not bad and bool(dom_start), f,
              "every path to new_blake3 last moved the stream with rewind/seek(Start(origin)); offending events at lines %s" % bad, ln=b.ln(h))
        # origin provenance of Start(x)
        for s in dom_start:
            t = b.term(s)
            if call_is(t, *streams.SEEK):
                v, opnd = streams.seek_variant(b, t)
                oc = [(i, tt) for i, tt in b.origin_calls(opnd) if not call_is(tt, r"Try>::branch$")]
                first_ev = min(ev, key=lambda x: (not b.dominates(x, s), len(b.dom()[x])))
                ok = bool(oc) and all(call_is(tt, r"Seek>::stream_position$") and i == first_ev for i, tt in oc)
                cx.ob("R1", "R1/%s/origin-provenance@%d" % (name, sorted(dom_start).index(s)), ok, f,
                      "seek(Start(x)) before the hash: x is the stream position taken at entry (origin)", ln=b.ln(s))
            elif call_is(t, *streams.REWIND):
                # a creator that was handed a positioned stream (it records the position at entry and works relative to it)
                # must hash from that position: `rewind()` goes to 0, which is the origin only for a creator that owns its file
                first_ev = min(ev, key=lambda x: (not b.dominates(x, s), len(b.dom()[x])))
                has_origin = call_is(b.term(first_ev), r"Seek>::stream_position$")
                cx.ob("R1", "R1/%s/origin-provenance@%d" % (name, sorted(dom_start).index(s)), not has_origin, f,
                      "rewind() before the hash is the origin of the pack only when the creator did not record another one at entry", ln=b.ln(s))
        # (iv) buffered writer flushed before the hash
        bufnew = b.calls(r"BufWriter::<.*>::new$")
        if bufnew:
            fl = [i for i, k in ev.items() if k == "flush" and b.dominates(i, h)]
            cx.ob("R1", "R1/%s/flush-before-hash" % name, bool(fl), f,
                  "the BufWriter is flushed / unwrapped on every path before the digest is computed", ln=b.ln(h))
        # (ii) after the hash: first stream event is ser_write(&CheckInfo); later writes only after seek(End)
        after = b.reach_after(h, avoid=err)
        ci = [i for i, t in writes.items() if i in after and t and t.endswith("CheckInfo")]
        ok_ci = len(ci) == 1
        first_bad = []
        if ok_ci:
            others = {i for i in ev if i in after and ev[i] != "tell" and i != ci[0]}
            # no other moving event reachable from h without crossing ci
            reach_wo = b.reach_after(h, avoid={ci[0]} | err)
            first_bad = [b.ln(i) for i in others if i in reach_wo]
        cx.ob("R1", "R1/%s/checkinfo-first-after-hash" % name, ok_ci and not first_bad, f,
              "after new_blake3 the first stream operation on every success path is ser_write(&CheckInfo) with the cursor where the hashing read left it; others first: %s" % first_bad, ln=b.ln(h))
        if ok_ci:
            post = b.reach_after(ci[0], avoid=err)
            ends = {i for i, k in ev.items() if k == "seek_end"}
            late = []
            for w in [i for i in writes if i in post]:
                # every path from ci to w must cross a seek_end after the last seek_start: approximate
                # by: w not reachable from any post-ci seek_start without crossing a seek_end
                for s in [x for x in starts if x in post]:
                    if w in b.reach_after(s, avoid=ends | err):
                        late.append((b.ln(s), b.ln(w)))
                if w not in b.reach_after(ci[0], avoid=err) or not any(b.dominates(e, w) for e in ends if e in post):
                    late.append(("no-seek-end", b.ln(w)))
            wt_ok = all(writes[w] and re.search(r"\[u8; 64\]$", writes[w]) for w in writes if w in post)
            cx.ob("R1", "R1/%s/no-write-into-hashed-range-after-hash" % name, not late and wt_ok, f,
                  "after the check block only the 64-byte tail mirror is written, and only after seek(End(0)); violations (seek_start line, write line): %s" % late, ln=b.ln(ci[0]))
        if name == "manifest":
            mcs = b.calls(r"ManifestCheckStream::<.*>::new$")
            ok = len(mcs) == 1 and b.dominates(mcs[0][0], h)
            cx.ob("R1", "R1/manifest/check-stream", ok, f, "the hashed reader is ManifestCheckStream::new(file, packs_offset, nb_packs)")
            if ok:
                mi, mt = mcs[0]
                # the reader given to new_blake3 derives from it
                cx.ob("R1", "R1/manifest/hash-reads-check-stream", b.derives_from_call(b.term(h)["args"][0], r"ManifestCheckStream::<.*>::new$", through_calls=False) or
                      _refs_local(b, b.term(h)["args"][0], mt["dest"]["l"]), f, "new_blake3 reads through the masking stream", ln=b.ln(h))
                # packs_offset = stream position right before the PackInfo writes
                pi_writes = [i for i, t in writes.items() if t and t.endswith("PackInfo")]
                oc = [i for i, tt in b.origin_calls(mt["args"][1]) if call_is(tt, r"stream_position$")]
                good = False
                if pi_writes and oc:
                    others_w = set(writes) - set(pi_writes)
                    for p in oc:
                        if p == min(i for i in ev):  # origin
                            continue
                        if pi_writes[0] in b.reach_after(p, avoid=others_w | err) and not any(p in b.reach_after(w, avoid=err) and w in b.reach_after(p, avoid=err) for w in []):
                            # no other write between p and the first PackInfo write on any path
                            between = [w for w in others_w if w in b.reach_after(p, avoid=set(pi_writes) | err) and pi_writes[0] in b.reach_after(w, avoid=err)]
                            good = not between
                cx.ob("R1", "R1/manifest/packs-offset", good, f,
                      "ManifestCheckStream's pack offset is the stream position taken immediately before the PackInfo blocks are written", ln=mt.get("ln"))
                n_org = b.origins(mt["args"][2])
                cx.ob("R1", "R1/manifest/nb-packs", any(o[0] == "call" and call_is(b.term(o[1]), r"Vec::<.*>::len$|::len$") for o in n_org) and ("field", "packs") in n_org, f,
                      "ManifestCheckStream's pack count derives from self.packs.len() (the number of PackInfo written)", ln=mt.get("ln"))


def _refs_local(b, op, target):
    seen = set()
    st = [op_base_local(op)]
    while st:
        l = st.pop()
        if l is None or l in seen:
            continue
        seen.add(l)
        if l == target:
            return True
        for d in b.defs().get(l, []):
            if d[0] == "stmt" and d[3]["k"] == "assign":
                rv = d[3]["rv"]
                for o in rv_operands(rv):
                    st.append(op_base_local(o))
                if "pl" in rv:
                    st.append(rv["pl"]["l"])
    return False


CHECKS = [("content", "ContentPack"), ("directory", "DirectoryPack"), ("manifest", "ManifestPack")]


def r2_check_impl(cx):
    F = cx.F
    for name, ty in CHECKS:
        f = F.one(impl_self=ty, item="check", trait="Pack", closure=False)
        b = F.body(f)
        cs = b.calls(r"Reader::create_stream$")
        ok = len(cs) == 1
        cx.ob("R2", "R2/%s/one-stream" % name, ok, f, "check creates exactly one stream over the reader (found %d)" % len(cs))
        if ok:
            i, t = cs[0]
            a_off = b.origin_calls(t["args"][1])
            a_size = b.origins(t["args"][2])
            off_ok = len(a_off) == 1 and call_is(a_off[0][1], r"Offset::zero$")
            size_ok = ("field", "check_info_pos") in a_size and ("field", "pack_header") in a_size and not any(o[0] == "const" and isinstance(o[1], int) and not isinstance(o[1], bool) for o in a_size)
            cx.ob("R2", "R2/%s/hashed-range" % name, off_ok and size_ok, f,
                  "the hashed stream is create_stream(Offset::zero(), Size::from(pack_header.check_info_pos), _): offset=%s size-origins=%s" % (
                      [callee_str(x[1]) for x in a_off], sorted(o for o in a_size if o[0] in ("field", "const"))), ln=t.get("ln"))
        # result flows from CheckInfo::check
        cc = b.calls(r"CheckInfo::check$")
        ok = len(cc) == 1
        cx.ob("R2", "R2/%s/calls-check" % name, ok, f, "the pack check calls CheckInfo::check exactly once (found %d)" % len(cc))
        if ok:
            ci, ct = cc[0]
            # reader argument: the created stream (or the masking stream built on it)
            rd = b.origins(ct["args"][1])
            stream_ok = any(o[0] == "call" and call_is(b.term(o[1]), r"Reader::create_stream$") for o in rd)
            if name == "manifest":
                stream_ok = stream_ok and any(o[0] == "call" and call_is(b.term(o[1]), r"ManifestCheckStream::<.*>::new_from_offset_iter") for o in rd)
            cx.ob("R2", "R2/%s/check-reads-stream" % name, stream_ok, f, "CheckInfo::check reads the stream created over [0, check_info_pos)%s" % (" through ManifestCheckStream::new_from_offset_iter" if name == "manifest" else ""), ln=ct.get("ln"))
            # every Ok(..) aggregate returned derives from the check call
            oks = _ok_aggregates(b)
            good = bool(oks) and all(any(o == ("call", ci) for o in b.origins(fld)) for (_, fld) in oks)
            cx.ob("R2", "R2/%s/result-from-check" % name, good, f,
                  "the value inside every Ok(..) the function returns derives from CheckInfo::check's result (a check answering a constant is reported)", ln=ct.get("ln"))
            # the CheckInfo comes from a CRC-checked block parse at (check_info_pos, check_info_size())
            srcs = F.reach([f], stop=lambda x: False)
            pb = []
            for g in [f] + [F.fns[x] for x in srcs if isinstance(x, int) and F.fns[x].get("impl_self", "").endswith(ty) and F.fns[x]["id"] != f["id"]]:
                if "blocks" not in g:
                    continue
                gb = F.body(g)
                for i, t in gb.calls(r"Reader::parse_block_in::<.*CheckInfo>$"):
                    o1 = gb.origins(t["args"][1])
                    o2 = gb.origin_calls(t["args"][2])
                    pb.append((g, t, ("field", "check_info_pos") in o1, any(call_is(x[1], r"PackHeader::check_info_size$") for x in o2)))
            pb = [p for p in pb if p[0]["id"] == f["id"] or p[0]["id"] in srcs]
            cx.ob("R2", "R2/%s/checkinfo-parsed-checked" % name, len(pb) >= 1 and all(p[2] and p[3] for p in pb), f,
                  "the CheckInfo is parsed with parse_block_in::<CheckInfo>(pack_header.check_info_pos, pack_header.check_info_size()) (CRC-verified block); sites: %s" % [(p[0]["name"].split("::")[-1], p[1].get("ln"), p[2], p[3]) for p in pb])
        if name == "manifest":
            ni = b.calls(r"ManifestCheckStream::<.*>::new_from_offset_iter")
            # PackOffsetsIter::new may sit in a helper of the same type (packs_offset())
            po = []
            for g in [f] + [F.fns[x] for x in F.reach([f]) if isinstance(x, int) and F.fns[x].get("impl_self", "").endswith("ManifestPack") and x != f["id"] and "blocks" in F.fns[x] and x not in F.absorbed]:
                gb = F.body(g)
                for i, t in gb.calls(r"PackOffsetsIter::new$"):
                    po.append((g, gb, t))
            ok = len(ni) == 1 and len(po) == 1
            if ok:
                g, gb, t = po[0]
                o1 = gb.origins(t["args"][0])
                o2 = gb.origins(t["args"][1])
                ok = ("field", "check_info_pos") in o1 and ("field", "pack_count") in o2
                if g["id"] != f["id"]:
                    ok = ok and b.derives_from_call(ni[0][1]["args"][1], re.escape(g["name"]) + "$")
            cx.ob("R2", "R2/manifest/offset-iter", ok, f, "the masking stream is built from PackOffsetsIter::new(pack_header.check_info_pos, header.pack_count)")
    # CheckInfo::check itself
    f = F.one(impl_self="CheckInfo", item="check", closure=False, trait="")
    b = F.body(f)
    eqs = b.calls(r"PartialEq.*>::eq$")
    fin = b.calls(r"blake3::Hasher::finalize$")
    upd = b.calls(r"blake3::Hasher::update_reader")
    ok = len(eqs) == 1 and len(fin) == 1 and len(upd) == 1
    cx.ob("R2", "R2/CheckInfo.check/shape", ok, f, "CheckInfo::check: one update_reader, one finalize, one eq (found %d/%d/%d)" % (len(upd), len(fin), len(eqs)))
    if ok:
        ei, et = eqs[0]
        a0 = b.origins(et["args"][0])
        a1 = b.origins(et["args"][1])
        both = a0 | a1
        cmp_ok = any(o == ("call", fin[0][0]) for o in both) and ("field", "b3hash") in both
        cx.ob("R2", "R2/CheckInfo.check/compares-digest-with-stored", cmp_ok, f, "the comparison is finalize() == stored b3hash", ln=et.get("ln"))
        # the hasher was fed from the reader parameter
        fed = ("param", 2) in b.origins(upd[0][1]["args"][1])
        cx.ob("R2", "R2/CheckInfo.check/hashes-the-source", fed, f, "update_reader is fed the `source` parameter", ln=upd[0][1].get("ln"))
        oks = _ok_aggregates(b)
        # on the Blake3 arm the Ok value derives from eq; the None arm returns const true
        from_eq = [x for x in oks if any(o == ("call", ei) for o in b.origins(x[1]))]
        consts = [x for x in oks if x not in from_eq]
        arm_ok = len(from_eq) >= 1 and all(op_const_val(x[1]) is True for x in consts)
        # the constant-true arm must be the `b3hash is None` arm: control-dependent on the discriminant of b3hash
        cx.ob("R2", "R2/CheckInfo.check/result", arm_ok and all(b.reachable(0) and not b.dominates(fin[0][0], x[0]) for x in consts), f,
              "Ok(eq-result) on the Blake3 arm; Ok(true) only where no digest is stored (CheckKind::None)")


def _ok_aggregates(b):
    """[(bb, operand)] of Result::Ok aggregates assigned (directly or through a temp) to _0"""
    out = []
    for i, blk in enumerate(b.blocks):
        if blk.get("cleanup"):
            continue
        for s in blk["s"]:
            if s["k"] == "assign" and s["rv"]["k"] == "agg" and s["rv"].get("adt", "").endswith("Result") and s["rv"].get("variant") == "Ok" and s["lhs"]["l"] == 0:
                out.append((i, s["rv"]["fields"][0]))
    return out


def r3_container_check(cx):
    F = cx.F
    # ---- Container::check
    f = F.one(impl_self="reader::jubako::Container", item="check", closure=False, trait="")
    b = F.body(f)
    err = b.error_blocks()
    oks = _ok_aggregates(b)
    true_ret = [x for x in oks if op_const_val(x[1]) is True]
    false_ret = [x for x in oks if op_const_val(x[1]) is False]
    cx.ob("R3", "R3/Container.check/returns", len(true_ret) == 1 and len(false_ret) >= 1 and len(true_ret) + len(false_ret) == len(oks), f,
          "Container::check returns Ok(true) at one place and Ok(false) on failures (true=%d false=%d other=%d)" % (len(true_ret), len(false_ret), len(oks) - len(true_ret) - len(false_ret)))
    if len(true_ret) != 1:
        return
    tb = true_ret[0][0]
    for what, pat in (("manifest", r"ManifestPack as .*Pack>::check$"), ("directory", r"DirectoryPack as .*Pack>::check$")):
        cs = b.calls(pat)
        ok = len(cs) == 1 and b.dominates(cs[0][0], tb)
        cx.ob("R3", "R3/Container.check/%s-checked" % what, ok, f, "%s_pack.check() is called on every path to Ok(true)" % what)
        if ok:
            cx.ob("R3", "R3/Container.check/%s-result-decides" % what, _result_guards(b, cs[0], tb, false_ret, err), f,
                  "the result of %s_pack.check() feeds a branch whose false arm returns Ok(false) and never reaches Ok(true)" % what, ln=cs[0][1].get("ln"))
    loc = b.calls(r"PackLocatorTrait>::locate$")
    gpi = b.calls(r"ManifestPack::get_pack_infos$")
    cx.ob("R3", "R3/Container.check/loops-over-pack-infos", len(loc) == 1 and len(gpi) == 1 and b.dominates(gpi[0][0], loc[0][0]) and _in_loop(b, loc[0][0]), f,
          "the loop ranges over manifest_pack.get_pack_infos() and locates every pack")
    # every iteration locates its pack: from the Some arm of the iterator's next() the loop head cannot be
    # reached again (nor Ok(true)) without passing through locate
    nxt = [(i, t) for i, t in b.calls(r"Iterator>::next$") if _in_loop(b, i)]
    every = False
    if len(nxt) == 1 and len(loc) == 1:
        ni, nt = nxt[0]
        sw = nt["t"]
        st = b.term(sw)
        if st["k"] == "switch" and 1 in st["vals"]:
            some_arm = st["targets"][st["vals"].index(1)]
            r = b.reachable(some_arm, avoid={loc[0][0]} | err)
            every = ni not in r and tb not in r
    cx.ob("R3", "R3/Container.check/every-iteration-locates", every, f,
          "on every path of a loop iteration the pack is located (no skip/continue in front of locator.locate)")
    oc = b.calls(r"jubako::open_as_container_pack$")
    ck = b.calls(r"ContainerPack::check$")
    ok = len(oc) == 1 and len(ck) == 1 and len(loc) == 1
    if ok:
        ok = any(o == ("call", loc[0][0]) for o in b.origins(oc[0][1]["args"][0])) and any(o == ("call", oc[0][0]) for o in b.origins(ck[0][1]["args"][0])) and _in_loop(b, ck[0][0])
    cx.ob("R3", "R3/Container.check/located-pack-checked", ok, f, "every Some(reader) from locate is opened with open_as_container_pack and its check() is called inside the loop")
    # the Some(reader) arm cannot get back to the loop head without the check
    if ok and len(nxt) == 1:
        li = loc[0][0]
        some_sw = [s for s in range(b.n) if b.term(s)["k"] == "switch" and not b.is_cleanup(s) and b.dominates(li, s) and
                   any(d[0] == "stmt" and d[3]["rv"]["k"] == "discr" and op_base_local({"cp": d[3]["rv"]["pl"]}) in b.forward_locals({loc[0][1]["dest"]["l"]}) and d[3]["rv"].get("of", "").startswith("std::option::Option<")
                       for d in b.defs().get(op_local(b.term(s)["op"]) or -1, []))]
        good = False
        for s in some_sw:
            t = b.term(s)
            if 1 in t["vals"]:
                arm = t["targets"][t["vals"].index(1)]
                r = b.reachable(arm, avoid={ck[0][0]} | err)
                good = nxt[0][0] not in r and tb not in r
        cx.ob("R3", "R3/Container.check/some-arm-must-check", good, f, "from the Some(reader) arm neither the next iteration nor Ok(true) is reachable without calling check() on the pack")
    if len(ck) == 1:
        cx.ob("R3", "R3/Container.check/pack-result-decides", _result_guards(b, ck[0], tb, false_ret, err), f,
              "the located pack's check result feeds a branch whose false arm returns Ok(false)", ln=ck[0][1].get("ln"))
    # ---- ContainerPack::check
    g = F.one(impl_self="ContainerPack", item="check", closure=False, trait="")
    gb = F.body(g)
    gerr = gb.error_blocks()
    goks = _ok_aggregates(gb)
    gtrue = [x for x in goks if op_const_val(x[1]) is True]
    gfalse = [x for x in goks if op_const_val(x[1]) is False]
    cx.ob("R3", "R3/ContainerPack.check/returns", len(gtrue) == 1 and len(gfalse) >= 1, g, "Ok(true) once, Ok(false) on failure")
    gnxt = [(i, t) for i, t in gb.calls(r"Iterator>::next$") if _in_loop(gb, i)]
    if len(gnxt) == 1 and len(gtrue) == 1:
        ni, nt = gnxt[0]
        st = gb.term(nt["t"])
        checks = {i for i, _ in gb.calls(r"as .*Pack>::check$")}
        every = False
        if st["k"] == "switch" and 1 in st["vals"]:
            arm = st["targets"][st["vals"].index(1)]
            r = gb.reachable(arm, avoid=checks | gerr | gb.panic_blocks())
            every = ni not in r and gtrue[0][0] not in r
        cx.ob("R3", "R3/ContainerPack.check/every-pack-checked", every, g, "every iteration over self.packs reaches one of the per-kind check() calls (or fails)")
    vals = gb.calls(r"HashMap::<.*>::values$")
    cx.ob("R3", "R3/ContainerPack.check/loops-over-all-packs", len(vals) == 1 and ("param", 1) in gb.origins(vals[0][1]["args"][0]) and any(x[0] == "field" for x in gb.origins(vals[0][1]["args"][0])), g, "the loop ranges over the values of the uuid -> reader map held by self (self.packs.values())")
    for kind, pat in (("Manifest", r"ManifestPack as .*Pack>::check$"), ("Directory", r"DirectoryPack as .*Pack>::check$"), ("Content", r"ContentPack as .*Pack>::check$")):
        cs = gb.calls(pat)
        ok = len(cs) == 1 and _in_loop(gb, cs[0][0])
        cx.ob("R3", "R3/ContainerPack.check/%s-arm" % kind, ok, g, "the %s arm calls that kind's check inside the loop" % kind)
        if ok and len(gtrue) == 1:
            cx.ob("R3", "R3/ContainerPack.check/%s-result-decides" % kind, _result_guards(gb, cs[0], gtrue[0][0], gfalse, gerr), g,
                  "the %s check result reaches the `if !ok { return Ok(false) }` test" % kind, ln=cs[0][1].get("ln"))
    # the arm is selected by the pack header's kind
    sw = [i for i in range(gb.n) if gb.term(i)["k"] == "switch" and not gb.is_cleanup(i) and ("field", "magic") in gb.origins(gb.term(i)["op"])
          and any(d[0] == "stmt" and d[3]["rv"]["k"] == "discr" and d[3]["rv"].get("of", "").endswith("PackKind") for d in gb.defs().get(op_local(gb.term(i)["op"]), []))]
    tags = ref.REF["tags"]["PackKind"]
    ok = False
    if len(sw) == 1:
        t = gb.term(sw[0])
        want = {tags["Manifest"]: "Manifest", tags["Directory"]: "Directory", tags["Content"]: "Content"}
        got = {}
        for v, tg in zip(t["vals"], t["targets"]):
            r = gb.reachable(tg, avoid=gerr)
            for kind, pat in (("Manifest", r"ManifestPack as .*Pack>::check$"), ("Directory", r"DirectoryPack as .*Pack>::check$"), ("Content", r"ContentPack as .*Pack>::check$")):
                for i, _ in gb.calls(pat):
                    # the first check reached from this target without passing the switch again
                    if i in gb.reachable(tg, avoid=gerr | {sw[0]}):
                        got.setdefault(v, set()).add(kind)
        ok = all(got.get(v) == {k} for v, k in want.items())
    cx.ob("R3", "R3/ContainerPack.check/arm-by-kind", ok, g, "each pack is checked by the checker of its own kind (switch on pack_header.magic: m→Manifest, d→Directory, c→Content)")


def _in_loop(b, bb):
    return bb in b.reach_after(bb)


def _result_guards(b, call, true_bb, false_rets, err):
    """the call's result (through `?`) feeds a switch; from the arm taken when it is false, the
    Ok(true) block is not reachable without re-entering the call (loop) and an Ok(false) is."""
    ci, ct = call
    tl = b.forward_locals({ct["dest"]["l"]}, through_calls=True)
    for s in range(b.n):
        t = b.term(s)
        if t["k"] != "switch" or op_base_local(t["op"]) not in tl:
            continue
        if t.get("op_ty") != "bool":
            continue
        if s not in b.reach_after(ci, avoid=err):
            continue
        # which successor is "check failed"? the value may be negated (`!x`): try both arms and require
        # that exactly one arm cannot reach Ok(true) (without looping through the call again) and reaches Ok(false)
        arms = list(dict.fromkeys(t["targets"] + [t["otherwise"]]))
        verdict = []
        for a in arms:
            r = b.reachable(a, avoid=err | {ci})
            verdict.append((true_bb not in r, any(fr[0] in r for fr in false_rets)))
        if any(v == (True, True) for v in verdict) and any(not v[0] for v in verdict):
            return True
    return False


def r4_mask(cx, rule="R4"):
    F = cx.F
    sizes = ref.REF["sizes"]
    c_check = F.const("common::check::PACK_INFO_TO_CHECK")
    c_size = F.const("common::check::PACK_INFO_SIZE")
    lay = layout.flat_layout(F, "PackInfo", "ser")
    path = next(iter(lay)) if len(lay) == 1 else None
    prefix = None
    if path:
        prefix = 0
        for a in path:
            if a[0] == "pstr_padded":
                break
            prefix += a[1] if isinstance(a[1], int) else 10 ** 6
    total = layout.fixed_total(lay)
    where = "%s:%s" % (c_check["file"], c_check["line"])
    cx.ob(rule, rule + "/to-check=location-offset", c_check["val"] == prefix == sizes["PackInfo.checked_prefix"], where,
          "PACK_INFO_TO_CHECK (%s) = offset of pack_location in the extracted PackInfo layout (%s) = reference %d" % (c_check["val"], prefix, sizes["PackInfo.checked_prefix"]))
    cx.ob(rule, rule + "/size=block", total is not None and c_size["val"] == total + sizes["crc"] == sizes["PackInfo.block"], "%s:%s" % (c_size["file"], c_size["line"]),
          "PACK_INFO_SIZE (%s) = PackInfo payload (%s) + 4-byte CRC = reference %d" % (c_size["val"], total, sizes["PackInfo.block"]))
    f = F.one(impl_self="ManifestCheckStream", item="read", trait="Read", closure=False)
    b = F.body(f)
    fills = b.calls(r"slice::<impl \[.*\]>::fill|::fill$")
    cx.ob(rule, rule + "/one-fill", len(fills) == 1, f, "exactly one zero-fill in ManifestCheckStream::read (found %d)" % len(fills))
    if len(fills) != 1:
        return
    fi, ft = fills[0]
    zero = op_const_val(ft["args"][1]) == 0
    # find the switch on Lt(local_offset, TO_CHECK)
    found = None
    for s in range(b.n):
        t = b.term(s)
        if t["k"] != "switch":
            continue
        l = op_local(t["op"])
        for d in b.defs().get(l, []):
            if d[0] == "stmt" and d[3]["rv"]["k"] == "bin" and d[3]["rv"]["op"] == "Lt" and op_const_val(d[3]["rv"]["b"]) == c_check["val"]:
                found = (s, t, d[3]["rv"])
    ok = False
    msg = "no comparison `local_offset < PACK_INFO_TO_CHECK` found"
    if found:
        s, t, cmp_rv = found
        false_t = t["targets"][t["vals"].index(0)] if 0 in t["vals"] else None
        true_t = t["otherwise"]
        # path-sensitive (the arm may only compute a (limit, masked) pair that a common tail acts on)
        only_false = false_t is not None and (b.set_dominates({false_t}, fi) or fi not in b.explore(avoid={false_t})[0]) \
            and (fi not in b.reachable(true_t, avoid={s}) or fi not in b.explore(start=true_t, avoid={s})[0])
        # local_offset = (.. ) % PACK_INFO_SIZE
        lo = op_local(cmp_rv["a"])
        rem_ok = _defined_by_bin(b, lo, "Rem", c_size["val"])
        r_false, r_true = b.reachable(false_t, avoid={s}), b.reachable(true_t, avoid={s})
        only_f, only_t = r_false - r_true, r_true - r_false
        everything = set(range(b.n))
        # bound of the read on the masked arm derives from SIZE - local_offset (definitions of the other arm left out)
        bound_ok = False
        for i, tt in b.calls(r"index_mut"):
            if i in r_false and (b.dominates(i, fi) or i in only_f):
                o = b.origins(tt["args"][1], blocks=everything - only_t)
                if ("const", c_size["val"]) in o and ("const", c_check["val"]) not in o:
                    bound_ok = True
        # pass-through arm bound derives from TO_CHECK - local_offset
        pass_ok = False
        for i, tt in b.calls(r"index_mut"):
            if i in r_true:
                o = b.origins(tt["args"][1], blocks=everything - only_f)
                if ("const", c_check["val"]) in o:
                    pass_ok = True
        ok = zero and only_false and rem_ok and bound_ok and pass_ok
        msg = "fill(0) only on the arm local_offset >= TO_CHECK: %s; local_offset = x %% PACK_INFO_SIZE: %s; masked read bounded by SIZE - local_offset: %s; checked read bounded by TO_CHECK - local_offset: %s; fills zero: %s" % (only_false, rem_ok, bound_ok, pass_ok, zero)
    cx.ob(rule, rule + "/zero-range", ok, f, msg, ln=ft.get("ln"))
    # the masked region spans pack_count slots: start_safe_zone = pack_offset + pack_count * PACK_INFO_SIZE
    g = F.one(impl_self="ManifestCheckStream", item="new", closure=False, trait="")
    gb = F.body(g)
    mul = False
    for i, blk in enumerate(gb.blocks):
        for s in blk["s"]:
            if s["k"] == "assign" and s["rv"]["k"] == "bin" and s["rv"]["op"] in ("Mul", "MulWithOverflow") and c_size["val"] in (op_const_val(s["rv"]["a"]), op_const_val(s["rv"]["b"])):
                mul = True
    cx.ob(rule, rule + "/safe-zone", mul, g, "start_safe_zone = pack_offset + pack_count * PACK_INFO_SIZE (multiplication by the slot size present)")


def _defined_by_bin(b, l, op, const):
    seen = set()
    st = [l]
    while st:
        x = st.pop()
        if x is None or x in seen:
            continue
        seen.add(x)
        for d in b.defs().get(x, []):
            if d[0] == "stmt" and d[3]["k"] == "assign":
                rv = d[3]["rv"]
                if rv["k"] == "bin" and rv["op"] == op and op_const_val(rv["b"]) == const:
                    return True
                if rv["k"] in ("use", "cast"):
                    st.append(op_base_local(rv["op"]))
    return False


def r_errors_reach_the_caller(cx):
    """an error met while locating, opening or parsing (a detected alteration) is never turned into 'absent' / a
    default: it must reach the caller of check() / of the accessor (= C06-R7, evaluated under this property)"""
    import c06
    before = len(cx.obs)
    c06.r7_errors_not_swallowed(cx)
    for o in cx.obs[before:]:
        o.key = "R5/" + o.key.split("/", 1)[1]
        o.rule = "R5"


def r6_checked_reads_come_from_the_file(cx):
    """'if any byte covered by a pack's checksum is later altered the check reports failure': `check()` streams the
    checked range of a file-backed pack through FileSource (never the in-memory copy), and FileSource keeps one
    BufReader for its whole life. Every read of it is positioned with an absolute `seek(SeekFrom::Start(..))`, which
    empties the read buffer; `seek_relative` (or no seek at all) would serve the bytes buffered by an earlier read, so a
    second check of an object that is already open would not see an alteration made in between."""
    F = cx.F
    import streams
    n = 0
    for item in ("read", "read_exact", "cut"):
        f = F.one(impl_self="bases::io::file::FileSource", item=item, trait="Source", closure=False)
        b = F.body(f)
        reads = [i for i, t in b.calls(r"io::Read>::(read|read_exact|read_to_end|read_buf)$")]
        if item != "cut" and not reads:
            raise AnchorLost("FileSource::%s no longer reads the file" % item)
        absolute = {i for i, t in b.calls(r"io::Seek>::seek$") if streams.seek_variant(b, t)[0] == "Start"}
        relative = [t.get("ln") for i, t in b.calls(r"seek_relative$")]
        unpositioned = [b.ln(r) for r in reads if not b.set_dominates(absolute, r)]
        n += 1
        cx.ob("R6", "R6/FileSource.%s/positioned-with-an-absolute-seek" % item, not relative and not unpositioned, f,
              "every read of the shared BufReader (%d) comes after seek(SeekFrom::Start(..)), which discards what an earlier read buffered (seek_relative at lines %s; reads without an absolute seek before them: %s)" % (len(reads), relative, unpositioned))


def r7_reader_masks_as_many_slots_as_there_are(cx):
    """'every pack the creator produces passes its own check': the creator hashes the manifest with the rewritable part of
    *each* pack info read as zero (R1: nb_packs = self.packs.len()); the reader must mask exactly as many slots. In
    ManifestCheckStream::new_from_offset_iter, as soon as the iterator of pack-info offsets yields a first offset, the count
    handed to `new` is 1 + `count()` of the rest -- counted, not computed from distances between offsets (`last`, `-`, `/`),
    which forgets the case of a single pack."""
    F = cx.F
    f = F.one(impl_self="check::ManifestCheckStream", item="new_from_offset_iter", closure=False)
    b = F.body(f)
    nx = [(i, t) for i, t in b.calls(r"Iterator>::next$") if ("param", 2) in b.origins(t["args"][0])]
    if len(nx) != 1:
        raise AnchorLost("new_from_offset_iter: %d `next()` on the offsets" % len(nx))
    r, _ = b.explore(assume_calls={nx[0][0]: ("agg", 1, (None,))}, avoid=b.panic_blocks())
    news = [(i, t) for i, t in b.calls(r"ManifestCheckStream::<.*>::new$") if i in r]
    if not news:
        raise AnchorLost("new_from_offset_iter does not reach ManifestCheckStream::new when a first offset exists")
    bad = []
    for i, t in news:
        o = b.origins(t["args"][2], blocks=set(r))
        cs = {callee_str(b.term(x[1])).split("::<")[0].split("::")[-1] for x in o if x[0] == "call"}
        counted = "count" in cs or "len" in cs
        computed = sorted(cs & {"last", "sub", "div", "max", "min", "nth", "size_hint", "checked_sub", "checked_div"})
        if not counted or computed:
            bad.append("line %s: counted=%s, computed through %s" % (t.get("ln"), counted, computed or "nothing"))
    cx.ob("R7", "R7/new_from_offset_iter/slots-are-counted", not bad, f, "with a first pack-info offset at hand, the number of masked slots is 1 + count() of the remaining offsets on every path (%s)" % (bad or "ok"))


RULES = [
    ("R7", r7_reader_masks_as_many_slots_as_there_are, 1),
    ("R6", r6_checked_reads_come_from_the_file, 3),
    ("R5", r_errors_reach_the_caller, 2),
    ("R1", r1_hash_after_writes, 18),
    ("R2", r2_check_impl, 18),
    ("R3", r3_container_check, 17),
    ("R4", r4_mask, 5),
]
EOF_MARKER = None
