"""Baseline-relative transparency of helper functions.

The rules were written, and their instances confirmed by hand, against the functions that exist at the
pinned commit (format/baseline_functions.json). A later change that *extracts* part of an anchored function
into a new helper keeps the behaviour but hides the extracted statements from an intra-procedural rule.
To keep such a change from raising a false alarm -- and to keep a harmful change from hiding in a new
helper -- every direct call to a function that does not exist in the baseline is inlined into its callers
(MIR level, on the JSON facts, depth-bounded), so the rules see the statements where they used to be.
Functions of the baseline are never inlined: on the pinned tree this transformation is the identity."""
import copy, json, os

HERE = os.path.dirname(os.path.abspath(__file__))
BASELINE = os.path.join(os.path.dirname(HERE), "format", "baseline_functions.json")
MAX_DEPTH = 3
MAX_BLOCKS = 400  # a helper bigger than this is left opaque


def load_baseline():
    with open(BASELINE) as f:
        return set(json.load(f)["functions"])


def _ren_place(pl, off):
    pl["l"] += off
    for p in pl.get("p", []) or []:
        if isinstance(p, dict) and "idx" in p:
            p["idx"] += off


def _ren(node, off):
    """rename every local mentioned in a JSON subtree (places are dicts with an integer 'l')"""
    if isinstance(node, dict):
        if isinstance(node.get("l"), int) and set(node.keys()) <= {"l", "p"}:
            _ren_place(node, off)
            return
        for k, v in node.items():
            if k == "callee":
                continue
            _ren(v, off)
    elif isinstance(node, list):
        for v in node:
            _ren(v, off)


def _retarget(t, boff):
    k = t["k"]
    if k == "goto":
        t["t"] += boff
    elif k == "switch":
        t["targets"] = [x + boff for x in t["targets"]]
        t["otherwise"] += boff
    elif k in ("call", "drop", "assert"):
        if t.get("t") is not None:
            t["t"] += boff
        if "unwind" in t:
            t["unwind"] += boff


def _callee_fn(t):
    c = t.get("callee") or {}
    if c.get("rkind") == "item" and c.get("rfn") is not None:
        return c["rfn"]
    if "trait" not in c and c.get("def_fn") is not None:
        return c["def_fn"]
    return None


transparent_hosts = set()   # functions in which a direct call of a locally built closure is inlined (set by apply / deep bodies)


def _closure_called(f, t):
    """id of the closure body when the call terminator invokes, through Fn/FnMut/FnOnce, a closure value built in f"""
    c = t.get("callee") or {}
    names = " ".join(str(c.get(k, "")) for k in ("def", "path"))
    if not any(x in names for x in ("FnOnce::call_once", "FnMut::call_mut", "Fn::call", "ops::FnOnce<", "ops::FnMut<", "ops::Fn<")) or not t.get("args"):
        return None
    op = t["args"][0]
    pl = op.get("mv") or op.get("cp") if isinstance(op, dict) else None
    seen = set()
    while pl is not None and pl["l"] not in seen:
        seen.add(pl["l"])
        defs = []
        for blk in f["blocks"]:
            for st in blk["s"]:
                if st["k"] == "assign" and st["lhs"]["l"] == pl["l"] and not st["lhs"].get("p"):
                    defs.append(st)
        if len(defs) != 1:
            return None
        rv = defs[0]["rv"]
        if rv["k"] == "agg" and "closure_fn" in rv:
            return rv["closure_fn"]
        if rv["k"] == "use":
            pl = rv["op"].get("mv") or rv["op"].get("cp")
        elif rv["k"] == "ref":
            pl = rv["pl"]
        else:
            return None
    return None


def _closure_of_operand(f, op):
    """id of the closure body when the operand is a closure value built in f (through copies / borrows)"""
    pl = (op.get("mv") or op.get("cp")) if isinstance(op, dict) else None
    seen = set()
    while pl is not None and pl["l"] not in seen:
        seen.add(pl["l"])
        defs = [st for blk in f["blocks"] for st in blk["s"] if st["k"] == "assign" and st["lhs"]["l"] == pl["l"] and not st["lhs"].get("p")]
        if len(defs) != 1:
            return None
        rv = defs[0]["rv"]
        if rv["k"] == "agg" and "closure_fn" in rv:
            return rv["closure_fn"]
        if rv["k"] == "use":
            pl = rv["op"].get("mv") or rv["op"].get("cp")
        elif rv["k"] == "ref":
            pl = rv["pl"]
        else:
            return None
    return None


# `opt.map(|x| ..)`, `res.and_then(|x| ..)`: (enum, variant whose payload the closure receives, its index, the result is wrapped again)
COMBINATORS = (
    (r"^std::option::Option::<.*>::map::<", "std::option::Option", "Some", 1, True),
    (r"^std::option::Option::<.*>::and_then::<", "std::option::Option", "Some", 1, False),
    (r"^std::result::Result::<.*>::map::<", "std::result::Result", "Ok", 0, True),
    (r"^std::result::Result::<.*>::and_then::<", "std::result::Result", "Ok", 0, False),
)


def _expand_then(fns, f, i, transparent, path):
    """`dest = o.then_with(closure)` / `o.then(x)` (closure new relative to the baseline) rewritten into what it does:
    `dest = if o is Equal { closure() / x } else { o }` -- a lexicographic comparison written as a chain reads like the
    nested `match` it replaces"""
    blk = f["blocks"][i]
    t = blk["t"]
    lazy = "then_with" in path
    if lazy:
        cid = _closure_of_operand(f, t["args"][1])
        if cid is None or not (cid in transparent or fns[cid].get("parent") in transparent or f["id"] in transparent_hosts):
            return False
    elif not (f["id"] in transparent or f["id"] in transparent_hosts or f.get("then_expand")):
        return False
    src = t["args"][0].get("mv") or t["args"][0].get("cp")
    if src is None or src.get("p"):
        return False
    ln = t.get("ln")
    L = len(f["locals"])
    for nm in ("discr", "args"):
        f["locals"].append({"ty": "?", "syn": "then:" + nm})
    d, tup = L, L + 1
    n = len(f["blocks"])
    bE, bK = n, n + 1
    cont, unw, dest = t["t"], t.get("unwind"), t["dest"]
    blk["s"].append({"k": "assign", "lhs": {"l": d}, "rv": {"k": "discr", "pl": {"l": src["l"]}, "of": "std::cmp::Ordering"}, "ln": ln})
    blk["t"] = {"k": "switch", "op": {"mv": {"l": d}}, "vals": [0], "targets": [bE], "otherwise": bK, "op_ty": "i8", "ln": ln, "expanded": path}
    if lazy:
        call = {"k": "call", "func": {"c": {"fn": "std::ops::FnOnce::call_once"}}, "args": [copy.deepcopy(t["args"][1]), {"mv": {"l": tup}}], "dest": copy.deepcopy(dest), "t": cont,
                "callee": {"def": "std::ops::FnOnce::call_once", "path": "<closure as std::ops::FnOnce<()>>::call_once", "krate": "core"}, "ln": ln}
        if unw is not None:
            call["unwind"] = unw
        f["blocks"].append({"s": [{"k": "assign", "lhs": {"l": tup}, "rv": {"k": "agg", "ak": "tuple", "fields": []}, "ln": ln}], "t": call})
    else:
        f["blocks"].append({"s": [{"k": "assign", "lhs": copy.deepcopy(dest), "rv": {"k": "use", "op": copy.deepcopy(t["args"][1])}, "ln": ln}], "t": {"k": "goto", "t": cont, "ln": ln}})
    f["blocks"].append({"s": [{"k": "assign", "lhs": copy.deepcopy(dest), "rv": {"k": "use", "op": {"cp": {"l": src["l"]}}}, "ln": ln}], "t": {"k": "goto", "t": cont, "ln": ln}})
    return True


def _expand_combinator(fns, f, i, transparent):
    """rewrite `dest = opt.map(closure)` (closure built in this body and new relative to the baseline) into what it does:
    a branch on the variant, a direct call of the closure on the payload, the result wrapped again -- the direct call is
    then inlined like any other. Returns True when block i was rewritten."""
    import re as _re
    blk = f["blocks"][i]
    t = blk["t"]
    c = t.get("callee") or {}
    path = str(c.get("path") or c.get("def") or "")
    if _re.search(r"^std::cmp::Ordering::then(_with::<.*)?$", path) and len(t.get("args", [])) == 2 and t.get("t") is not None and not t["dest"].get("p"):
        return _expand_then(fns, f, i, transparent, path)
    spec = next((x for x in COMBINATORS if _re.search(x[0], path)), None)
    if spec is None or len(t.get("args", [])) != 2 or t.get("t") is None or t["dest"].get("p"):
        return False
    cid = _closure_of_operand(f, t["args"][1])
    if cid is None or not (cid in transparent or fns[cid].get("parent") in transparent or f["id"] in transparent_hosts):
        return False
    src = t["args"][0].get("mv") or t["args"][0].get("cp")
    if src is None or src.get("p"):
        return False
    _, enum, variant, vidx, wrap = spec
    other_idx = 1 - vidx
    ln = t.get("ln")
    L = len(f["locals"])
    for nm in ("discr", "payload", "args", "ret", "rest"):
        f["locals"].append({"ty": "?", "syn": "combinator:" + nm})
    d, pay, tup, ret, rest = L, L + 1, L + 2, L + 3, L + 4
    n = len(f["blocks"])
    bS, bW, bN, bU = n, n + 1, n + 2, n + 3
    cont, unw, dest = t["t"], t.get("unwind"), t["dest"]
    proj = lambda idx, name: [{"down": idx, "n": name}, {"f": 0, "n": "0", "of": enum}]
    blk["s"].append({"k": "assign", "lhs": {"l": d}, "rv": {"k": "discr", "pl": {"l": src["l"]}, "of": f["locals"][src["l"]].get("ty") or enum}, "ln": ln})
    targets = [bN, bS] if vidx == 1 else [bS, bN]
    blk["t"] = {"k": "switch", "op": {"mv": {"l": d}}, "vals": [0, 1], "targets": targets, "otherwise": bU, "op_ty": "isize", "ln": ln, "expanded": path}
    call = {"k": "call", "func": {"c": {"fn": "std::ops::FnOnce::call_once"}}, "args": [copy.deepcopy(t["args"][1]), {"mv": {"l": tup}}], "dest": {"l": ret}, "t": bW,
            "callee": {"def": "std::ops::FnOnce::call_once", "path": "<closure as std::ops::FnOnce<(payload,)>>::call_once", "krate": "core"}, "ln": ln}
    if unw is not None:
        call["unwind"] = unw
    f["blocks"].append({"s": [{"k": "assign", "lhs": {"l": pay}, "rv": {"k": "use", "op": {"mv": {"l": src["l"], "p": proj(vidx, variant)}}}, "ln": ln},
                              {"k": "assign", "lhs": {"l": tup}, "rv": {"k": "agg", "ak": "tuple", "fields": [{"mv": {"l": pay}}]}, "ln": ln}], "t": call})
    if wrap:
        wrapped = {"k": "agg", "ak": "adt", "adt": enum, "variant": variant, "variant_idx": vidx, "fnames": ["0"], "fields": [{"mv": {"l": ret}}]}
    else:
        wrapped = {"k": "use", "op": {"mv": {"l": ret}}}
    f["blocks"].append({"s": [{"k": "assign", "lhs": copy.deepcopy(dest), "rv": wrapped, "ln": ln}], "t": {"k": "goto", "t": cont, "ln": ln}})
    if enum.endswith("Option"):
        none = [{"k": "assign", "lhs": copy.deepcopy(dest), "rv": {"k": "agg", "ak": "adt", "adt": enum, "variant": "None", "variant_idx": 0, "fnames": [], "fields": []}, "ln": ln}]
    else:
        none = [{"k": "assign", "lhs": {"l": rest}, "rv": {"k": "use", "op": {"mv": {"l": src["l"], "p": proj(1, "Err")}}}, "ln": ln},
                {"k": "assign", "lhs": copy.deepcopy(dest), "rv": {"k": "agg", "ak": "adt", "adt": enum, "variant": "Err", "variant_idx": 1, "fnames": ["0"], "fields": [{"mv": {"l": rest}}]}, "ln": ln}]
    f["blocks"].append({"s": none, "t": {"k": "goto", "t": cont, "ln": ln}})
    f["blocks"].append({"s": [], "t": {"k": "unreachable", "ln": ln}})
    return True


def inline_into(fns, f, transparent, depth=0, stack=()):
    """inline (in place) the calls of f to transparent functions; returns the list of inlined callee names"""
    done = []
    i = 0
    while i < len(f["blocks"]):
        blk = f["blocks"][i]
        t = blk["t"]
        if t["k"] == "call" and not blk.get("cleanup") and _expand_combinator(fns, f, i, transparent):
            done.append("combinator:" + str((t.get("callee") or {}).get("path"))[:60])
            i += 1
            continue
        g_id = _callee_fn(t) if t["k"] == "call" else None
        untuple = False
        if g_id is not None and fns[g_id].get("kind") == "closure":
            g_id = None      # a resolved closure call still has the rust-call ABI: handled below
        if g_id is None and t["k"] == "call":
            # `f(x)` where f is a closure built in this very body (`with_file_at(offset, |file| ..)` once the helper
            # is inlined): <closure as FnOnce<(A,)>>::call_once(closure, (x,))
            cid = _closure_called(f, t)
            if cid is not None and (cid in transparent or fns[cid].get("parent") in transparent or f["id"] in transparent_hosts):
                g_id, untuple = cid, True
        if g_id is None or (g_id not in transparent and not untuple) or g_id == f["id"] or g_id in stack or depth >= MAX_DEPTH:
            i += 1
            continue
        g = fns[g_id]
        if "blocks" not in g or len(g["blocks"]) > MAX_BLOCKS or (not untuple and len(t["args"]) != g["arg_count"]) or (untuple and len(t["args"]) != 2):
            i += 1
            continue
        g = copy.deepcopy(g)
        # the callee's own transparent callees first
        inline_into(fns, g, transparent, depth + 1, stack + (f["id"],))
        loff = len(f["locals"])
        boff = len(f["blocks"])
        for l in g["locals"]:
            l = dict(l)
            l["inl"] = g["name"]
            f["locals"].append(l)
        cont, unw, dest = t.get("t"), t.get("unwind"), t["dest"]
        for gb in g["blocks"]:
            _ren(gb["s"], loff)
            gt = gb["t"]
            tk = gt["k"]
            saved = gt.get("callee")
            _ren({k: v for k, v in gt.items() if k not in ("callee", "t", "targets", "otherwise", "unwind", "vals")}, loff)
            _retarget(gt, boff)
            if tk == "return":
                gb["s"].append({"k": "assign", "lhs": copy.deepcopy(dest), "rv": {"k": "use", "op": {"mv": {"l": loff}}}, "ln": t.get("ln"), "inl_ret": g["name"]})
                gb["t"] = {"k": "goto", "t": cont, "ln": gt.get("ln")} if cont is not None else {"k": "unreachable", "ln": gt.get("ln")}
            elif tk == "resume":
                gb["t"] = {"k": "goto", "t": unw, "ln": gt.get("ln")} if unw is not None else gt
            f["blocks"].append(gb)
        # bind the parameters, then jump into the callee
        if untuple:
            # rust-call ABI: (closure, (a, b, ..)) -> closure body parameters (env, a, b, ..)
            blk["s"].append({"k": "assign", "lhs": {"l": loff + 1}, "rv": {"k": "use", "op": copy.deepcopy(t["args"][0])}, "ln": t.get("ln"), "inl_arg": g["name"]})
            tup = t["args"][1]
            tpl = tup.get("mv") or tup.get("cp")
            for k in range(g["arg_count"] - 1):
                if tpl is not None:
                    src = {"cp": {"l": tpl["l"], "p": list(tpl.get("p") or []) + [{"f": k}]}}
                    blk["s"].append({"k": "assign", "lhs": {"l": loff + 2 + k}, "rv": {"k": "use", "op": src}, "ln": t.get("ln"), "inl_arg": g["name"]})
        else:
            for k, a in enumerate(t["args"]):
                blk["s"].append({"k": "assign", "lhs": {"l": loff + 1 + k}, "rv": {"k": "use", "op": copy.deepcopy(a)}, "ln": t.get("ln"), "inl_arg": g["name"]})
        blk["t"] = {"k": "goto", "t": boff, "ln": t.get("ln"), "inlined": g["name"]}
        if cont is not None:
            _thread_returns(f, boff, len(f["blocks"]), loff, dest, cont)
        done.append(g["name"])
        done.extend(g.get("inlined", []))
        i += 1
    if done:
        f["inlined"] = f.get("inlined", []) + done
    return done


def _succs(t):
    k = t["k"]
    if k == "goto":
        return [t["t"]]
    if k == "switch":
        return list(dict.fromkeys(t["targets"] + [t["otherwise"]]))
    if k in ("call", "drop", "assert"):
        return [t["t"]] if t.get("t") is not None else []
    return []


def _op_local(op):
    pl = op.get("mv") or op.get("cp")
    if pl is not None and not pl.get("p"):
        return pl["l"]
    return None


VARIANT_AFTER_BRANCH = {"Ok": 0, "Some": 0, "Err": 1, "None": 1}   # Try::branch: Continue = 0, Break = 1
VARIANT_DIRECT = {"Ok": 0, "Err": 1, "None": 0, "Some": 1}


def _continuation_switch(f, cont, dest):
    """the block that branches on the value just returned into dest: (switch block, {returned value -> switch value})"""
    if dest.get("p"):
        return None
    T = f["blocks"][cont]
    t = T["t"]
    if t["k"] == "call" and t.get("t") is not None and len(t["args"]) == 1 and _op_local(t["args"][0]) == dest["l"] \
            and any(n.endswith("Try>::branch") for n in ((t.get("callee") or {}).get(k, "") for k in ("path", "rpath"))) and not t["dest"].get("p"):
        x = t["dest"]["l"]
        N = f["blocks"][t["t"]]
        nt = N["t"]
        if nt["k"] == "switch":
            d = _op_local(nt["op"])
            for st in N["s"]:
                if st["k"] == "assign" and st["lhs"]["l"] == d and st["rv"]["k"] == "discr" and st["rv"]["pl"]["l"] == x and not st["rv"]["pl"].get("p"):
                    return t["t"], VARIANT_AFTER_BRANCH
        return None
    if t["k"] == "switch":
        d = _op_local(t["op"])
        if d == dest["l"]:
            return cont, {True: 1, False: 0}
        for st in T["s"]:
            if st["k"] == "assign" and st["lhs"]["l"] == d and st["rv"]["k"] == "discr" and st["rv"]["pl"]["l"] == dest["l"] and not st["rv"]["pl"].get("p"):
                return cont, VARIANT_DIRECT
    return None


def _returned_value(blk, ret):
    """what the block leaves in the callee's return place, when it is known: a variant name or a bool"""
    v = None
    for st in blk["s"]:
        if st["k"] == "assign" and st["lhs"]["l"] == ret:
            v = None
            if not st["lhs"].get("p"):
                rv = st["rv"]
                if rv["k"] == "agg" and rv.get("variant") in VARIANT_DIRECT and rv.get("adt", "").split("::")[-1] in ("Result", "Option"):
                    v = rv["variant"]
                elif rv["k"] == "use" and "c" in rv["op"] and isinstance(rv["op"]["c"].get("val"), bool):
                    v = rv["op"]["c"]["val"]
    t = blk["t"]
    if t["k"] == "call" and t["dest"]["l"] == ret:
        v = None
        if not t["dest"].get("p") and any("from_residual" in ((t.get("callee") or {}).get(k, "")) for k in ("path", "rpath", "def")):
            ty = " ".join(((t.get("callee") or {}).get(k, "")) for k in ("path", "rpath"))
            v = "Err" if "Result<" in ty.split(" as ")[0] else ("None" if "Option<" in ty.split(" as ")[0] else None)
    return v


def _thread_returns(f, lo, hi, ret, dest, cont):
    """jump threading over an inlined call: a callee exit that is known to return Ok / Err / Some / None / a bool
    continues in the caller on the arm its value selects (`helper(..)?`, `match helper(..)`, `if helper(..)`),
    so that a guard moved into a helper still 'returns an error' on its failing arm."""
    cs = _continuation_switch(f, cont, dest)
    if cs is None:
        return
    S, table = cs
    sw = f["blocks"][S]["t"]
    for X in range(lo, hi):
        blk = f["blocks"][X]
        if blk.get("cleanup"):
            continue
        v = _returned_value(blk, ret)
        if v is None or v not in table:
            continue
        # region between X and the switch
        region, st, ok = [], list(_succs(blk["t"])), True
        seen = set()
        while st and ok:
            b = st.pop()
            if b in seen:
                continue
            seen.add(b)
            region.append(b)
            if b == S:
                continue
            if len(region) > 16 or b == X:
                ok = False
                break
            bb = f["blocks"][b]
            for s2 in bb["s"]:
                if s2["k"] in ("assign", "setdiscr") and s2["lhs"]["l"] in (ret, dest["l"]) and not s2.get("inl_ret"):
                    ok = False
            t2 = bb["t"]
            if t2["k"] == "call" and t2["dest"]["l"] in (ret, dest["l"]):
                ok = False
            if t2["k"] in ("return",):
                ok = False
            st.extend(_succs(t2))
        if not ok or S not in seen:
            continue
        want = table[v]
        arm = sw["otherwise"]
        for val, tgt in zip(sw["vals"], sw["targets"]):
            if val == want:
                arm = tgt
        clone = {}
        for b in region:
            clone[b] = len(f["blocks"])
            f["blocks"].append(copy.deepcopy(f["blocks"][b]))
        for b in region:
            nb = f["blocks"][clone[b]]
            if b == S:
                nb["t"] = {"k": "goto", "t": arm, "ln": sw.get("ln"), "threaded": str(v)}
                continue
            t2 = nb["t"]
            k = t2["k"]
            if k == "goto":
                t2["t"] = clone.get(t2["t"], t2["t"])
            elif k == "switch":
                t2["targets"] = [clone.get(x, x) for x in t2["targets"]]
                t2["otherwise"] = clone.get(t2["otherwise"], t2["otherwise"])
            elif k in ("call", "drop", "assert") and t2.get("t") is not None:
                t2["t"] = clone.get(t2["t"], t2["t"])
        t1 = blk["t"]
        k = t1["k"]
        if k == "goto":
            t1["t"] = clone.get(t1["t"], t1["t"])
        elif k == "switch":
            t1["targets"] = [clone.get(x, x) for x in t1["targets"]]
            t1["otherwise"] = clone.get(t1["otherwise"], t1["otherwise"])
        elif k in ("call", "drop", "assert") and t1.get("t") is not None:
            t1["t"] = clone.get(t1["t"], t1["t"])


def apply(fns, baseline=None):
    """inline every function that is not part of the baseline into its (baseline or not) callers"""
    if baseline is None:
        baseline = load_baseline()
    transparent = {f["id"] for f in fns if f["name"] not in baseline and "blocks" in f and f.get("kind") != "closure"}
    # a closure that matches no closure of the same function in the baseline is new, whatever its index: where its
    # parent calls it directly (`let rebase = |x| ..; rebase(a)`), the call is the closure's body
    try:
        import renames
        with open(BASELINE) as fh:
            transparent |= renames.new_closures(fns, json.load(fh))
    except OSError:
        pass
    if not transparent:
        return {}, transparent
    report = {}
    for f in fns:
        if "blocks" not in f:
            continue
        d = inline_into(fns, f, transparent)
        if d:
            # a helper taking a closure was inlined here: the closure it calls is built in this body -- inline that call too
            transparent_hosts.add(f["id"])
            d += inline_into(fns, f, transparent)
            transparent_hosts.discard(f["id"])
            report[f["name"]] = d
    return report, transparent
