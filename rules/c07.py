"""C07 — concurrent readers of one container always get exactly the stored bytes.
Shape of the length-publication protocol and freedom from lock cycles:
R1 publish after write, under the lock, always notified; R2 no reallocation; R3 readers only below the
published length; R4 lock-order graph acyclic, no wait inside a pool task; R5 unsafe inventory."""
import re
from lib import *

PROPERTY = "C07"
EXPLANATION = ("Decided from MIR: (R1) in decode_to_end, inside one loop iteration, read_to_end into the shared buffer dominates the "
               "mutex lock, which dominates the store of the new decoded length, and Condvar::notify_all lies on every path from that "
               "store to the next iteration or to the exit (no conditional wake-up); the stored length derives only from the accumulated "
               "return values of read_to_end; (R2) the reader handed to read_to_end is a Take limited by min(total - decoded, chunk), the "
               "writer's Vec is from_raw_parts(ptr, 0, capacity) of the buffer allocated with that capacity = total size: no reallocation; "
               "(R3) SyncVecRd::slice builds its slice with the length read under the mutex and nothing else, and every index into "
               "decoded_slice() in SeekableDecoder::{read, read_exact, get_slice} is dominated by decode_to(end) of the same bound; (R4) the "
               "lock-order graph over all Mutex/RwLock/Condvar acquisitions (with guards' live ranges and callees' transitive "
               "acquisitions) is acyclic, wait_while holds only its own mutex, and no closure run on DECOMPRESSION_POOL can wait for "
               "another decode or take the cluster cache / cluster reader locks; (R5) inventory of unsafe impls/blocks on the reader path "
               "(informational). Byte equality under every interleaving is not decided."
               " (R3, rewritten) stated on the decoder's three read methods with every helper of compression.rs inlined: Condvar::wait_while on the published length with predicate `published < bound from the arguments`, the shared slice built with the length read under the lock, indexed within the bound waited for; (R7) evicted clusters stay alive through Arc clones; (R8) = C13-R5."
               ' Added later: (R9) the result of OnceLock::set never separates an error exit from the normal one; (R10) with the reader already Plain when the write lock is obtained, build_plain_reader returns without panicking or building a reader again.')
EXPLANATION += ' Batch 11: (R8) FileSource::get_slice touches the file only through its own read_exact, and no method of FileSource takes a second handle (try_clone / raw fd) on the file.'
ASSUMPTIONS = ["std Mutex/Condvar/RwLock semantics; rayon runs spawned closures to completion", "Vec never reallocates while len <= capacity",
               "the call graph over-approximates dynamic dispatch"]


def r1_publish(cx):
    F = cx.F
    f = F.fn_named("compression::decode_to_end")
    b = F.body(f)
    rd = b.calls(r"Read>::read_to_end$")
    lk = b.calls(r"Mutex::<usize>::lock$")
    na = b.calls(r"Condvar::notify_all$")
    stores = [(i, j, s) for i, blk in enumerate(b.blocks) if not blk.get("cleanup") for j, s in enumerate(blk["s"])
              if s["k"] == "assign" and "*" in s["lhs"].get("p", []) and b.derives_from_call({"cp": {"l": s["lhs"]["l"]}}, r"MutexGuard<.*> as .*DerefMut>::deref_mut$", through_calls=False)]
    ok = len(rd) == 1 and len(lk) == 1 and len(na) == 1 and len(stores) == 1
    cx.ob("R1", "R1/anchors", ok, f, "decode_to_end: one read_to_end, one lock, one store through the guard, one notify_all (found %d/%d/%d/%d)" % (len(rd), len(lk), len(stores), len(na)))
    if not ok:
        return
    ri, li, ni, si = rd[0][0], lk[0][0], na[0][0], stores[0][0]
    cx.ob("R1", "R1/write-before-lock", b.dominates(ri, li) and _in_loop(b, ri), f, "the chunk is written (read_to_end into the buffer) before the mutex is taken, in the loop")
    cx.ob("R1", "R1/store-under-lock", b.dominates(li, si), f, "the decoded length is stored while the MutexGuard is held (lock dominates the store)")
    # notify on every path from the store to the next iteration / exit
    head = ri
    if ni == si:
        skip = False  # the notify call terminates the very block that stores the length
    else:
        r = b.reach_after(si, avoid={ni} | b.error_blocks())
        skip = head in r or any(b.term(x)["k"] == "return" for x in r)
    cx.ob("R1", "R1/always-notify", (not skip) and b.dominates(si, ni), f,
          "Condvar::notify_all is passed on every path from the length store to the next iteration or the return (a conditional wake-up can leave a reader blocked forever)")
    # guard dropped after notify (notify under lock or right after is both fine); the lock is a leaf: no call while held except deref_mut / notify
    # value stored derives from read_to_end results only
    o = b.origins(stores[0][2]["rv"].get("op") or {})
    calls = [callee_str(b.term(x[1])) for x in o if x[0] == "call"]
    okv = any(x == ("call", ri) for x in o) and all(re.search(r"read_to_end$|Try>::branch$|Take|by_ref|take$|cmp::min|Ord>::min$|DerefMut|deref", c) for c in calls)
    cx.ob("R1", "R1/published-length-provenance", okv, f, "the published length accumulates read_to_end's return values only (calls on its derivation: %s)" % sorted(set(c.split("::")[-1] for c in calls)))
    # loop condition: uncompressed < total_size
    cx.ob("R1", "R1/loop-until-total", any(s["k"] == "assign" and s["rv"]["k"] == "bin" and s["rv"]["op"] == "Lt" and ("field", "total_size") in b.origins(s["rv"]["b"]) for blk in b.blocks for s in blk["s"]), f,
          "the loop runs while decoded < total_size")


def _in_loop(b, bb):
    return bb in b.reach_after(bb)


def r2_no_realloc(cx):
    F = cx.F
    f = F.fn_named("compression::decode_to_end")
    b = F.body(f)
    rd = b.calls(r"Read>::read_to_end$")
    tk = b.calls(r"Read>::take$")
    mn = b.calls(r"cmp::min::<usize>$", r"<usize as std::cmp::Ord>::min$")
    ok = len(rd) == 1 and len(tk) == 1 and len(mn) == 1
    if ok:
        ok = any(x == ("call", tk[0][0]) for x in b.origins(rd[0][1]["args"][0])) and any(x == ("call", mn[0][0]) for x in b.origins(tk[0][1]["args"][1]))
        mo = b.origins(mn[0][1]["args"][0]) | b.origins(mn[0][1]["args"][1])
        ok = ok and ("field", "total_size") in mo and ("param", 3) in mo
        # first arg of min is total_size - uncompressed
        sub = any(s["k"] == "assign" and s["rv"]["k"] == "bin" and s["rv"]["op"] in ("Sub", "SubWithOverflow") and ("field", "total_size") in b.origins(s["rv"]["a"]) for blk in b.blocks for s in blk["s"])
        ok = ok and sub
    cx.ob("R2", "R2/read-capped-by-remaining", ok, f, "read_to_end reads from decoder.take(min(total_size - decoded, chunk_size)): it can never append beyond total_size")
    # destination is buffer.data
    ok = len(rd) == 1 and ("field", "data") in b.origins(rd[0][1]["args"][1])
    others = [(i, t) for i, t in b.calls() if ("field", "data") in b.origins(t["args"][0] if t["args"] else {}, through_calls=False) and i != (rd[0][0] if rd else -1) and not call_is(t, r"DerefMut>::deref_mut$|Deref>::deref$")]
    cx.ob("R2", "R2/single-writer-of-buffer", ok and not others, f, "buffer.data is only handed to read_to_end (other users: %s)" % [callee_str(t) for _, t in others])
    g = F.fn_named("compression::create_sync_vec")
    gb = F.body(g)
    wc = gb.calls(r"Vec::<u8>::with_capacity$")
    fr = gb.calls(r"Vec::<u8>::from_raw_parts$")
    ok = len(wc) == 1 and len(fr) == 1
    if ok:
        t = fr[0][1]
        ok = ("param", 1) in gb.origins(wc[0][1]["args"][0], through_calls=False) and op_const_val(t["args"][1]) == 0 and ("param", 1) in gb.origins(t["args"][2], through_calls=False) \
            and gb.derives_from_call(t["args"][0], r"Vec::<u8>::as_ptr$|as_ptr$")
        # total_size fields = size
        aggs = [s for blk in gb.blocks for s in blk["s"] if s["k"] == "assign" and s["rv"]["k"] == "agg" and re.search(r"SyncVec(Rd|Wr)$", s["rv"].get("adt", ""))]
        ok = ok and len(aggs) == 2 and all(("param", 1) in gb.origins(dict(zip(a["rv"]["fnames"], a["rv"]["fields"]))["total_size"], through_calls=False) for a in aggs)
    cx.ob("R2", "R2/capacity-equals-total", ok, g, "the shared Vec is allocated with_capacity(size) and the writer view is from_raw_parts(ptr, 0, size); total_size = size on both hands")


def _wait_sites(F, hb):
    """(wait_while calls on the published length, [is the predicate `published < bound` with bound from a parameter of the method])"""
    ww = [(i, t) for i, t in hb.calls(r"Condvar::wait_while::<") if ("field", "decoded") in hb.origins(t["args"][1]) | hb.origins(t["args"][0])]
    preds = []
    for i, t in ww:
        cfs = set()
        stack, seen = [op_base_local(t["args"][2])], set()
        while stack:
            x = stack.pop()
            if x in seen or x is None:
                continue
            seen.add(x)
            for d in hb.defs().get(x, []):
                if d[0] == "stmt" and d[3]["k"] == "assign":
                    rv = d[3]["rv"]
                    if rv["k"] == "agg" and "closure_fn" in rv:
                        cfs.add((rv["closure_fn"], d[1], d[2]))
                    elif rv["k"] in ("use", "cast"):
                        stack.append(op_base_local(rv["op"]))
        ok1 = False
        for cf, bb, j in cfs:
            c = F.fns[cf]
            lt = "blocks" in c and any(st["k"] == "assign" and st["rv"]["k"] == "bin" and st["rv"]["op"] == "Lt" for blk in c["blocks"] for st in blk["s"])
            cap = set()
            for fo in hb.blocks[bb]["s"][j]["rv"]["fields"]:
                cap |= hb.origins(fo)
            ok1 = ok1 or (lt and any(x[0] == "param" and x[1] >= 2 for x in cap))
        preds.append(ok1)
    return ww, preds


def r3_readers_below_published(cx):
    """each read method of the decoder, seen with the helpers of compression.rs inlined (decode_to, decoded_slice, slice,
    current_size, wait_while, ... under whatever names): it waits on the published length, builds the shared slice with
    the length read under the lock, and only then indexes it, within the bound it waited for"""
    F = cx.F
    all_len_ok, n_slices = True, 0
    for m in ("read", "read_exact", "get_slice"):
        h = F.one(impl_self="compression::SeekableDecoder", item=m, trait="Source", closure=False)
        hb = F.deep_body(h, only=r"bases::io::compression::")
        ww, preds = _wait_sites(F, hb)
        fr = hb.calls(r"slice::from_raw_parts::<")
        ok = len(ww) >= 1 and len(fr) >= 1 and all(hb.set_dominates({i for i, _ in ww}, j) for j, _ in fr)
        for j, t in fr:
            n_slices += 1
            o = hb.origins(t["args"][1])
            guard = any(x[0] == "call" and call_is(hb.term(x[1]), r"Mutex::<usize>::lock$", r"Condvar::wait_while::<", r"MutexGuard<.*usize> as .*Deref>::deref$") for x in o)
            other_calls = [callee_str(hb.term(x[1])).split("::")[-1] for x in o if x[0] == "call" and not call_is(hb.term(x[1]),
                           r"Mutex::<usize>::lock$", r"Condvar::wait_while::<", r"Deref>::deref$", r"DerefMut>::deref_mut$", r"Result::<.*Guard.*>::unwrap$", r"LockResult|PoisonError")]
            if not guard or other_calls or any(x[0] == "const" and isinstance(x[1], int) for x in hb.origins(t["args"][1], through_calls=False)) \
                    or ("field", "buffer") not in hb.origins(t["args"][0]):
                all_len_ok = False
        # the bound waited for covers the slicing bound: same provenance roots (offset / buf / region parameters)
        if ok:
            idx = hb.calls(r"SliceIndex<.*>>::index$|Index<.*Range.*>>::index$|core::slice::index::<impl .*Index<")
            do = set()
            for i, t in ww:
                for x in hb.origins(t["args"][2]):
                    if x[0] == "param":
                        do.add(x)
            for i, t in idx:
                if not any(("call", j) in hb.origins(t["args"][0]) for j, _ in fr):
                    continue
                io = {x for x in hb.origins(t["args"][1]) if x[0] == "param"}
                if not io <= do | {("param", 1)}:
                    ok = False
        cx.ob("R3", "R3/decode-before-slice@%s" % m, ok, h, "SeekableDecoder::%s waits for the published length to reach its bound before it builds and indexes the shared slice, the index bound coming from the same arguments" % m)
        cx.ob("R3", "R3/decode_to-waits@%s" % m, len(ww) >= 1 and not [1 for i, t in hb.calls(r"Condvar::wait(::<.*>)?$")], h,
              "SeekableDecoder::%s blocks in Condvar::wait_while on the published length (not a single wait: the worker notifies after every chunk)" % m)
        cx.ob("R3", "R3/wait-predicate@%s" % m, bool(preds) and all(preds), h, "the wait predicate is `published < end` with `end` derived from the arguments of %s" % m)
    cx.ob("R3", "R3/slice-length-is-published-length", all_len_ok and n_slices >= 3, "(SeekableDecoder::read / read_exact / get_slice)",
          "the shared slice is from_raw_parts(buffer, length read through the MutexGuard of the published length) and nothing else")


def r3c_decode_to_waits(cx):
    """kept as an alias of the per-method clauses of R3 (historical keys)"""
    F = cx.F
    h = F.one(impl_self="compression::SeekableDecoder", item="read", trait="Source", closure=False)
    hb = F.deep_body(h, only=r"bases::io::compression::")
    ww, preds = _wait_sites(F, hb)
    cx.ob("R3", "R3/decode_to-waits", len(ww) >= 1 and not hb.calls(r"Condvar::wait(::<.*>)?$"), h, "the decoder's readers block in Condvar::wait_while on the published length (SyncVec.decoded)")
    cx.ob("R3", "R3/wait-predicate", bool(preds) and all(preds), h, "the wait predicate is `published < end`")


LOCK_CALLS = (r"std::sync::Mutex::<.*>::lock$", r"std::sync::RwLock::<.*>::read$", r"std::sync::RwLock::<.*>::write$", r"Condvar::wait_while::<")


def _lock_name(F, f, b, t):
    o = b.origins(t["args"][-1] if call_is(t, r"wait_while") and False else t["args"][0])
    if call_is(t, r"Condvar::wait_while"):
        o = b.origins(t["args"][1]) | b.origins(t["args"][0])
    fields = [x[1] for x in o if x[0] == "field" and not x[1].isdigit()]
    calls = [callee_str(b.term(x[1])) for x in o if x[0] == "call"]
    if any("FileSource as std::ops::Deref>::deref" in c for c in calls):
        return "FileSource.source"
    owner = (f.get("impl_self") or f["name"]).split("::")[-1]
    owner = re.sub(r"<.*", "", owner)
    if "decoded" in fields:
        return "SyncVec.decoded"
    if "nb_cluster_in_queue" in fields:
        return "creator.nb_cluster_in_queue"
    pick = [x for x in fields if x not in ("0", "1")]
    if pick:
        return "%s.%s" % (owner, pick[-1])
    # lock passed in as a local (e.g. `lock.lock()` in closures) — name by function
    return "%s.<local>" % owner


def _guard_region(b, acq_bb):
    """blocks executed while the guard acquired in acq_bb is alive: until a Drop of a local holding it"""
    t = b.term(acq_bb)
    gl = b.forward_locals({t["dest"]["l"]}, through_calls=False)
    for i, tt in b.calls(r"Result::<.*Guard.*>::unwrap$", r"LockResult|PoisonError"):
        if op_base_local(tt["args"][0]) in gl:
            gl |= b.forward_locals({tt["dest"]["l"]}, through_calls=False)
    drops = {i for i in range(b.n) if b.term(i)["k"] == "drop" and b.term(i)["pl"]["l"] in gl and not b.is_cleanup(i)}
    # moved into wait_while: the guard is consumed there
    return b.reach_after(acq_bb, avoid=drops), gl


def lock_graph(F):
    acq = {}  # fn id -> [(bb, name)]
    for f in F.live_fns:
        if "blocks" not in f or "creator::" in f["name"]:
            continue  # creator-side locks (StoreHandle, queue counter) are not part of the reader
        b = None
        for i, blk in enumerate(f["blocks"]):
            if blk.get("cleanup"):
                continue
            t = blk["t"]
            if call_is(t, *LOCK_CALLS):
                b = b or F.body(f)
                acq.setdefault(f["id"], []).append((i, _lock_name(F, f, b, t), t))
    g = F.defgraph()
    trans = {}

    def trans_acq(fid, seen=None):
        if fid in trans:
            return trans[fid]
        seen = seen or set()
        if fid in seen:
            return set()
        seen.add(fid)
        s = {n for _, n, _ in acq.get(fid, [])}
        for c in g.get(fid, ()):
            if isinstance(c, int):
                s |= trans_acq(c, seen)
        trans[fid] = s
        return s
    edges = {}
    for fid, sites in acq.items():
        f = F.fns[fid]
        b = F.body(f)
        for bb, name, t in sites:
            if call_is(t, r"Condvar::wait_while"):
                continue
            region, gl = _guard_region(b, bb)
            for x in region:
                tt = b.term(x)
                if tt["k"] != "call" or b.is_cleanup(x) or x == bb:
                    continue
                inner = set()
                if call_is(tt, *LOCK_CALLS) and not (call_is(tt, r"Condvar::wait_while") and any(op_base_local(a) in gl for a in tt["args"])):
                    inner.add(_lock_name(F, f, b, tt))
                c = tt.get("callee") or {}
                callees = set()
                if c.get("rfn") is not None:
                    callees.add(c["rfn"])
                elif c.get("rkind") in ("virtual", "unresolved"):
                    callees |= set(F.trait_impl_index().get(c.get("def"), ()))
                for cf in callees:
                    inner |= trans_acq(cf)
                # closures passed to the call run inside it (e.g. try_get_or_insert(|| ..))
                for a in tt["args"]:
                    l = op_base_local(a)
                    for d in b.defs().get(l, []) if l is not None else []:
                        if d[0] == "stmt" and d[3]["k"] == "assign" and d[3]["rv"]["k"] == "agg" and "closure_fn" in d[3]["rv"]:
                            inner |= trans_acq(d[3]["rv"]["closure_fn"])
                for n2 in inner:
                    edges.setdefault((name, n2), []).append("%s:%s" % (f["name"].split("::")[-1], tt.get("ln")))
    return acq, edges, trans_acq


def r4_lock_order(cx):
    F = cx.F
    acq, edges, trans_acq = lock_graph(F)
    names = sorted({n for sites in acq.values() for _, n, _ in sites})
    cx.ob("R4", "R4/locks-found", len(names) >= 5, "(whole crate)", "lock acquisition sites name these locks: %s" % names)
    # cycle detection
    adj = {}
    for (a, bnode) in edges:
        adj.setdefault(a, set()).add(bnode)
    cyc = []

    def dfs(n, path):
        for m in adj.get(n, ()):
            if m in path:
                cyc.append(path[path.index(m):] + [m])
            elif len(path) < 12:
                dfs(m, path + [m])
    for n in list(adj):
        dfs(n, [n])
    cx.ob("R4", "R4/acyclic", not cyc, "(lock-order graph: %d edges)" % len(edges),
          "no cycle (including self-loops: std Mutex is not reentrant) in held->acquired edges %s; cycles: %s" % (sorted("%s->%s" % e for e in edges), cyc[:3]))
    for e, where in sorted(edges.items()):
        cx.ob("R4", "R4/edge/%s->%s" % e, True, "(lock-order graph)", "held %s while acquiring %s at %s" % (e[0], e[1], where[:4]), info=True)
    # closures run on the decompression pool never wait for another decode nor take reader-side locks
    sp = []
    for f in F.live_fns:
        if "blocks" not in f:
            continue
        for i, blk in enumerate(f["blocks"]):
            t = blk["t"]
            if call_is(t, r"rayon.*ThreadPool::spawn::<"):
                b = F.body(f)
                for a in t["args"]:
                    l = op_base_local(a)
                    for d in b.defs().get(l, []) if l is not None else []:
                        if d[0] == "stmt" and d[3]["k"] == "assign" and d[3]["rv"]["k"] == "agg" and "closure_fn" in d[3]["rv"]:
                            sp.append((f, d[3]["rv"]["closure_fn"]))
    cx.ob("R4", "R4/pool-task-found", len(sp) == 1, "(whole crate)", "one closure is spawned on DECOMPRESSION_POOL (found %d)" % len(sp))
    for f, cfn in sp:
        reach = F.reach([cfn])
        local = [F.fns[x]["name"] for x in reach if isinstance(x, int)]
        bad = [n for n in local if re.search(r"decode_to$|SyncVecRd::wait_while|ContentPack::get_cluster|Cluster::build_plain_reader|Cluster::get_bytes", n)]
        locks = trans_acq(cfn)
        cx.ob("R4", "R4/pool-task-never-waits", not bad and locks <= {"SyncVec.decoded", "FileSource.source"}, F.fns[cfn],
              "the pool task never waits on another decode and takes only leaf locks (%s); offending callees: %s" % (sorted(locks), bad))
        # nobody waits for the decoder while holding a lock the decoder itself needs
        needed = locks - {"SyncVec.decoded"}
        badw = [e for e in edges if e[1] == "SyncVec.decoded" and e[0] in needed]
        cx.ob("R4", "R4/waiters-hold-nothing-the-decoder-needs", not badw, F.fns[cfn],
              "no reader waits on SyncVec.decoded while holding a lock the pool task takes (%s): %s" % (sorted(needed), badw))
        # and while the decoder holds its own mutex it calls nothing that locks
        out_edges = [e for e in edges if e[0] == "SyncVec.decoded"]
        cx.ob("R4", "R4/decoded-is-a-leaf", not out_edges, F.fns[cfn], "SyncVec.decoded is a leaf lock (nothing is acquired while it is held): %s" % out_edges)


def r5_unsafe_inventory(cx):
    F = cx.F
    us = [i for i in F.impls if i.get("unsafe") and (i.get("trait") or "").split("::")[-1] in ("Send", "Sync")]
    for i in us:
        cx.ob("R5", "R5/unsafe-impl/%s for %s" % (i.get("trait"), i["self"]), True, "%s:%s" % (i["file"], i["line"]), "unsafe impl %s for %s" % (i.get("trait"), i["self"]), info=True)
    exp = {("std::marker::Send", "SyncVecWr"), ("std::marker::Send", "SyncVecRd"), ("std::marker::Sync", "SyncVecRd")}
    got = {(i.get("trait"), i["self"].split("::")[-1]) for i in us}
    cx.ob("R5", "R5/unsafe-impls", got == exp, "(impl table)", "unsafe impls of the crate are exactly the three Send/Sync of the shared buffer hands: %s" % sorted(got))
    # the raw buffer types are not nameable from outside: private structs
    for n in ("compression::SyncVecRd", "compression::SyncVecWr", "compression::SeekableDecoder"):
        s = F.struct(n)
        cx.ob("R5", "R5/private/%s" % n.split("::")[-1], "Public" not in s.get("vis", "") or "Restricted" in s.get("vis", ""), "(struct %s)" % n, "%s is not public (visibility %s): user code cannot hand out the raw buffer" % (n.split("::")[-1], s.get("vis")))


def r7_eviction_safe(cx):
    """a cluster evicted from the LRU cache stays alive for the readers that hold it: the cache hands out Arc
    clones and every content view owns an Arc of its source"""
    F = cx.F
    f = F.one(impl_self="ContentPack", item="get_cluster", closure=False)
    b = F.body(f)
    cl = b.calls(r"Arc<reader::content_pack::cluster::Cluster> as std::clone::Clone>::clone$")
    oks = [(i, s["rv"]["fields"][0]) for i, blk in enumerate(b.blocks) if not blk.get("cleanup") for s in blk["s"] if s["k"] == "assign" and s["lhs"]["l"] == 0 and s["rv"]["k"] == "agg" and s["rv"].get("variant") == "Ok"]
    ok = len(cl) == 1 and len(oks) == 1 and any(x == ("call", cl[0][0]) for x in b.origins(oks[0][1], through_calls=False))
    cx.ob("R7", "R7/get_cluster-returns-arc-clone", ok, f, "get_cluster returns a clone of the cached Arc<Cluster> (the lock guard and the cache slot are not borrowed by the caller)")
    g = [x for x in F.fns if x.get("impl_self", "").endswith("byte_region::ByteRegion") and x.get("item_name") == "from" and "ByteSlice" in x["name"]]
    ok = len(g) == 1
    if ok:
        gb = F.body(g[0])
        ac = gb.calls(r"Arc<dyn bases::io::Source> as std::clone::Clone>::clone$")
        ok = len(ac) == 1
    cx.ob("R7", "R7/region-owns-its-source", ok, g[0] if g else "(From<ByteSlice> for ByteRegion)", "ByteRegion::from(ByteSlice) clones the Arc<dyn Source>: the bytes outlive the cluster that produced the view")
    h = F.one(impl_self="reader::content_pack::cluster::Cluster", item="get_bytes", closure=False)
    hb = F.body(h)
    into = hb.calls(r"Into<reader::byte_region::ByteRegion>>::into$|ByteRegion as .*From<.*ByteSlice.*>>::from$")
    cx.ob("R7", "R7/get_bytes-returns-owned-region", len(into) == 1, h, "Cluster::get_bytes converts the borrowed ByteSlice into an owning ByteRegion before the read guard is released")
    st = F.struct("reader::content_pack::ContentPack")
    ty = [fl["ty"] for fl in st["fields"] if fl["name"] == "cluster_cache"]
    cx.ob("R7", "R7/cache-holds-arcs", bool(ty) and "Arc<reader::content_pack::cluster::Cluster>" in ty[0] and "Mutex<" in ty[0], "(struct ContentPack)", "cluster_cache: Mutex<LruCache<ClusterIdx, Arc<Cluster>>> (%s)" % (ty[0][:90] if ty else None))


def r8_shared_file_cursor(cx):
    """the file cursor behind FileSource is shared by all reader threads and by the decompression workers: a
    seek and the read that follows must be one critical section (same MutexGuard)"""
    import c13
    before = len(cx.obs)
    c13.r5_file_reads_are_positioned(cx)
    for o in cx.obs[before:]:
        o.rule = "R8"
        o.key = "R8/" + o.key.split("/", 1)[1]


def r6_witness(cx):
    """type-level: the reader views are Send + Sync (+ 'static for ByteRegion); the raw buffer types are private"""
    import witness
    for name, ok, detail in witness.run(["c07_shared_views"], repo=cx.repo):
        cx.ob("R6", "R6/%s" % name, ok, "/verif/witness/src/lib.rs", detail)


r6_witness.only_configs = ("lib-all3",)

def r9_losing_the_race_to_fill_a_slot_is_not_an_error(cx):
    """'concurrent readers get exactly the stored bytes': several threads may find a once-slot empty, each prepare the
    value and race to `set` it; exactly one wins and the others must go on with the value that is stored. The result of
    `OnceLock::set` therefore never decides between success and an error (or a panic): no branch on it has one arm that
    reaches an error exit and one that does not."""
    F = cx.F
    n = 0
    for f in F.live_fns:
        if "blocks" not in f or not re.search(r"^<?reader::|^<?bases::", f["name"]):
            continue
        if not any(call_is(blk["t"], r"sync::OnceLock::<.*>::set$") for blk in f["blocks"] if not blk.get("cleanup")):
            continue
        b = F.body(f)
        bad_exits = b.error_blocks() | b.err_return_blocks() | b.panic_blocks()
        for i, t in b.calls(r"sync::OnceLock::<.*>::set$"):
            n += 1
            deciding = []
            for sw in range(b.n):
                st = b.term(sw)
                if st["k"] != "switch" or b.is_cleanup(sw) or ("call", i) not in b.origins(st["op"]):
                    continue
                arms = list(dict.fromkeys(st["targets"] + [st["otherwise"]]))
                fates = {a: bool((b.reachable(a, avoid={sw}) | {a}) & bad_exits) for a in arms if b.term(a)["k"] != "unreachable"}
                if len(set(fates.values())) > 1:
                    deciding.append(b.ln(sw))
            cx.ob("R9", "R9/%s/set-result-decides-nothing" % re.sub(r"<.*?>", "", f["name"]).split("::")[-1], not deciding, f,
                  "the result of OnceLock::set at line %s does not separate an error exit from the normal one (branches that do: lines %s)" % (t.get("ln"), deciding), ln=t.get("ln"))
    if n < 1:
        raise AnchorLost("no OnceLock::set in the reader")


def r10_state_tested_under_the_guard_that_changes_it(cx):
    """the first reader of a compressed cluster swaps its `Raw` reader for the `Plain` (decoding) one under the cluster's
    write lock; several threads may get there together. Whoever takes the write lock must find out *under that lock*
    whether the swap has already been done: with the state already `Plain`, the code after `RwLock::write` returns
    normally -- it neither swaps again nor runs into a panic (a test made earlier under a read lock says nothing about
    what the other thread did in between, and a panic under the write guard poisons the lock for everybody)."""
    F = cx.F
    f = F.one(impl_self="reader::content_pack::cluster::Cluster", item="build_plain_reader", closure=False)
    b = F.body(f)
    ws = b.calls(r"sync::RwLock::<.*ClusterReader>::write$")
    if len(ws) != 1:
        raise AnchorLost("Cluster::build_plain_reader: %d RwLock::write" % len(ws))
    # whatever the state is made of (an enum, a flag): once the write lock is held there is a way to a normal return that
    # neither builds the decoding reader (it starts with a stream on the raw data) nor panics -- the "already done" exit
    build = {i for i, _ in b.calls(r"Reader::create_stream$", r"SeekableDecoder::new$", r"cluster::(lz4|lzma|zstd)_(source|reader)$")}
    if not build:
        raise AnchorLost("Cluster::build_plain_reader no longer builds a reader on the raw data")
    after = b.reachable(b.term(ws[0][0]).get("t"), avoid=build | b.panic_blocks() | b.error_blocks())
    returns = any(b.term(i)["k"] == "return" for i in after)
    panics, swaps = [], []
    try:
        en = F.enum("reader::content_pack::cluster::ClusterReader")
        plain = next(v["discr"] for v in en["variants"] if v["name"] == "Plain")
        r, _ = b.explore(start=ws[0][0], assume_discr={r"cluster::ClusterReader$": plain}, avoid=b.error_blocks())
        panics = sorted(b.ln(i) for i in (b.panic_blocks() & r))
        swaps = [st.get("ln") for i in r for st in b.blocks[i]["s"] if st["k"] == "assign" and st["rv"]["k"] == "agg" and (st["rv"].get("adt") or "").endswith("cluster::ClusterReader")]
    except (AnchorLost, StopIteration):
        pass        # the state is no longer that enum: the structural form above decides
    cx.ob("R10", "R10/build_plain_reader/already-plain-under-the-write-lock", returns and not panics and not swaps, f,
          "with the reader already Plain when the write lock is obtained, build_plain_reader returns (%s) without panicking (panics at lines %s) and without building a reader again (lines %s)" % (returns, panics, swaps), ln=ws[0][1].get("ln"))


RULES = [
    ("R10", r10_state_tested_under_the_guard_that_changes_it, 1),
    ("R9", r9_losing_the_race_to_fill_a_slot_is_not_an_error, 1),
    ("R1", r1_publish, 6),
    ("R2", r2_no_realloc, 3),
    ("R3", r3_readers_below_published, 8),
    ("R3", r3c_decode_to_waits, 2),
    ("R4", r4_lock_order, 5),
    ("R5", r5_unsafe_inventory, 4),
    ("R6", r6_witness, 1),
    ("R7", r7_eviction_safe, 4),
    ("R8", r8_shared_file_cursor, 5),
]
