"""C14 — written bytes follow the documented layout; old files keep reading the same.
The static half: extracted writer layout = frozen v0.2 reference = extracted reader layout, primitive
encodings, tag tables, version gate, declared pack size per kind, header/tail mirror."""
import re
from lib import *
import ref, layout, streams

PROPERTY = "C14"
EXPLANATION = ("Three-way agreement decided from the source on every run: for 43 on-disk structures the layout extracted from the "
               "writer (Serializable::serialize / serialize_tail / serialize_cluster_tail) and from the reader (Parsable::parse) "
               "must each equal the frozen v0.2 reference table (/verif/format/reference_v0_2.json); declared SIZE/BLOCK_SIZE "
               "constants equal the layout totals; integers are little-endian and the CRC big-endian; SizedOffset packing; tag "
               "tables (PackKind, CheckKind, CompressionType, ValueStoreKind, StoreKind, PropType) extracted from enum "
               "discriminants, parse switches and written literals equal the reference; the version gate is (0,2) on both sides; "
               "each creator declares pack_size = check position + the check block it actually writes + 64; each creator ends "
               "with the header/tail mirror. A symmetric change of writer and reader (invisible to any round-trip test) changes two "
               "of the three. Not decided: that an independent decoder recovers the logical content; that a corpus reads."
               " (R7) plain value store: the declared data size equals what write_data emits (the remembered key changes only where the accumulator advances); (R8) cluster pointers are tail offsets (= C01-R6)."
               " Added later: (R9) counts are compared with their field's maximum before they are narrowed; (R10) positions stored in a pack written at a recorded origin are pack-relative; (R11) offset widths come from the total (= C02-R8); (R12) column widths are chosen on final positions (= C15-R1). (R13) every table is one checked block (= C01-R18). (R14) every counted value is sized (= C02-R17).")
EXPLANATION += ' Batch 11: (R15) every layout Property::Padding(n) the creator builds has n bounded by 16 (the size nibble).'
EXPLANATION += ' Batch 12: (R16) no function of ManifestPackCreator reorders or filters self.packs (values computed pack by pack stay in step).'
ASSUMPTIONS = ["the reference table was written from the pinned sources (DESIGN.md Appendix A)", "zerocopy/byteorder LE/BE helpers behave as documented",
               "rustc HIR/MIR construction and trait resolution"]


def r1_layouts(cx):
    F = cx.F
    for name in sorted(ref.STRUCTS):
        wl, rl, wf, rf = ref.extracted(F, name)
        for side, lay, fn in (("w", wl, wf), ("r", rl, rf)):
            if fn is None:
                continue
            want = ref.ref_layout(name, side)
            if want is None:
                raise AnchorLost("reference has no %s layout for %s" % (side, name))
            ok = lay == want
            msg = "%s layout of %s equals the v0.2 reference" % ("writer" if side == "w" else "reader", name)
            if not ok:
                msg += "; extracted-only paths: %s; reference-only paths: %s" % (short(layout.to_json(lay - want), 500), short(layout.to_json(want - lay), 500))
            cx.ob("R1", "R1/%s/%s" % (name, "writer" if side == "w" else "reader"), ok, fn, msg)
    # declared sizes
    sized = {}
    for c in F.consts:
        if c.get("impl_trait", "").endswith("SizedParsable") and c["path"].endswith("::SIZE") and c.get("val") is not None:
            sized[c["impl_self"]] = c
    n = 0
    for name, e in ref.REF["structures"].items():
        if "size" not in e:
            continue
        w, r = ref.STRUCTS[name]
        loc = r or w
        ty = loc["impl_self"]
        cs = [c for s, c in sized.items() if s == ty or s.endswith("::" + ty)]
        if not cs:
            continue
        c = cs[0]
        cx.ob("R1", "R1/%s/SIZE" % name, c["val"] == e["size"], "%s:%s" % (c["file"], c["line"]),
              "<%s as SizedParsable>::SIZE = %s equals the layout total %d" % (name, c["val"], e["size"]))
        n += 1
    # BLOCK_SIZE = SIZE + 4 wherever it is used as a constant operand
    seen = {}
    for f in F.live_fns:
        for blk in f.get("blocks", []):
            ops = []
            for s in blk["s"]:
                if s["k"] == "assign":
                    ops += rv_operands(s["rv"])
            if blk["t"]["k"] == "call":
                ops += blk["t"]["args"]
            for o in ops:
                c = op_const(o)
                if c and "cdef" in c and "val" in c:
                    m = re.match(r"<(.*) as .*SizedBlockParsable>::BLOCK_SIZE$", c["cdef"])
                    if m:
                        seen.setdefault(m.group(1), set()).add(c["val"])
    for ty, vals in sorted(seen.items()):
        short_ty = ty.split("::")[-1]
        e = ref.REF["structures"].get(short_ty)
        if not e or "size" not in e:
            continue
        cx.ob("R1", "R1/%s/BLOCK_SIZE" % short_ty, vals == {e["size"] + 4}, "(const operands)", "<%s>::BLOCK_SIZE evaluates to %s; payload %d + 4-byte CRC" % (short_ty, sorted(vals), e["size"]))


def _calls_in(F, f, *pats):
    return F.body(f).calls(*pats)


def r2_encodings(cx):
    F = cx.F
    ser = {n: F.one(impl_self="write::private::Serializer", item=n, closure=False) for n in ("write_u16", "write_u32", "write_u64", "write_usized", "write_isized", "close")}
    for n in ("write_u16", "write_u32", "write_u64", "write_usized"):
        b = F.deep_body(ser[n], only=r"write::private::Serializer")   # through the Serializer's own helpers
        le = b.calls(r"zerocopy::U(16|32|64)<zerocopy::LittleEndian>|byteorder::U(16|32|64)<.*LittleEndian>|U(16|32|64)::<.*LittleEndian>|LittleEndian|num::<impl u(16|32|64|size)>::to_le_bytes$")
        be = b.calls(r"BigEndian|::to_be_bytes$|::to_ne_bytes$")
        cx.ob("R2", "R2/%s/little-endian" % n, len(le) >= 1 and not be, ser[n], "Serializer::%s encodes through a little-endian zerocopy integer (%s)" % (n, [callee_str(t) for _, t in le][:2]))
    b = F.body(ser["write_isized"])
    le = b.calls(r"LittleEndian as .*ByteOrder>::write_int$")
    cx.ob("R2", "R2/write_isized/little-endian", len(le) == 1 and not b.calls(r"BigEndian"), ser["write_isized"], "Serializer::write_isized uses LE::write_int")
    b = F.body(ser["close"])
    cx.ob("R2", "R2/crc-written-big-endian", len(b.calls(r"u32>::to_be_bytes$|num::<impl u32>::to_be_bytes$")) >= 1 and not b.calls(r"to_le_bytes"), ser["close"], "Serializer::close emits the CRC with to_be_bytes")
    # readers: Parser provided methods
    want = {"read_u16": "read_u16", "read_u32": "read_u32", "read_u64": "read_u64", "read_usized": "read_uint", "read_isized": "read_int"}
    for tr in ("bases::parsing::Parser", "bases::parsing::RandomParser"):
        for n, m in want.items():
            fs = [f for f in F.fns if f.get("in_trait") == tr and f.get("item_name") == n and f["kind"] != "closure"]
            if len(fs) != 1:
                raise AnchorLost("provided method %s::%s" % (tr, n))
            b = F.body(fs[0])
            le = b.calls(r"LittleEndian as .*ByteOrder>::%s$" % m)
            cx.ob("R2", "R2/%s::%s/little-endian" % (tr.split("::")[-1], n), len(le) == 1 and not b.calls(r"BigEndian"), fs[0], "%s::%s decodes with LE::%s" % (tr.split("::")[-1], n, m))
    f = F.fn_named("assert_slice_crc")
    b = F.body(f)
    cx.ob("R2", "R2/crc-read-big-endian", len(b.calls(r"BigEndian as .*ByteOrder>::read_u32$")) == 1 and not b.calls(r"LittleEndian"), f, "assert_slice_crc reads the stored CRC with BE::read_u32")
    # SizedOffset packing
    bits = ref.REF["sizes"]["SizedOffset.size_bits"]
    mask = ref.REF["sizes"]["SizedOffset.size_mask"]
    w = layout.find_ser(F, "SizedOffset")
    r = layout.find_parse(F, "SizedOffset")
    wb, rb = F.deep_body(w, only=r"sized_offset::SizedOffset"), F.deep_body(r, only=r"sized_offset::SizedOffset")
    cx.ob("R2", "R2/SizedOffset/writer", _has_bin(wb, "Shl", bits) and _has_bin(wb, "BitAnd", mask) and _field_feeds(wb, "Shl", "offset") and _field_feeds(wb, "BitAnd", "size"), w,
          "SizedOffset::serialize writes offset << %d | size & %#x" % (bits, mask))
    rbs = _with_fn_refs(F, rb, r"sized_offset::SizedOffset")
    cx.ob("R2", "R2/SizedOffset/reader", _has_bin(rbs, "Shr", bits) and _has_bin(rbs, "BitAnd", mask), r, "SizedOffset::parse reads size = data & %#x, offset = data >> %d" % (mask, bits))


def r2b_content_info_packing(cx):
    """ContentInfo = cluster_index << 12 | blob_index & 0xFFF on both sides (a symmetric change of the split is
    invisible to every round-trip test and breaks every file written before it)"""
    import c01
    before = len(cx.obs)
    c01.r2_packing(cx)
    for o in cx.obs[before:]:
        o.rule = "R2"
        o.key = "R2/ContentInfo/" + o.key.split("/", 1)[1]


def _with_fn_refs(F, b, only):
    """b plus the (deep) bodies of the crate's functions that b passes by name to a combinator (`x.map(Self::from_raw)`)"""
    out = [b]
    for blk in b.blocks:
        t = blk["t"]
        if blk.get("cleanup") or t["k"] != "call":
            continue
        for a in t["args"]:
            c = a.get("c") if isinstance(a, dict) else None
            if c and c.get("fn"):
                for g in F.fns:
                    if g["name"] == c["fn"] or re.sub(r"<.*?>", "", g["name"]) == re.sub(r"<.*?>", "", c["fn"]):
                        if "blocks" in g and re.search(only, g["name"]):
                            out.append(F.deep_body(g, only=only))
    return out


def _has_bin(b, op, const):
    if isinstance(b, list):
        return any(_has_bin(x, op, const) for x in b)
    for blk in b.blocks:
        for s in blk["s"]:
            if s["k"] == "assign" and s["rv"]["k"] == "bin" and s["rv"]["op"] == op and const in (op_const_val(s["rv"]["a"]), op_const_val(s["rv"]["b"])):
                return True
    return False


def _field_feeds(b, op, field):
    for blk in b.blocks:
        for s in blk["s"]:
            if s["k"] == "assign" and s["rv"]["k"] == "bin" and s["rv"]["op"] == op:
                if ("field", field) in b.origins(s["rv"]["a"]):
                    return True
    return False


def switch_table(F, f, enum_suffix):
    """{int value -> variant name} from the switch in f whose targets build variants of the enum (a parse that
    delegates to another parse of the crate is seen through)"""
    b = F.deep_body(f, only=r"Parsable>::parse$|::try_from$|::parse$")
    best = {}
    for s in range(b.n):
        t = b.term(s)
        if t["k"] != "switch" or len(t["vals"]) < 1 or t.get("op_ty") not in ("u8", "u16", "u32", "u64", "usize"):
            continue
        tab = {}
        for v, tg in zip(t["vals"], t["targets"]):
            var = _first_variant(b, tg, enum_suffix, avoid={s})
            if var:
                tab[v] = var
        if len(tab) > len(best):
            best = tab
    return best


def _first_variant(b, start, enum_suffix, avoid=()):
    seen = set()
    st = [start]
    while st:
        x = st.pop(0)
        if x in seen or x in avoid:
            continue
        seen.add(x)
        for s in b.stmts(x):
            if s["k"] == "assign" and s["rv"]["k"] == "agg" and s["rv"].get("adt", "").endswith(enum_suffix):
                return s["rv"]["variant"]
        t = b.term(x)
        if t["k"] in ("goto",):
            st.append(t["t"])
    return None


def r3_tags(cx):
    F = cx.F
    tags = ref.REF["tags"]

    def enum_tab(suffix):
        e = F.enum(suffix)
        return {v["name"]: v["discr"] for v in e["variants"]}
    # enum discriminants (what `*self as u8` writes)
    for ename, suffix in (("PackKind", "pack_kind::PackKind"), ("CheckKind", "check::CheckKind"), ("CompressionType", "compression_type::CompressionType"), ("PropType", "prop_type::PropType")):
        got = enum_tab(suffix)
        cx.ob("R3", "R3/%s/discriminants" % ename, got == tags[ename], "(enum %s)" % suffix, "discriminants of %s = %s equal the reference %s" % (ename, got, tags[ename]))
    got = enum_tab("reader::directory_pack::value_store::ValueStoreKind")
    cx.ob("R3", "R3/ValueStoreKind/discriminants", got == tags["ValueStoreKind"], "(enum ValueStoreKind)", "reader's ValueStoreKind discriminants %s" % got)
    # parse switches
    for ename, suffix, loc in (
        ("PackKind", "PackKind", ref.P("PackKind")),
        ("PackKind", "PackKind", ref.P("FullPackKind")),
        ("CheckKind", "CheckKind", ref.P("CheckKind")),
        ("CompressionType", "CompressionType", ref.P("CompressionType")),
        ("ValueStoreKind", "ValueStoreKind", ref.P("ValueStoreKind")),
        ("PropType", "PropType", dict(impl_self="PropType", item="try_from", closure=False)),
    ):
        f = F.one(**loc)
        tab = switch_table(F, f, suffix)
        want = {v: k for k, v in tags[ename].items()}
        cx.ob("R3", "R3/%s/parse@%s" % (ename, f.get("impl_self", "").split("::")[-1] + "::" + f["item_name"]), tab == want, f,
              "tag→variant table of %s: %s equals the reference %s" % (f["name"], tab, want))
    # entry store kind: reader accepts 0 → Plain
    f = F.one(**ref.P("entry_store::StoreKind"))
    tab = switch_table(F, f, "StoreKind")
    cx.ob("R3", "R3/StoreKind/parse", tab.get(0) == "Plain", f, "entry-store kind 0 parses to StoreKind::Plain (%s)" % tab)
    # literals written by the creators as first byte of the tail
    for what, loc, want in (
        ("PlainValueStore", ref.STRUCTS["PlainValueStoreTail"][0], tags["ValueStoreKind"]["Plain"]),
        ("IndexedValueStore", ref.STRUCTS["IndexedValueStoreTail"][0], tags["ValueStoreKind"]["Indexed"]),
        ("EntryStore", ref.STRUCTS["EntryStoreTail"][0], tags["EntryStoreKind"]["Plain"]),
    ):
        f = F.one(**loc)
        b = F.body(f)
        ws = b.calls(r"Serializer::write_", r"Serializable>::serialize$")
        first = [(i, t) for i, t in ws if all(b.dominates(i, j) for j, _ in ws)]
        ok = len(first) == 1 and call_is(first[0][1], r"Serializer::write_u8$") and op_const_val(first[0][1]["args"][1]) == want
        cx.ob("R3", "R3/%s/kind-literal" % what, ok, f, "the first byte of the %s tail is the literal kind %d" % (what, want))
    # magic
    f = layout.find_ser(F, "FullPackKind")
    strs = [op_const(a).get("str") for _, t in F.body(f).calls(r"Serializer::write_data$") for a in t["args"] if op_const(a)]
    tr = [n for n in hir_calls(F.tree(f), r"Serializer::write_data$")]
    magic = [ord(c) for c in ref.REF["magic"]]
    ok = any('b"%s"' % ref.REF["magic"] in (a.get("snip") or "") or a.get("cval") == magic for n in tr for a in n["args"])   # literal or named constant
    cx.ob("R3", "R3/magic/writer", ok, f, "FullPackKind::serialize writes the magic b\"%s\"" % ref.REF["magic"])
    c = F.const("pack_kind::JBK_MAGIC")
    okr = c.get("val") == list(ref.REF["magic"].encode())
    g = layout.find_parse(F, "FullPackKind")
    okr2 = any("JBK_MAGIC" in (n.get("b") or {}).get("snip", "") + (n.get("a") or {}).get("snip", "") for n in hir_walk(F.tree(g)) if n.get("k") == "binop")
    cx.ob("R3", "R3/magic/reader", okr and okr2, g, "FullPackKind::parse compares the first 3 bytes with JBK_MAGIC = b\"%s\"" % ref.REF["magic"])


def r4_version(cx):
    F = cx.F
    v = ref.REF["version"]
    f = F.one(impl_self="PackHeader", item="new", closure=False, trait="")
    b = F.body(f)
    got = None
    for blk in b.blocks:
        for s in blk["s"]:
            if s["k"] == "assign" and s["rv"]["k"] == "agg" and s["rv"].get("adt", "").endswith("PackHeader") and "fnames" in s["rv"]:
                d = dict(zip(s["rv"]["fnames"], s["rv"]["fields"]))
                got = (op_const_val(d.get("major_version")), op_const_val(d.get("minor_version")))
    cx.ob("R4", "R4/writer", got == (v["major"], v["minor"]), f, "PackHeader::new writes version %s (reference (%d, %d))" % (got, v["major"], v["minor"]))
    g = layout.find_parse(F, "PackHeader")
    gb = F.body(g)
    # the comparison `(major, minor) != (0, 2)` (tuple PartialEq) or field-wise integer comparisons
    consts = []
    cmp_locals = []
    for n in hir_walk(F.tree(g)):
        if n.get("k") == "binop" and n.get("op") in ("Ne", "Eq"):
            for side, other in ((n.get("a") or {}, n.get("b") or {}), (n.get("b") or {}, n.get("a") or {})):
                if "tuple" in side and all("lit" in e for e in side["tuple"]) and "tuple" in other:
                    consts.append(tuple(e["lit"] for e in side["tuple"]))
                    cmp_locals.append([e.get("local") for e in other["tuple"]])
                elif "lit" in side and isinstance(side["lit"], int) and other.get("local"):
                    consts.append((side["lit"],))
                    cmp_locals.append([other.get("local")])
    # the same test written as a match: `match (major, minor) { (0, 2) => .., _ => Err(VersionError) }`
    for n in hir_walk(F.tree(g)):
        if n.get("k") == "match" and re.match(r"^\(\s*\w+\s*,\s*\w+\s*\)$", n.get("scrut", "")):
            sc = [x.strip() for x in n["scrut"].strip("()").split(",")]
            for a in n["arms"]:
                m = re.match(r"^\(\s*(\d+)\s*,\s*(\d+)\s*\)$", a.get("pat", ""))
                if m:
                    consts.append((int(m.group(1)), int(m.group(2))))
                    cmp_locals.append(sc)
    flat = [c for t in consts for c in t]
    # the compared locals are the two bytes read right after the vendor id (read_u8 results)
    names = [x for l in cmp_locals for x in l]
    lets = {n["pat"]: n for n in hir_walk(F.tree(g)) if n.get("k") == "let"}
    from_read = all(x in lets and any(hcall_is(c, r"Parser>::read_u8$") for c in hir_walk(lets[x].get("sub", []))) for x in names) and len(names) == 2
    verr = [i for i, blk in enumerate(gb.blocks) if any(s["k"] == "assign" and s["rv"]["k"] == "agg" and s["rv"].get("adt", "").endswith("VersionError") for s in blk["s"])]
    ok = flat == [v["major"], v["minor"]] and from_read and len(verr) == 1
    if ok:
        cds = gb.control_dep_switches(verr[0])
        ok = any(gb.derives_from_call(gb.term(s)["op"], r"PartialEq.*>::(ne|eq)$", through_calls=False) or gb.derives_from_call(gb.term(s)["op"], r"Parser>::read_u8$")
                 or gb.derives_from_call(gb.term(s)["op"], r"Try>::branch$", through_calls=False) for s in cds)
        okagg = [i for i, blk in enumerate(gb.blocks) for s in blk["s"] if s["k"] == "assign" and s["rv"]["k"] == "agg" and s["rv"].get("adt", "").endswith("headers::pack::PackHeader")]
        ok = ok and bool(okagg) and not any(x in gb.reachable(verr[0]) for x in okagg)
    if not ok and len(verr) >= 1:
        # the same gate in another shape (a `match (major, minor)`, a helper returning Result): decided on the MIR by constant
        # propagation -- with the two bytes read set to (0, 2) only the header is built, with anything else only the error
        okagg = {i for i, blk in enumerate(gb.blocks) for s in blk["s"] if s["k"] == "assign" and s["rv"]["k"] == "agg" and s["rv"].get("adt", "").endswith("headers::pack::PackHeader")}
        rds = sorted((i for i, _ in gb.calls(r"Parser>::read_u8$")), key=lambda i: len(gb.dom()[i]))
        probes = [(v["major"], v["minor"], True), (v["major"], v["minor"] + 1, False), (v["major"] + 1, v["minor"], False), (v["major"], v["minor"] - 1, False), (255, v["minor"], False), (v["minor"], v["major"], False)]
        for a in range(len(rds)):
            for c in range(a + 1, len(rds)):
                good = True
                for M, m, accept in probes:
                    r, _ = gb.explore(assume_calls={rds[a]: ("agg", 0, (M,)), rds[c]: ("agg", 0, (m,))})
                    built, refused = bool(okagg & r), bool(set(verr) & r)
                    good = good and (built and not refused if accept else refused and not built)
                if good and okagg:
                    ok = True
                    consts, cmp_locals = [(v["major"], v["minor"])], ["read_u8@%s" % gb.ln(rds[a]), "read_u8@%s" % gb.ln(rds[c])]
    cx.ob("R4", "R4/reader", ok, g, "PackHeader::parse compares the two version bytes read from the file with exactly %s and returns VersionError otherwise (compared constants: %s, locals %s)" % ((v["major"], v["minor"]), consts, cmp_locals))


PACK_CREATORS = [
    ("content", dict(impl_self="ContentPackCreator", item="finalize"), "Blake3"),
    ("directory", dict(impl_self="FinalizedDirectoryPackCreator", item="write"), "Blake3"),
    ("manifest", dict(impl_self="ManifestPackCreator", item="finalize"), "Blake3"),
    ("container", dict(impl_self="ContainerPackCreator", item="finalize"), "None"),
]


def r5_pack_size(cx, rule="R5"):
    F = cx.F
    block = ref.REF["sizes"]["PackHeader.block"]
    for name, loc, _k in PACK_CREATORS:
        f = F.one(closure=False, **loc)
        b = F.body(f)
        phi = b.calls(r"PackHeaderInfo::new$")
        if len(phi) != 1:
            raise AnchorLost("%s: PackHeaderInfo::new sites: %d" % (f["name"], len(phi)))
        i, t = phi[0]
        size_op, pos_op = t["args"][1], t["args"][2]
        org = b.origins(size_op)
        # which check block does the creator write?
        wrote = "Blake3" if b.calls(r"CheckInfo::new_blake3$") else ("None" if b.calls(r"CheckInfo::new_none$") else None)
        bs = [(j, tt) for j, tt in b.origin_calls(size_op) if call_is(tt, r"CheckKind::block_size$")]
        kinds = set()
        for j, tt in bs:
            l = op_local(tt["args"][0])
            for d in b.defs().get(l, []):
                if d[0] == "stmt" and d[3]["rv"]["k"] == "agg" and d[3]["rv"].get("adt", "").endswith("CheckKind"):
                    kinds.add(d[3]["rv"]["variant"])
        has_tail = ("const", block) in org
        # check position: same provenance as the check_info_pos argument
        pos_calls = {j for j, tt in b.origin_calls(pos_op) if call_is(tt, *streams.TELL) or call_is(tt, r"Seek>::seek$")}
        size_pos_calls = {j for j, tt in b.origin_calls(size_op) if call_is(tt, *streams.TELL) or call_is(tt, r"Seek>::seek$")}
        ok = wrote is not None and kinds == {wrote} and has_tail and bool(pos_calls) and pos_calls <= size_pos_calls
        cx.ob(rule, "%s/%s" % (rule, name), ok, f,
              "pack_size = check position + CheckKind::%s.block_size() + %d (tail): check block written=%s, block_size kinds in the sum=%s, +tail=%s, same check position=%s" % (
                  wrote, block, wrote, sorted(kinds), has_tail, bool(pos_calls) and pos_calls <= size_pos_calls), ln=t.get("ln"))
    # the sizes of the check blocks themselves
    f = F.one(impl_self="CheckKind", item="block_size", closure=False)
    b = F.body(f)
    tab = {}
    for s in range(b.n):
        t = b.term(s)
        if t["k"] == "switch":
            for v, tg in list(zip(t["vals"], t["targets"])) + [("otherwise", t["otherwise"])]:
                for x in sorted(b.reachable(tg, avoid={s})):
                    for st in b.stmts(x):
                        if st["k"] == "assign" and st["rv"]["k"] == "bin" and st["rv"]["op"] in ("Add", "AddWithOverflow"):
                            c = [op_const_val(o) for o in (st["rv"]["a"], st["rv"]["b"]) if op_const_val(o) is not None]
                            if c and v not in tab:
                                tab[v] = c[-1]
    crc = ref.REF["sizes"]["crc"]
    want_none = ref.REF["sizes"]["CheckInfo.none.block"] - crc
    want_b3 = ref.REF["sizes"]["CheckInfo.blake3.block"] - crc
    vals = sorted(v for v in tab.values())
    okb = vals == sorted([want_none, want_b3]) and tab.get(0, tab.get("otherwise")) == want_none
    if not okb:
        # the same sizes computed in another shape (tag size + payload size, a helper per kind): evaluated by constant
        # propagation under each kind, with the type's own helpers inlined
        db = F.deep_body(f, only=r"common::check::|bases::block::")
        conv = [i for i, t in db.calls(r"Into<.*ASize>>::into$", r"ASize as .*From<usize>>::from$", r"ASize::new$") if 0 in db.whole_copies({t["dest"]["l"]}) | {t["dest"]["l"]} or True]
        en = F.enum("common::check::CheckKind")
        got = {}
        for v in en["variants"]:
            for cb in conv:
                crc32 = next(x["discr"] for x in F.enum("bases::block::BlockCheck")["variants"] if x["name"] == "Crc32")
                db.explore(assume_discr={r"check::CheckKind$": v["discr"], r"block::BlockCheck$": crc32}, watch={cb: 0})
                xs = db.watched.get(cb, set())
                if len(xs) == 1 and None not in xs:
                    got[v["name"]] = next(iter(xs))
        tab = {"by-kind": got}
        okb = got.get("None") == crc + want_none and got.get("Blake3") == crc + want_b3
    cx.ob(rule, "%s/CheckKind.block_size" % rule, okb, f,
          "CheckKind::block_size = CRC + 1 (None) / CRC + 33 (Blake3): payload constants per arm %s" % tab)


def r6_mirror(cx):
    F = cx.F
    for name, loc, _k in PACK_CREATORS:
        f = F.one(closure=False, **loc)
        b = F.body(f)
        ev = streams.events(b)
        err = b.error_blocks()
        rev = b.calls(r"slice::<impl \[.*\]>::reverse$|::reverse$")
        reads = [i for i, k in ev.items() if k == "read"]
        tails = [i for i, k in ev.items() if k == "write" and call_is(b.term(i), r"write_all$")]
        ok = len(rev) == 1 and len(reads) == 1 and len(tails) == 1
        msg = "one read_exact / reverse / write_all (found %d/%d/%d)" % (len(reads), len(rev), len(tails))
        if ok:
            r, v, w = reads[0], rev[0][0], tails[0]
            starts = [i for i, k in ev.items() if k == "seek_start" and b.dominates(i, r)]
            last_start = max(starts, key=lambda x: len(b.dom()[x])) if starts else None
            ends = [i for i, k in ev.items() if k == "seek_end" and b.dominates(v, i) and b.dominates(i, w)]
            order = last_start is not None and b.dominates(r, v) and bool(ends)
            # nothing moves the stream between seek_start and read, and between seek_end and write
            moving = {i for i, k in ev.items() if k in ("write", "seek_end", "seek_cur", "seek_unknown", "read", "seek_start", "hash")}
            clean1 = last_start is not None and not any(m in b.reach_after(last_start, avoid={r} | err) and r in b.reach_after(m, avoid=err) for m in moving - {last_start, r})
            e = max(ends, key=lambda x: len(b.dom()[x])) if ends else None
            clean2 = e is not None and not any(m in b.reach_after(e, avoid={w} | err) and w in b.reach_after(m, avoid=err) for m in moving - {e, w})
            # same 64-byte buffer
            def buf(op):
                seen = set(); st = [op_base_local(op)]
                while st:
                    l = st.pop()
                    if l is None or l in seen: continue
                    seen.add(l)
                    if re.match(r"\[u8; \d+\]$", b.locals[l]["ty"]):
                        return l
                    for d in b.defs().get(l, []):
                        if d[0] == "stmt" and d[3]["k"] == "assign":
                            for o in rv_operands(d[3]["rv"]): st.append(op_base_local(o))
                            if "pl" in d[3]["rv"]: st.append(d[3]["rv"]["pl"]["l"])
                        elif d[0] == "call":
                            for a in d[2]["args"]: st.append(op_base_local(a))
                return None
            b1, b2, b3 = buf(b.term(r)["args"][1]), buf(rev[0][1]["args"][0]), buf(b.term(w)["args"][1])
            same = b1 is not None and b1 == b2 == b3 and b.locals[b1]["ty"] == "[u8; %d]" % ref.REF["sizes"]["PackHeader.block"]
            ok = order and clean1 and clean2 and same
            msg = "seek(origin) → read_exact(64 bytes) → reverse → seek(End(0)) → write_all, on one buffer: order=%s nothing-in-between=%s/%s same-64-byte-buffer=%s" % (order, clean1, clean2, same)
        cx.ob("R6", "R6/%s" % name, ok, f, msg)


def r7_plain_store_size_matches_data(cx):
    """'sizes': the data size a plain value store declares (accumulated in finalize over the representatives of the runs
    of equal values) is the size of what write_data emits (one copy per run of equal keys) only if all duplicates of a run
    are rewritten to the ONE key whose offset was assigned: the remembered key changes only in an iteration that also
    advances the size accumulator."""
    F = cx.F
    f = F.method("creator::directory_pack::value_store::PlainValueStore", "finalize")
    b = F.body(f)
    nx = b.calls(r"Iterator>::next$")
    if len(nx) != 1:
        raise AnchorLost("PlainValueStore::finalize: expected one loop, found %d" % len(nx))
    n = nx[0][0]
    loop = b.reach_after(n) & {x for x in range(len(b.blocks)) if n in b.reach_after(x)}
    # the size accumulator: a local updated from itself by an addition, inside the loop
    acc = {}
    for i in loop:
        for st in b.blocks[i]["s"]:
            if st["k"] == "assign" and not st["lhs"].get("p") and st["rv"]["k"] == "bin" and st["rv"]["op"].startswith("Add") and op_local(st["rv"]["a"]) == st["lhs"]["l"]:
                acc.setdefault(st["lhs"]["l"], set()).add(i)     # release profile: `acc = Add(acc, x)` without the overflow check
            if st["k"] == "assign" and not st["lhs"].get("p") and st["rv"]["k"] == "use":
                src = st["rv"]["op"].get("mv") or st["rv"]["op"].get("cp") or {}
                for d in b.defs().get(src.get("l"), []):
                    if d[0] == "stmt" and d[3]["rv"]["k"] == "bin" and d[3]["rv"]["op"].startswith("Add") and op_local(d[3]["rv"]["a"]) == st["lhs"]["l"]:
                        acc.setdefault(st["lhs"]["l"], set()).add(i)
    if len(acc) != 1:
        raise AnchorLost("PlainValueStore::finalize: expected one size accumulator in the loop, found %s" % sorted(acc))
    A = next(iter(acc.values()))
    # the remembered key(s): user-named Option<usize> locals
    M = [i for i, l in enumerate(b.locals) if l.get("name") and re.sub(r"\s", "", l.get("ty", "")) == "std::option::Option<usize>"]
    if not M:
        raise AnchorLost("PlainValueStore::finalize: no Option<usize> local remembering the previous key")
    stores = []
    for i in sorted(loop):
        blk = b.blocks[i]
        for st in blk["s"]:
            if st["k"] in ("assign", "setdiscr") and st["lhs"]["l"] in M and "*" not in st["lhs"].get("p", []):
                stores.append((i, st.get("ln"), "assignment"))
            if st["k"] == "assign" and st["rv"]["k"] == "ref" and st["rv"].get("mut") and st["rv"]["pl"]["l"] in M:
                stores.append((i, st.get("ln"), "&mut borrow"))
    ok = bool(stores)
    bad = []
    for i, ln, how in stores:
        same_iter = any(b.dominates(a, i) and i in b.reachable(a, avoid={n}) for a in A) or not (b.reachable(i, avoid=A) & {n})
        if not same_iter:
            bad.append("%s at line %s" % (how, ln))
    cx.ob("R7", "R7/PlainValueStore.finalize/representative-has-an-offset", ok and not bad, f,
          "every update of the remembered previous key (%d site(s)) happens in an iteration that also advances the declared size: %s" % (len(stores), bad or "ok"))
    # write_data: one copy per run of equal keys -- the skip compares keys, and the key is remembered on the path that writes
    g = F.one(impl_self="value_store::PlainValueStore", item="write_data", closure=False)
    gb = F.body(g)
    w = gb.calls(r"Serializer::write_data$", r"Write>::write_all$")
    gn = gb.calls(r"Iterator>::next$")
    if len(w) != 1 or len(gn) != 1:
        raise AnchorLost("PlainValueStore::write_data: expected one loop with one write, found %d/%d" % (len(gn), len(w)))
    W, gN = w[0][0], gn[0][0]
    gM = [i for i, l in enumerate(gb.locals) if l.get("name") and re.sub(r"\s", "", l.get("ty", "")) == "std::option::Option<usize>"]
    gst = [i for i, blk in enumerate(gb.blocks) for st in blk["s"] if st["k"] in ("assign", "setdiscr") and st["lhs"]["l"] in gM and i in gb.reach_after(gN) and gN in gb.reach_after(i)]
    okw = bool(gst) and all(not (gb.reachable(i, avoid={W}) & {gN}) or gb.dominates(W, i) for i in gst)
    if not gst:
        # the same skip written as a filter on the keys: `keys.filter(|k| last.replace(**k) != Some(**k))` -- the key is
        # remembered (replace) for every key seen and the key passes iff it differs from the one remembered before it
        flt = gb.calls(r"Iterator>::filter::<")
        for c in F.closures_of(g):
            if "blocks" not in c:
                continue
            cb = F.body(c)
            rp = cb.calls(r"Option::<usize>::replace$")
            ne = cb.calls(r"cmp::PartialEq.*>::(ne|eq)$")
            # .. or without any memory: `keys.iter().enumerate().filter(|(pos, k)| *pos == 0 || keys[pos - 1] != **k)`
            idx = [t_ for _, t_ in cb.calls(r"ops::Index<usize>>::index$") if ("const", 1) in cb.origins(t_["args"][1])]
            nes = ne or [1 for blk_ in cb.blocks for st_ in blk_["s"] if st_["k"] == "assign" and st_["rv"]["k"] == "bin" and st_["rv"]["op"] == "Ne"]
            if not rp and not gM and flt and idx and nes:
                okw = True
            if len(rp) == 1 and len(ne) == 1 and flt and ("call", rp[0][0]) in (cb.origins(ne[0][1]["args"][0]) | cb.origins(ne[0][1]["args"][1])) \
                    and 0 in cb.whole_copies({ne[0][1]["dest"]["l"]}) | {ne[0][1]["dest"]["l"]} and callee_str(ne[0][1]).endswith("::ne"):
                okw = True
    cx.ob("R7", "R7/PlainValueStore.write_data/one-copy-per-remembered-key", okw, g,
          "the key remembered for the skip test is updated exactly in the iterations that write the value")


def r8_cluster_pointers_are_tail_offsets(cx):
    """'offsets, tables, cluster encoding': an entry of the cluster pointer table is the position of the cluster's
    tail = the stream position right after its data, with the stored size = bytes between the two positions
    (= C01-R6, evaluated under this property)"""
    import c01
    before = len(cx.obs)
    c01.r6_data_location(cx)
    for o in cx.obs[before:]:
        o.key = "R8/" + o.key.split("/", 1)[1]
        o.rule = "R8"


R9_EXEMPT = {
    "clusterwriter.serialize_cluster_tail": "the cluster was filled by ClusterCreator::add_content, which asserts len < MAX_BLOBS_PER_CLUSTER (0xFFF) before every push (C01-R2)",
}


def r9_counts_are_not_truncated(cx):
    """'sizes, tables': a count written in a 1- or 2-byte field (properties, variants, value stores, packs) is the number
    of things that follow it. Wherever the creator narrows a `len()` to u8 / u16, a comparison of that very count with
    a constant (an `assert!`, an error return) or a checked conversion dominates the cast -- a count one past the
    field's maximum otherwise wraps to 0 and the file describes fewer things than it holds."""
    F = cx.F
    W = {"u8": 1, "u16": 2, "u32": 4, "u64": 8, "usize": 8}
    n = 0
    for f in F.live_fns:
        if "blocks" not in f or not re.search(r"creator::|^tools::", f["name"]):
            continue
        b = None
        sites = {}
        for i, blk in enumerate(f["blocks"]):
            if blk.get("cleanup"):
                continue
            for st in blk["s"]:
                if not (st["k"] == "assign" and st["rv"]["k"] == "cast"):
                    continue
                src = op_place(st["rv"]["op"])
                if src is None or src.get("p"):
                    continue
                to = f["locals"][st["lhs"]["l"]].get("ty")
                frm = f["locals"][src["l"]].get("ty")
                if to not in ("u8", "u16") or frm not in W or W[frm] <= W[to]:
                    continue
                b = b or F.body(f)
                o = b.origins(st["rv"]["op"])
                lens = [x[1] for x in o if x[0] == "call" and call_is(b.term(x[1]), r"::len$")]
                if not lens:
                    continue
                # guard: a switch dominating the cast whose condition compares a value derived from the same len() with a constant
                guarded = False
                for sblk in range(b.n):
                    t = b.term(sblk)
                    if t["k"] != "switch" or sblk == i or not b.dominates(sblk, i):
                        continue
                    for d in b.defs().get(op_local(t["op"]), []) if op_local(t["op"]) is not None else []:
                        if d[0] == "stmt" and d[3]["rv"]["k"] == "bin" and d[3]["rv"]["op"] in ("Lt", "Le", "Gt", "Ge"):
                            oa, ob = b.origins(d[3]["rv"]["a"]), b.origins(d[3]["rv"]["b"])
                            fields = {x for l in lens for x in b.origins(b.term(l)["args"][0]) if x[0] == "field"}
                            recv = {x for l in lens for x in b.origins(b.term(l)["args"][0], through_calls=False) if x[0] in ("call", "param", "local")}
                            same = any(("call", l) in oa | ob for l in lens) or any(
                                x[0] == "call" and call_is(b.term(x[1]), r"::len$") and ((fields and fields <= b.origins(b.term(x[1])["args"][0])) or
                                                                                        (not fields and recv & b.origins(b.term(x[1])["args"][0], through_calls=False))) for x in oa | ob)
                            if same and (op_const_deep(b, d[3]["rv"]["a"]) is not None or op_const_deep(b, d[3]["rv"]["b"]) is not None
                                                                              or any(x[0] == "const" for x in oa) and not any(x[0] == "call" for x in oa) or any(x[0] == "const" for x in ob) and not any(x[0] == "call" for x in ob)):
                                guarded = True
                sites.setdefault(st.get("ln"), []).append(guarded)
        for ln, gs in sorted(sites.items()):
            n += 1
            nm = ((f.get("impl_self") or "").split("<")[0].split("::")[-1] + "." + f["item_name"]) if f.get("impl_self") and f.get("item_name") else ".".join(re.sub(r"<.*?>", "", f["name"]).split("::")[-2:])
            nm = re.sub(r"\{closure#\d+\}", "{closure}", nm if f.get("kind") != "closure" else re.sub(r"<.*?>", "", f["name"]).split("::")[-2] + ".{closure}")
            if nm in R9_EXEMPT:
                cx.ob("R9", "R9/%s/exempt" % nm, True, f, "narrowing at line %s is bounded elsewhere: %s" % (ln, R9_EXEMPT[nm]), ln=ln, trivial=True)
                continue
            cx.ob("R9", "R9/%s/count-narrowed-under-a-guard#%d" % (nm, sorted(sites).index(ln)), all(gs), f,
                  "a len() is narrowed to a 1/2-byte count at line %s: a comparison of that count with a constant dominates the cast" % ln, ln=ln)
    if n < 5:
        raise AnchorLost("count narrowing sites in the creator: %d" % n)


_ok_payloads = ok_payloads


def _through_tuples(b, vals):
    """the same values after a trip through a tuple (the argument tuple of an inlined closure call): `t = (v,)`, `x = t.0`"""
    vals = set(vals)
    changed = True
    while changed:
        changed = False
        slots = set()
        for blk in b.blocks:
            for st in blk["s"]:
                rv = st.get("rv") or {}
                if st["k"] == "assign" and rv.get("k") == "agg" and rv.get("ak") == "tuple" and not st["lhs"].get("p"):
                    for k, a in enumerate(rv["fields"]):
                        pl = op_place(a)
                        if pl is not None and pl["l"] in vals and not pl.get("p"):
                            slots.update((t, k) for t in b.whole_copies({st["lhs"]["l"]}))
        for blk in b.blocks:
            for st in blk["s"]:
                rv = st.get("rv") or {}
                if st["k"] == "assign" and rv.get("k") == "use" and not st["lhs"].get("p") and st["lhs"]["l"] not in vals:
                    pl = op_place(rv["op"])
                    pr = [e for e in (pl or {}).get("p", []) if e != "*"]
                    if pl is not None and len(pr) == 1 and isinstance(pr[0], dict) and (pl["l"], pr[0].get("f")) in slots:
                        vals |= b.whole_copies({st["lhs"]["l"]})
                        changed = True
    return vals


def r10_stored_positions_are_pack_relative(cx):
    """'offsets': what a pack stores about itself is relative to its own first byte. The creators that write a pack
    into a stream they are given (FinalizedDirectoryPackCreator::write, ManifestPackCreator::finalize) record the
    position of the stream at entry and subtract it from every position they compute; the positions handed back by
    WritableTell::write (indexes, entry stores, value stores) are absolute positions of that stream, so each of them
    is taken apart and its offset goes through a subtraction of the recorded origin -- none is stored as it is
    returned (in a stream that is not at 0 the pack would point outside of itself)."""
    F = cx.F
    n = 0
    for f in F.live_fns:
        if "blocks" not in f or f.get("kind") == "closure" or not re.search(r"^creator::", f["name"]):
            continue
        if not any(call_is(blk["t"], r"WritableTell>::write$") for blk in f["blocks"] if not blk.get("cleanup")):
            continue
        b = F.deep_body(f, only=r"^\b$", closures=True)     # local closures called directly are part of the body
        ws = b.calls(r"WritableTell>::write$")
        pos = [i for i, _ in b.calls(r"Seek>::stream_position$") if all(b.dominates(i, w) for w, _ in ws)]
        subs = []
        for i, blk in enumerate(b.blocks):
            if blk.get("cleanup"):
                continue
            for st in blk["s"]:
                rv = st.get("rv") or {}
                if st["k"] == "assign" and rv.get("k") == "bin" and rv["op"] in ("Sub", "SubWithOverflow", "SubUnchecked"):
                    ob_ = b.origins(rv["b"])
                    if any(("call", p) in ob_ for p in pos):
                        subs.append((i, st, b.origins(rv["a"])))
        origin = [p for p in pos if any(("call", p) in b.origins(st["rv"]["b"]) for _, st, _ in subs)]
        if not origin:
            continue     # this function does not rebase anything: it does not write a pack at a recorded origin
        nm = ((f.get("impl_self") or "").split("<")[0].split("::")[-1] + "." + f["item_name"]) if f.get("impl_self") and f.get("item_name") else f["name"].split("::")[-1]
        for k, (w, t) in enumerate(ws):
            n += 1
            vals = _through_tuples(b, _ok_payloads(b, w))
            rebased = [ln for _, st, oa in subs if ("call", w) in oa for ln in [st.get("ln")]]
            whole = []
            for i, blk in enumerate(b.blocks):
                if blk.get("cleanup"):
                    continue
                tt = blk["t"]
                if tt["k"] == "call" and not call_is(tt, r"Try>::branch$", r"Result::<.*>::(unwrap|expect)$"):
                    for a in tt["args"]:
                        pl = op_place(a)
                        if pl is not None and pl["l"] in vals and not pl.get("p") and ("mv" in a or "cp" in a):
                            whole.append(tt.get("ln"))
                for st in blk["s"]:
                    rv = st.get("rv") or {}
                    if st["k"] == "assign" and rv.get("k") == "agg" and rv.get("ak") != "tuple":
                        for a in rv["fields"]:
                            pl = op_place(a)
                            if pl is not None and pl["l"] in vals and not pl.get("p"):
                                whole.append(st.get("ln"))
                    elif st["k"] == "assign" and rv.get("k") == "use" and st["lhs"].get("p"):
                        pl = op_place(rv["op"])
                        if pl is not None and pl["l"] in vals and not pl.get("p"):
                            whole.append(st.get("ln"))
            cx.ob("R10", "R10/%s/position-of-part#%d-is-pack-relative" % (nm, k), bool(vals) and bool(rebased) and not whole, f,
                  "the position returned by WritableTell::write at line %s has the origin of the pack subtracted (lines %s) and is not stored as returned (stored whole at lines %s)" % (
                      t.get("ln"), rebased, sorted(set(whole))), ln=t.get("ln"))
    if n < 4:
        raise AnchorLost("parts written through WritableTell::write by creators that record an origin: %d" % n)


def r2c_content_address_key_byte(cx):
    """key byte of a content-address property: 0b0001_DPCC -- the P bit (pack id on two bytes) is set whenever
    pack_id_size is U2, whether or not the column has a default value (D): under `pack_id_size = U2` no write of the
    key byte is reachable without passing the `| 0b100`"""
    F = cx.F
    f = layout.find_ser(F, "creator::directory_pack::layout::property::Property")
    b = F.body(f)
    ca = next(v["discr"] for v in F.enum("prop_type::PropType")["variants"] if v["name"] == "ContentAddress")
    u2 = next(v["discr"] for v in F.enum("byte_size::ByteSize")["variants"] if v["name"] == "U2")
    pbit = [i for i, blk in enumerate(b.blocks) if not blk.get("cleanup") for st in blk["s"]
            if st["k"] == "assign" and st["rv"]["k"] == "bin" and st["rv"]["op"] == "BitOr" and 4 in (op_const_val(st["rv"]["a"]), op_const_val(st["rv"]["b"]))]
    writes = [(i, t) for i, t in b.calls(r"Serializer::write_u8$") if ("const", ca) in b.origins(t["args"][1]) or ("const", "bases::prop_type::PropType::ContentAddress") in b.origins(t["args"][1])]
    if not writes:
        # the marker may be folded differently: fall back on the arm that mentions pack_id_size
        writes = [(i, t) for i, t in b.calls(r"Serializer::write_u8$") if ("field", "content_id_size") in b.origins(t["args"][1])]
    if not pbit or len(writes) < 2:
        raise AnchorLost("Property::serialize: content-address key byte (P bit sites %d, key byte writes %d)" % (len(pbit), len(writes)))
    r, _ = b.explore(assume_discr={r"byte_size::ByteSize$": u2}, avoid=set(pbit) | b.error_blocks())
    missed = sorted(t.get("ln") for i, t in writes if i in r)
    cx.ob("R2", "R2/PropertyDef/content-address-P-bit", not missed, f,
          "with pack_id_size = U2 every write of the content-address key byte (%d sites) comes after `| 0b0000_0100` (writes reachable without it: lines %s)" % (len(writes), missed))


def r13_tables_are_single_blocks(cx):
    """'block checksums, tables': a table is one block (= C01-R18 under C14)"""
    import c01
    c01.r18_tables_are_single_blocks(cx, rule="R13")


def r12_widths_chosen_on_final_positions(cx):
    """'sizes': the byte width of a column is chosen from the values that will be written -- for a column of entry
    positions, after the last sort and re-indexing (= C15-R1 under C14)"""
    import c15
    c15.r1_reindex(cx, rule="R12")


def r11_offset_widths(cx):
    """'sizes, tables': the width announced for a table of offsets is the width of the total it is bounded by (= C02-R8)"""
    import c02
    c02.r8_width_covers(cx, rule="R11")


def r14_every_value_takes_part_in_the_sizing(cx):
    """'sizes ... recovers exactly the logical content': the declared width of an integer column covers every value written
    in it (= C02-R17 under C14)"""
    import c02
    c02.r17_every_value_takes_part_in_the_sizing(cx, rule="R14")


def r15_padding_fits_its_nibble(cx):
    """'written bytes follow the documented layout': a padding property is one byte, `0000 SSSS` with SSSS = size - 1, so it
    covers 1 to 16 bytes (Appendix A). Wherever the creator builds a layout `Property::Padding(n)`, n is a constant of that
    range or is bounded by 16 on the way (a dominating comparison with a constant whose other arm does not get there, or a
    `min` with such a constant): a longer run spills into the type nibble and is read back as another property."""
    F = cx.F
    MAXPAD = 16
    n = 0
    for f in F.live_fns:
        if "blocks" not in f or not re.search(r"^<?creator::directory_pack::", f["name"]):
            continue
        b = None
        for i, blk in enumerate(f["blocks"]):
            if blk.get("cleanup"):
                continue
            for st in blk["s"]:
                rv = st.get("rv") or {}
                if st["k"] == "assign" and rv.get("k") == "agg" and rv.get("variant") == "Padding" and re.search(r"layout::property::Property", rv.get("adt", "")) and rv["fields"]:
                    b = b or F.body(f)
                    n += 1
                    op = rv["fields"][0]
                    c = op_const_deep(b, op)
                    if c is not None:
                        ok, how = 1 <= c <= MAXPAD, "constant %s" % c
                    else:
                        src = b.origins(op)
                        bounds = [bd for _, bd in upper_bound_guards(b, i, src)]
                        mins = []
                        for x in src:
                            if x[0] == "call" and call_is(b.term(x[1]), r"cmp::min(::<.*>)?$|cmp::Ord>::min$|::min$"):
                                mins += [op_const_deep(b, a) for a in b.term(x[1])["args"] if op_const_deep(b, a) is not None]
                        # `x % C` is at most C - 1
                        seen_l, work = set(), [op]
                        while work:
                            o_ = work.pop()
                            pl_ = op_place(o_)
                            if pl_ is None:
                                continue
                            fs_ = [e["f"] for e in pl_.get("p", []) if isinstance(e, dict) and "f" in e]
                            if fs_:
                                # `let (q, r) = (x / C, x % C)`: the field of a tuple built in this body
                                for d in b.defs().get(pl_["l"], []):
                                    if d[0] == "stmt" and d[3]["k"] == "assign" and not d[3]["lhs"].get("p") and d[3]["rv"]["k"] == "agg" and d[3]["rv"].get("ak") == "tuple" and fs_[0] < len(d[3]["rv"]["fields"]):
                                        work.append(d[3]["rv"]["fields"][fs_[0]])
                                    elif d[0] == "stmt" and d[3]["k"] == "assign" and [e.get("f") for e in d[3]["lhs"].get("p", []) if isinstance(e, dict)] == fs_[:1]:
                                        rv2 = d[3]["rv"]
                                        if rv2["k"] in ("use", "cast"):
                                            work.append(rv2["op"])
                                        elif rv2["k"] == "bin" and rv2["op"] == "Rem" and op_const_deep(b, rv2["b"]) is not None:
                                            mins.append(op_const_deep(b, rv2["b"]) - 1)
                                continue
                            l = pl_["l"] if not pl_.get("p") else None
                            if l is None or l in seen_l:
                                continue
                            seen_l.add(l)
                            for d in b.defs().get(l, []):
                                if d[0] == "stmt" and d[3]["k"] == "assign":
                                    rv2 = d[3]["rv"]
                                    if rv2["k"] in ("use", "cast"):
                                        work.append(rv2["op"])
                                    elif rv2["k"] == "bin" and rv2["op"] == "Rem" and op_const_deep(b, rv2["b"]) is not None:
                                        mins.append(op_const_deep(b, rv2["b"]) - 1)
                        # `assert!((1..=C).contains(&x))`: a dominating test by RangeInclusive::contains whose false arm does not get here
                        for ci, ct in b.calls(r"RangeInclusive::<.*>::contains(::<.*>)?$|RangeToInclusive::<.*>::contains"):
                            if not b.dominates(ci, i) or len(ct["args"]) < 2 or not (b.origins(ct["args"][1]) & src):
                                continue
                            sw = b.succ[ci][0]
                            tsw = b.term(sw)
                            if tsw["k"] != "switch" or 0 not in tsw["vals"]:
                                continue
                            false_arm = tsw["targets"][tsw["vals"].index(0)]
                            if i in b.reachable(false_arm, avoid={sw}) or false_arm == i:
                                continue
                            ends = []
                            for x in b.origins(ct["args"][0]):
                                if x[0] == "call" and call_is(b.term(x[1]), r"RangeInclusive::<.*>::new$") and len(b.term(x[1])["args"]) == 2:
                                    ends.append(op_const_deep(b, b.term(x[1])["args"][1]))
                                if x[0] == "const" and isinstance(x[1], str):
                                    m_ = re.search(r"(\d+)\s*\.\.=\s*(\d+)", x[1])
                                    if m_:
                                        ends.append(int(m_.group(2)))
                            if not ends:
                                # a literal range is a promoted constant in MIR: read its bounds from the source expression
                                for n_ in hir_walk(F.tree(f)):
                                    if n_.get("k") == "call" and n_.get("ln") == ct.get("ln") and hcall_is(n_, r"RangeInclusive::<.*>::contains|RangeInclusive.*contains"):
                                        for a_ in [n_.get("recv") or {}] + list(n_.get("args") or []):
                                            m_ = re.search(r"\(?\s*(\d+)\s*\.\.=\s*(\d+)\s*\)?", a_.get("snip", "") or "")
                                            if m_:
                                                ends.append(int(m_.group(2)))
                            mins += [e for e in ends if e is not None]
                        best = min(bounds + mins) if bounds + mins else None
                        ok, how = best is not None and best <= MAXPAD, "bounded by %s" % best
                    nm = re.sub(r"<.*?>", "", f["name"]).split("::")[-1]
                    cx.ob("R15", "R15/%s/padding-at-most-16" % nm, ok, f, "Property::Padding(n) with n %s (a padding property describes 1 to 16 bytes)" % how, ln=st.get("ln"))
    if n < 2:
        raise AnchorLost("constructions of layout Property::Padding: %d" % n)


def r16_manifest_packs_keep_their_order(cx):
    """'recovers exactly the logical content': ManifestPackCreator keeps, next to the list of packs, values computed pack by
    pack in the same order (the ids of their free data in the value store) and zips them when the pack infos are written.
    Nothing reorders or filters `self.packs` in between (no sort / reverse / swap / retain / dedup / rotate): each pack
    info carries the free-data id that was computed for that very pack."""
    F = cx.F
    n = 0
    bad = []
    for f in F.live_fns:
        if "blocks" not in f or not re.search(r"manifest_pack::ManifestPackCreator", f["name"]):
            continue
        b = F.body(f)
        n += 1
        for i, t in b.calls(r"::(par_)?sort(_unstable)?(_by|_by_key|_by_cached_key)?(::<.*>)?$", r"::reverse$", r"::swap(_remove)?$", r"::retain(_mut)?(::<.*>)?$", r"::dedup(_by|_by_key)?(::<.*>)?$", r"::rotate_(left|right)$", r"::drain(::<.*>)?$", r"::truncate$"):
            if not b.is_cleanup(i) and t["args"] and ("field", "packs") in b.origins(t["args"][0]):
                bad.append("%s:%s %s" % (re.sub(r"<.*?>", "", f["name"]).split("::")[-1], t.get("ln"), callee_str(t).split("::<")[0].split("::")[-1]))
    if n < 2:
        raise AnchorLost("functions of ManifestPackCreator: %d" % n)
    cx.ob("R16", "R16/ManifestPackCreator/packs-keep-their-order", not bad, "src/creator/manifest_pack.rs (impl ManifestPackCreator)", "no function of ManifestPackCreator reorders or filters self.packs (%s)" % (bad or "none"))


RULES = [
    ("R16", r16_manifest_packs_keep_their_order, 1),
    ("R15", r15_padding_fits_its_nibble, 2),
    ("R14", r14_every_value_takes_part_in_the_sizing, 1),
    ("R13", r13_tables_are_single_blocks, 5),
    ("R12", r12_widths_chosen_on_final_positions, 7),
    ("R11", r11_offset_widths, 3),
    ("R10", r10_stored_positions_are_pack_relative, 4),
    ("R9", r9_counts_are_not_truncated, 5),
    ("R2", r2c_content_address_key_byte, 1),
    ("R8", r8_cluster_pointers_are_tail_offsets, 3),
    ("R7", r7_plain_store_size_matches_data, 2),
    ("R1", r1_layouts, 80),
    ("R2", r2_encodings, 18),
    ("R2", r2b_content_info_packing, 6),
    ("R3", r3_tags, 16),
    ("R4", r4_version, 2),
    ("R5", r5_pack_size, 5),
    ("R6", r6_mirror, 4),
]
