"""C10 — a container reads the same however its packs are packaged.
Structural clauses: R1 lookup chain order (enclosing container by uuid first, then recorded
location); R2 whole-file readers must pass the container-aware opener before a pack constructor;
R3 tail fallback reachable; R4 declared pack size = bytes written; R5 concat / locator records."""
import re
from lib import *
import ref, streams

PROPERTY = "C10"
EXPLANATION = ("Decided from MIR facts: (R1) Container::new_with_locator chains [container opened from the file at hand, caller's "
               "locator] in that order, ChainedLocator::locate returns the first Some in vector order, and ContainerPack::locate "
               "answers by uuid alone (no branch on the recorded path); (R2) no Reader over a whole file (Reader::from(FileSource)) "
               "reaches ContentPack::new / DirectoryPack::new / ManifestPack::new without passing the container-aware opener "
               "(open_as_container_pack / ContainerPack::new + uuid lookup), followed through returns and the PackLocatorTrait "
               "dispatch; (R3) in open_as_container_pack the block reading the mirrored tail header is reachable when the parse at "
               "offset 0 fails; (R4) every creator declares pack_size = check position + the check block it writes + 64; (R5) "
               "ContainerPackCreator::add_pack / InContainerFile::close record offset = position before, size = after - before. "
               "Equality of the logical dump across packagings is not decided."
               " (R6) tools::concat copies every pack whole under its own uuid; (R7) the manifest search visits every pack (only exits: next pack, error, Ok(Some(pack at hand))); (R8) locations recorded by BasicCreator::finalize are empty or made relative with diff_utf8_paths."
               ' Added later: (R9) the size declared by a tail header is bounded by reader.size() itself and may equal it. (R10) Container::new looks for other packs next to the path it was given (no canonicalisation). (R1) every locator list built in new_with_locator is the full chain [container, caller\'s locator].')
EXPLANATION += ' Batch 11: (R11) no type implementing PackLocatorTrait has an interior-mutable field (a locator keeps no memory between two calls).'
ASSUMPTIONS = ["std::io seek/tell semantics", "HashMap lookup by uuid", "rustc MIR construction and trait resolution"]

CONSTRUCTORS = (r"content_pack::ContentPack::new$", r"directory_pack::DirectoryPack::new$", r"manifest_pack::ManifestPack::new$")
OPENERS = (r"jubako::open_as_container_pack$", r"container_pack::ContainerPack::new$", r"container_pack::ContainerPack::new_fake$")
TRANSPARENT = (r"Try>::branch$", r"Arc::<.*>::new$", r"Box::<.*>::new$", r"Clone>::clone$", r"Option::<.*>::unwrap$", r"Result::<.*>::unwrap$",
               r"Option::<.*>::expect$", r"Into<.*>>::into$", r"From<.*>>::from$", r"Option::<.*>::map", r"Result::<.*>::map", r"Some$", r"Ok$",
               r"Option::<.*>::ok_or", r"Deref>::deref$", r"Reader::cut$", r"MayMissPack")
SOURCE = r"Reader as std::convert::From<bases::io::file::FileSource>>::from$|Reader as .*From<.*FileSource>>::from$"


def r1_chain(cx):
    F = cx.F
    f = F.one(impl_self="reader::jubako::Container", item="new_with_locator", closure=False)
    b = F.body(f)
    cl = b.calls(r"ChainedLocator::new$")
    cx.ob("R1", "R1/new_with_locator/one-chain", len(cl) == 1, f, "Container::new_with_locator builds exactly one ChainedLocator (found %d)" % len(cl))
    if len(cl) == 1:
        # every list of locators built here (the chain is the same on every path: a "shorter" chain on some condition
        # stops looking at the recorded location for the packs the condition misjudges)
        arrs = []
        for blk in b.blocks:
            for s in blk["s"]:
                if s["k"] == "assign" and s["rv"]["k"] == "agg" and s["rv"]["ak"] == "array" and "PackLocatorTrait" in s["rv"].get("elem", ""):
                    arrs.append(s)
        ok = bool(arrs)
        msg = "locator array not found"
        for arr in arrs:
            if len(arr["rv"]["fields"]) != 2:
                ok = False
                msg = "a list of %d locator(s) is built at line %s: the chain is [container opened from the given file, caller's locator] on every path" % (len(arr["rv"]["fields"]), arr.get("ln"))
                break
            f0 = b.origins(arr["rv"]["fields"][0])
            f1 = b.origins(arr["rv"]["fields"][1])
            first_is_container = any(o[0] == "call" and call_is(b.term(o[1]), r"jubako::open_as_container_pack$") for o in f0)
            second_is_param = ("param", 2) in f1 and not any(o[0] == "call" and call_is(b.term(o[1]), r"open_as_container_pack$") for o in f1)
            ok = ok and first_is_container and second_is_param
            msg = "locators = [container opened from the given file, caller's locator]: first-from-open_as_container_pack=%s second-is-parameter=%s" % (first_is_container, second_is_param)
        cx.ob("R1", "R1/new_with_locator/order", ok, f, msg, ln=cl[0][1].get("ln"))
        # the directory pack and the content packs are located through that chain
        loc = b.calls(r"PackLocatorTrait>::locate$")
        cx.ob("R1", "R1/new_with_locator/directory-through-chain", len(loc) == 1 and call_is(loc[0][1], r"ChainedLocator as .*>::locate$"), f,
              "the directory pack is located through the ChainedLocator")
    g = F.one(impl_self="ChainedLocator", item="locate", trait="PackLocatorTrait", closure=False)
    gb = F.body(g)
    it = gb.calls(r"<&std::vec::Vec<.*> as std::iter::IntoIterator>::into_iter$")
    nx = gb.calls(r"slice::Iter<.*> as std::iter::Iterator>::next$")
    if not it or not nx:
        # the same forward walk with the position attached: `self.0.iter().enumerate()`
        nx = [(i, t) for i, t in gb.calls(r"Iterator>::next$") if "Enumerate<std::slice::Iter<" in callee_str(t)]
        it = [(i, t) for i, t in gb.calls(r"IntoIterator>::into_iter$") if ("field", "0") in gb.origins(t["args"][0])][:1]
    vloc = gb.calls(r"PackLocatorTrait>::locate$")
    adapters = [callee_str(t) for i, t in gb.calls(r"::(rev|skip|take|filter|step_by|skip_while|take_while)(::<.*>)?$")]
    ok = len(it) == 1 and len(nx) == 1 and len(vloc) == 1 and not adapters
    if ok:
        N, L = nx[0][0], vloc[0][0]
        # the test "did this locator know the pack": a switch on is_some()/is_none() or on the discriminant of an
        # Option that derives from the locate call
        some_arms = []
        for sblk in gb.reach_after(L, avoid={N}):
            t = gb.term(sblk)
            if t["k"] != "switch" or gb.is_cleanup(sblk):
                continue
            d = op_local(t["op"])
            for df in gb.defs().get(d, []) if d is not None else []:
                if df[0] == "stmt" and df[3]["rv"]["k"] == "discr" and df[3]["rv"].get("of", "").startswith("std::option::Option") and ("call", L) in gb.origins(df[3]["rv"]["pl"]["l"]):
                    some_arms.append(t["targets"][t["vals"].index(1)] if 1 in t["vals"] else t["otherwise"])
                if df[0] == "call" and call_is(df[2], r"Option::<.*>::is_some$") and ("call", L) in gb.origins(df[2]["args"][0]):
                    some_arms.append(t["otherwise"] if 0 in t["vals"] else t["targets"][t["vals"].index(1)])
                if df[0] == "call" and call_is(df[2], r"Option::<.*>::is_none$") and ("call", L) in gb.origins(df[2]["args"][0]):
                    some_arms.append(t["targets"][t["vals"].index(0)] if 0 in t["vals"] else t["otherwise"])
        ok = bool(some_arms)
        for some_t in some_arms:
            # the Some arm returns the located reader without asking the next locator
            r = gb.reachable(some_t)
            ok = ok and N not in r and any(gb.term(x)["k"] == "return" for x in r) and \
                any(o == ("call", L) for (i, fld) in _oks(gb) if i in r for o in gb.origins(fld))
        # uuid and path are forwarded unchanged
        ok = ok and ("param", 2) in gb.origins(vloc[0][1]["args"][1], through_calls=False) and ("param", 3) in gb.origins(vloc[0][1]["args"][2], through_calls=False)
    if not nx and not adapters:
        # the same search written with the standard combinator: `self.0.iter().find_map(|l| l.locate(uuid, path).transpose()).transpose()`
        # (Iterator::find_map stops at the first Some -- here the first Some(reader) or the first error -- in iteration order)
        fm = gb.calls(r"Iterator>::find_map::<")
        if len(fm) == 1 and ("field", "0") in gb.origins(fm[0][1]["args"][0]):
            cls = [c for c in F.closures_of(g) if "blocks" in c]
            good = []
            for c in cls:
                cb = F.body(c)
                lc = cb.calls(r"PackLocatorTrait>::locate$")
                if len(lc) != 1 or ("call", lc[0][0]) not in cb.origins(0):
                    continue
                if not (("param", 1) in cb.origins(lc[0][1]["args"][1]) and ("param", 1) in cb.origins(lc[0][1]["args"][2]) and ("param", 2) in cb.origins(lc[0][1]["args"][0])):
                    continue
                caps = [st for blk in gb.blocks for st in blk["s"] if st["k"] == "assign" and st["rv"]["k"] == "agg" and st["rv"].get("closure_fn") == c["id"]]
                co = set()
                for st in caps:
                    for fo in st["rv"]["fields"]:
                        co |= gb.origins(fo)
                if not (("param", 2) in co and ("param", 3) in co):
                    continue
                # Result<Option<_>> -> Option<Result<_>>: inside the closure, or `.map(closure).find_map(Result::transpose)`
                tr_in = [x for x in cb.calls(r"Result::<std::option::Option<.*>, .*>::transpose$") if ("call", lc[0][0]) in cb.origins(x[1]["args"][0])]
                fn_arg = fm[0][1]["args"][1].get("c", {}).get("fn", "") if isinstance(fm[0][1]["args"][1], dict) else ""
                other_tr = False
                for c2 in cls:
                    if c2 is c:
                        continue
                    c2b = F.body(c2)
                    t2 = c2b.calls(r"Result::<std::option::Option<.*>, .*>::transpose$")
                    if len(t2) == 1 and len(c2b.calls(r".")) == 1 and ("param", 2) in c2b.origins(t2[0][1]["args"][0]) and ("call", t2[0][0]) in c2b.origins(0):
                        other_tr = True
                tr_out = (bool(re.search(r"Result::<.*>::transpose$|result::Result::transpose$", fn_arg or "")) or other_tr) and bool(gb.calls(r"Iterator>::map::<"))
                if tr_in or tr_out:
                    good.append(c)
            outer = gb.calls(r"Option::<std::result::Result<.*>>::transpose$")
            ok = len(good) == 1 and len(outer) == 1 and ("call", fm[0][0]) in gb.origins(outer[0][1]["args"][0]) and ("call", outer[0][0]) in gb.origins(0)
    # no answer without asking the chain: every return passes the loop (or the find_map), and the locator keeps no state
    ask = {i for i, _ in nx} | {i for i, _ in gb.calls(r"Iterator>::find_map::<")}
    asks_always = bool(ask) and gb.must_pass_before_return(ask, success_only=False)
    st = F.struct("reader::locator::ChainedLocator")
    stateful = [f_["name"] for f_ in st["fields"] if re.search(r"Mutex|RwLock|Cell|Atomic|Once|HashSet|HashMap|BTree", f_["ty"])]
    cx.ob("R1", "R1/ChainedLocator.locate/stateless", asks_always and not stateful, g,
          "every answer of ChainedLocator::locate comes from asking the locators now (no early answer before the loop; no cache field: %s)" % stateful)
    cx.ob("R1", "R1/ChainedLocator.locate/first-some-wins", ok, g, "ChainedLocator::locate iterates the vector forward and returns the first Some(reader), forwarding (uuid, path) unchanged")
    h = F.one(impl_self="ContainerPack", item="locate", trait="PackLocatorTrait", closure=False)
    hb = F.deep_body(h, only=r"container_pack::ContainerPack::")     # through the pack's own accessors (get_pack_reader)
    gp = hb.calls(r"HashMap::<uuid::Uuid, bases::reader::Reader>::get")
    ok = len(gp) == 1 and ("param", 2) in hb.origins(gp[0][1]["args"][1])
    sw = [s for s in range(hb.n) if hb.term(s)["k"] == "switch" and not hb.is_cleanup(s)]
    path_dep = [s for s in sw if ("param", 3) in hb.origins(hb.term(s)["op"])]
    oks = _oks(hb)
    ok = ok and not path_dep and len(oks) >= 1 and all(any(o == ("call", gp[0][0]) for o in hb.origins(fld)) for _, fld in oks)
    cx.ob("R1", "R1/ContainerPack.locate/by-uuid-only", ok, h,
          "ContainerPack::locate answers get_pack_reader(&uuid) and never branches on the recorded path (path-dependent switches: %d)" % len(path_dep))
    k = F.one(impl_self="ContainerPack", item="get_pack_reader", closure=False)
    kb = F.body(k)
    hm = kb.calls(r"HashMap::<.*>::get")
    cx.ob("R1", "R1/ContainerPack.get_pack_reader/keyed-by-uuid", len(hm) == 1 and ("param", 2) in kb.origins(hm[0][1]["args"][1]) and ("param", 1) in kb.origins(hm[0][1]["args"][0]) and any(x[0] == "field" for x in kb.origins(hm[0][1]["args"][0])), k,
          "get_pack_reader looks the uuid up in self.packs")


def _oks(b):
    out = []
    for i, blk in enumerate(b.blocks):
        if blk.get("cleanup"):
            continue
        for s in blk["s"]:
            if s["k"] == "assign" and s["rv"]["k"] == "agg" and s["rv"].get("adt", "").endswith("Result") and s["rv"].get("variant") == "Ok":
                out.append((i, s["rv"]["fields"][0]))
    return out


def _taint_uses(F, f, seeds):
    """forward taint of whole-file Reader values inside f. Returns (bad sinks, escapes_by_return, cleansed)"""
    b = F.body(f)
    taint = set(seeds)
    changed = True
    while changed:
        changed = False
        nt = b.forward_locals(taint, through_calls=False)
        if nt - taint:
            taint |= nt
            changed = True
        for i, t in b.calls():
            if any(op_base_local(a) in taint for a in t["args"]) and call_is(t, *TRANSPARENT) and not call_is(t, *OPENERS) and not call_is(t, *CONSTRUCTORS):
                if t["dest"]["l"] not in taint:
                    taint.add(t["dest"]["l"])
                    changed = True
    bad, cleansed = [], []
    for i, t in b.calls():
        if not any(op_base_local(a) in taint for a in t["args"]):
            continue
        if call_is(t, *CONSTRUCTORS):
            bad.append((i, t))
        elif call_is(t, *OPENERS):
            cleansed.append((i, t))
    return bad, (0 in taint), cleansed, taint


def r2_whole_file(cx):
    F = cx.F
    n_src = 0
    work = []  # (function, seed locals, description)
    for f in F.live_fns:
        if "blocks" not in f:
            continue
        b = None
        for i, blk in enumerate(f["blocks"]):
            t = blk["t"]
            if blk.get("cleanup") or not call_is(t, SOURCE):
                continue
            b = b or F.body(f)
            work.append((f, {t["dest"]["l"]}, "Reader::from(FileSource) at %s" % F.loc(f, t.get("ln")), 0))
            n_src += 1
    seen = set()
    ti = F.trait_impl_index()
    while work:
        f, seeds, what, depth = work.pop()
        key = (f["id"], tuple(sorted(seeds)))
        if key in seen:
            continue
        seen.add(key)
        bad, escapes, cleansed, taint = _taint_uses(F, f, seeds)
        cx.ob("R2", "R2/%s@d%d" % (f["name"], depth), not bad, f,
              "whole-file reader (%s) must not reach a pack constructor without the container-aware opener; reaches: %s; opener calls on it: %s" % (
                  what, [callee_str(t) + "@" + str(t.get("ln")) for _, t in bad], [callee_str(t).split("::")[-1] for _, t in cleansed]))
        if escapes and depth < 3:
            # callers of f (directly, or through the trait method it implements) receive a whole-file reader
            targets = {f["id"]}
            trait_items = [it for it, fns in ti.items() if f["id"] in fns]
            for g in F.live_fns:
                if "blocks" not in g or g["id"] == f["id"]:
                    continue
                gb = None
                for i, blk in enumerate(g["blocks"]):
                    t = blk["t"]
                    if t["k"] != "call" or blk.get("cleanup"):
                        continue
                    c = t.get("callee") or {}
                    hit = c.get("rfn") in targets or (c.get("def") in trait_items and c.get("rkind") in ("virtual", "unresolved")) or (c.get("def") in trait_items and c.get("rfn") is None)
                    if hit:
                        work.append((g, {t["dest"]["l"]}, "result of %s (returns a whole-file reader)" % f["name"], depth + 1))
    cx.ob("R2", "R2/sources", n_src >= 3, "(whole program)", "whole-file reader sources found: %d (Container::new_with_locator, FsLocator::locate, tools::open_pack expected)" % n_src)


def r3_tail_fallback(cx):
    F = cx.F
    f = F.one(name="reader::jubako::open_as_container_pack")
    b = F.body(f)
    rev = b.calls(r"::reverse$")
    U = b.calls(r"Reader::parse_block_unchecked_at::<.*PackHeader>$")
    ok = len(rev) == 1 and len(U) == 1
    cx.ob("R3", "R3/anchors", ok, f, "open_as_container_pack has one unchecked header parse and one mirrored-tail read (found %d/%d)" % (len(U), len(rev)))
    if not ok:
        return
    T = rev[0][0]
    ui, ut = U[0]
    # switches on the discriminant of U's result (directly or after Try::branch)
    res_locals = b.whole_copies({ut["dest"]["l"]})
    for i, t in b.calls(r"Try>::branch$"):
        if op_base_local(t["args"][0]) in res_locals:
            res_locals |= b.whole_copies({t["dest"]["l"]})
    err_succ = []
    for s in range(b.n):
        t = b.term(s)
        if t["k"] != "switch" or b.is_cleanup(s):
            continue
        l = op_local(t["op"])
        for d in b.defs().get(l, []):
            if d[0] == "stmt" and d[3]["rv"]["k"] == "discr" and d[3]["rv"]["pl"]["l"] in res_locals and not d[3]["rv"]["pl"].get("p"):
                if 1 in t["vals"]:
                    err_succ.append(t["targets"][t["vals"].index(1)])
                else:
                    err_succ.append(t["otherwise"])
    ok = bool(err_succ) and all(T in b.reachable(e) for e in err_succ)
    cx.ob("R3", "R3/reachable-when-offset0-is-not-a-header", ok, f,
          "when the unchecked parse at offset 0 fails, the block reading the mirrored header at the end is still reachable (error arms: %d, all reach it: %s)" % (len(err_succ), ok), ln=ut.get("ln"))
    # origin computed from the tail: size() - file_size
    cuts = b.calls(r"Reader::cut$")
    cx.ob("R3", "R3/cut-to-declared-size", len(cuts) >= 1 and all(("field", "file_size") in b.origins(t["args"][2]) for _, t in cuts), f,
          "the opened pack is cut to [origin, origin + declared file_size)")


def r4_pack_size(cx):
    import c14
    c14.r5_pack_size(cx, rule="R4")


def r5_locators(cx):
    F = cx.F
    f = F.one(impl_self="ContainerPackCreator", item="add_pack", closure=False)
    b = F.body(f)
    tells = b.calls(r"OutStream>::tell$")
    cp = b.calls(r"std::io::copy")
    pl = b.calls(r"PackLocator::new$")
    ok = len(tells) == 2 and len(cp) == 1 and len(pl) == 1
    if ok:
        before = [i for i, _ in tells if b.dominates(i, cp[0][0])]
        after = [i for i, _ in tells if b.dominates(cp[0][0], i)]
        ok = len(before) == 1 and len(after) == 1
        if ok:
            off = {o[1] for o in b.origins(pl[0][1]["args"][2]) if o[0] == "call" and call_is(b.term(o[1]), r"tell$")}
            size = {o[1] for o in b.origins(pl[0][1]["args"][1]) if o[0] == "call" and call_is(b.term(o[1]), r"tell$")}
            sub = any(call_is(t, r"Sub.*>::sub$") for _, t in b.origin_calls(pl[0][1]["args"][1]))
            ok = off == {before[0]} and size == {before[0], after[0]} and sub and ("param", 2) in b.origins(pl[0][1]["args"][0])
    cx.ob("R5", "R5/add_pack", ok, f, "add_pack records PackLocator(uuid, tell_after - tell_before, tell_before) around the copy")
    g = F.one(impl_self="InContainerFile", item="close", closure=False, trait="")
    gb = F.body(g)
    pl = gb.calls(r"PackLocator::new$")
    ok = len(pl) == 1
    if ok:
        size_calls = [t for _, t in gb.origin_calls(pl[0][1]["args"][1]) if call_is(t, r"Seek>::seek$")]
        off_calls = [t for _, t in gb.origin_calls(pl[0][1]["args"][2]) if call_is(t, r"Seek>::stream_position$")]
        seek_end_on_skip = any(streams.seek_variant(gb, t)[0] == "End" and "Skip" in callee_str(t) for t in size_calls)
        # the inner file is positioned at the Skip origin before its position is taken
        s0 = [i for i, t in gb.calls(r"Seek>::seek$") if streams.seek_variant(gb, t)[0] == "Start" and "Skip" in callee_str(t)] + \
             [i for i, t in gb.calls(r"Seek>::rewind$") if "Skip" in callee_str(t)]       # rewind() = seek(Start(0))
        sp = gb.calls(r"Seek>::stream_position$")
        pos_ok = len(sp) == 1 and bool(s0) and gb.dominates(s0[0], sp[0][0]) and bool(off_calls)
        ok = seek_end_on_skip and pos_ok and ("param", 2) in gb.origins(pl[0][1]["args"][0])
    cx.ob("R5", "R5/InContainerFile.close", ok, g, "close records PackLocator(uuid, size = seek(End(0)) relative to the Skip origin, offset = position of the inner file at the Skip origin)")


def r6_concat(cx):
    """tools::concat copies every pack of every input container whole, under its own uuid"""
    F = cx.F
    f = F.one(name="tools::concat")
    b = F.body(f)
    op = b.calls(r"tools::open_pack::<")
    it = b.calls(r"ContainerPack::iter$")
    ap = b.calls(r"ContainerPackCreator::<.*>::add_pack::<")
    cs = b.calls(r"Reader::create_stream$")
    fz = b.calls(r"ContainerPackCreator::<.*>::finalize$")
    ok = len(op) == 1 and len(it) == 1 and len(ap) == 1 and len(cs) == 1 and len(fz) == 1
    if ok:
        t = cs[0][1]
        size_calls = [callee_str(x[1]) for x in b.origin_calls(t["args"][2], through_calls=False)]
        whole = any(call_is(x[1], r"Offset::zero$") for x in b.origin_calls(t["args"][1])) and bool(size_calls) and all(re.search(r"Reader::size$", c) for c in size_calls) \
            and not any(x[0] == "const" and isinstance(x[1], int) and not isinstance(x[1], bool) for x in b.origins(t["args"][2]))
        nxt = [i for i, tt in b.calls(r"Iterator>::next$") if any(x == ("call", it[0][0]) for x in b.origins(tt["args"][0]))]
        same_item = bool(nxt) and any(x[0] == "call" and x[1] in nxt for x in b.origins(ap[0][1]["args"][1])) and any(x == ("call", cs[0][0]) for x in b.origins(ap[0][1]["args"][2])) \
            and any(x[0] == "call" and x[1] in nxt for x in b.origins(t["args"][0]))
        loops = ap[0][0] in b.reach_after(ap[0][0]) and ap[0][0] not in b.reach_after(fz[0][0])
        ok = whole and same_item and loops
    cx.ob("R6", "R6/concat", ok, f, "concat: for every (uuid, reader) of every input: add_pack(uuid, reader.create_stream(0, reader.size())) then finalize")


def r7_manifest_search_is_order_independent(cx):
    """'re-assembled by concatenation in any order': the search for the manifest among the packs of a container visits
    every pack until the manifest is found -- the only exits of the loop are exhaustion, an error, or `magic == Manifest`"""
    F = cx.F
    f = F.method("reader::container_pack::ContainerPack", "get_manifest_pack_reader")
    b = F.body(f)
    nx = b.calls(r"Iterator>::next$", r"DoubleEndedIterator>::next_back$")
    if len(nx) != 1:
        raise AnchorLost("get_manifest_pack_reader: expected one loop over the packs, found %d" % len(nx))
    n = nx[0][0]
    # the iterated collection: all packs of the container, no adapter that drops elements
    adapters = [callee_str(t) for i, t in b.calls(r".") if re.search(r"::(skip|take|take_while|skip_while|filter|filter_map|step_by|find|position|last|nth|next|next_back|max|min|max_by_key|min_by_key)(::<.*>)?$", callee_str(t)) and i != n]
    # (the map uuid -> reader, or the vector of uuids in insertion order: both hold every pack of the container)
    src_ok = any(("param", 1) in b.origins(t["args"][0]) and any(x[0] == "field" for x in b.origins(t["args"][0])) and re.search(r"HashMap<uuid::Uuid, bases::reader::Reader>|hash_map::Values<.*uuid::Uuid, bases::reader::Reader>|Vec<uuid::Uuid>|slice::Iter<.*uuid::Uuid>|Rev<", callee_str(t))
                 for i, t in b.calls(r"IntoIterator>::into_iter$"))
    cx.ob("R7", "R7/manifest-search/over-all-packs", src_ok and not adapters, f,
          "the loop iterates self.packs / self.packs_uuid with no element-dropping adapter (adapters: %s)" % adapters)
    # the match on the result of next(): its None arm leaves the loop legitimately (exhaustion)
    disc = None
    for x in b.succ[n]:
        y = x
        while b.blocks[y]["t"]["k"] == "goto":
            y = b.succ[y][0]
        if b.blocks[y]["t"]["k"] == "switch":
            disc = y
    if disc is None:
        raise AnchorLost("get_manifest_pack_reader: no match on the result of next()")
    t = b.blocks[disc]["t"]
    some_tgts = [tgt for val, tgt in zip(t["vals"], t["targets"]) if val == 1]
    # every way out of the loop body other than the next iteration or an error hands back the pack at hand
    # (`Ok(Some(reader))`): a path that gives up (`break`, `return Ok(None)`) on some other pack is an early exit
    region = b.reachable(some_tgts, avoid={n} | b.error_blocks() | b.err_return_blocks())
    gives_up = []
    found = 0
    for x in sorted(region):
        for st in b.blocks[x]["s"]:
            if st["k"] == "assign" and st["lhs"]["l"] == 0 and not st["lhs"].get("p") and st["rv"]["k"] == "agg" and st["rv"].get("variant") == "Ok":
                fo = b.origins(st["rv"]["fields"][0], through_calls=True)
                inner = [d for d in b.defs().get(op_local(st["rv"]["fields"][0]), []) if d[0] == "stmt" and d[3]["rv"]["k"] == "agg"]
                if inner and all(d[3]["rv"].get("variant") == "Some" for d in inner) and any(o[0] == "call" and call_is(b.term(o[1]), r"Clone>::clone$") for o in fo):
                    found += 1
                else:
                    gives_up.append(st.get("ln"))
    escaped = gives_up
    some_tgts = some_tgts if found else []
    cx.ob("R7", "R7/manifest-search/no-early-exit", bool(some_tgts) and not escaped, f,
          "from the body of the loop over the packs, the only ways out are the next iteration, an error, or `Ok(Some(<the pack at hand>))`: no path gives up the search on a pack of another kind (lines %s)" % gives_up)


def r8_recorded_locations_are_relative(cx):
    """'shipped' packagings are read from wherever the files are: a location recorded in the manifest by the creator is
    empty (pack embedded in the file at hand) or relative to the manifest's directory -- the absolute path returned by
    close_file() never reaches ManifestPackCreator::add_pack without passing diff_utf8_paths(.., parent of the manifest)"""
    F = cx.F
    f = F.one(impl_self="BasicCreator", item="finalize", closure=False)
    b = F.body(f)
    ap = b.calls(r"ManifestPackCreator::add_pack::<")
    if len(ap) < 3:
        raise AnchorLost("BasicCreator::finalize: add_pack sites: %d" % len(ap))

    def relativiser(t):
        if call_is(t, r"pathdiff::diff_utf8_paths", r"pathdiff::diff_paths"):
            return True
        c = t.get("callee") or {}
        gid = c.get("rfn") if c.get("rfn") is not None else c.get("def_fn")
        if gid is not None and "blocks" in F.fns[gid]:
            return bool(F.body(F.fns[gid]).calls(r"pathdiff::diff_utf8_paths", r"pathdiff::diff_paths"))
        return False
    cf = {i for i, _ in b.calls(r"PackRecipient>::close_file$")}
    # "an empty location is kept as it is": an arm selected by `<path>.is_empty()` hands the (empty) value through
    # unchanged -- the blocks under such a test are not a way around the relativisation
    under_empty_test = set()
    for sblk in range(b.n):
        tt = b.term(sblk)
        if tt["k"] == "switch" and any(x[0] == "call" and call_is(b.term(x[1]), r"::is_empty$") for x in b.origins(tt["op"], through_calls=False)):
            for x in range(b.n):
                if x != sblk and sblk in b.control_dep_switches(x):
                    under_empty_test.add(x)
    considered = set(range(b.n)) - under_empty_test
    for k, (i, t) in enumerate(sorted(ap, key=lambda x: x[1].get("ln", 0))):
        o = b.origins(t["args"][2], stop_call=relativiser, blocks=considered)
        raw = sorted(b.term(x[1]).get("ln") for x in o if x[0] == "call" and x[1] in cf)
        cx.ob("R8", "R8/finalize/add_pack#%d-location-is-relative" % k, not raw, f,
              "the location given to add_pack is empty or made relative to the manifest's directory (absolute close_file() results reaching it unrelativised: lines %s)" % raw, ln=t.get("ln"))


def r9_tail_pack_may_fill_the_file(cx):
    """'embedded at the end of another file': a pack found through its mirrored tail header occupies the last
    `file_size` bytes of the file, *including* the 64 bytes of that tail and possibly the whole file. The only bound
    on the declared size is therefore the size of the file itself -- the comparison that rejects a declared size uses
    `reader.size()` as it is (no arithmetic on it) and lets `file_size == reader.size()` through."""
    F = cx.F
    f = F.one(regex=r"reader::jubako::open_as_container_pack$")
    b = F.body(f)
    cmps = []
    for i, t in b.calls(r"cmp::PartialOrd>::(gt|ge|lt|le)$"):
        oa, ob = b.origins(t["args"][0]), b.origins(t["args"][1])
        if ("field", "file_size") in oa and ("field", "file_size") not in ob:
            cmps.append((i, t, 0, ob))
        elif ("field", "file_size") in ob and ("field", "file_size") not in oa:
            cmps.append((i, t, 1, oa))
    if not cmps:
        raise AnchorLost("open_as_container_pack: no comparison of the declared file_size")
    cuts = [i for i, _ in b.calls(r"Reader::cut$")]
    for k, (i, t, fs_pos, other) in enumerate(cmps):
        op = re.search(r"(gt|ge|lt|le)$", callee_str(t)).group(1)
        rel = {"gt": lambda x, y: x > y, "ge": lambda x, y: x >= y, "lt": lambda x, y: x < y, "le": lambda x, y: x <= y}[op]
        cond = (lambda fs, sz: rel(fs, sz)) if fs_pos == 0 else (lambda fs, sz: rel(sz, fs))
        # which outcome of the comparison goes on to cut the pack out of the file?
        verdict = None
        if True:
            # which outcome of the comparison goes on to cut the pack out of the file: constant propagation from the
            # comparison on, with its result assumed (an error built in a helper and sent up with `?` stays an error)
            errs = b.error_blocks() | b.err_return_blocks()
            on_true = any(c in b.explore(start=i, assume_calls={i: True}, avoid=errs)[0] for c in cuts)
            on_false = any(c in b.explore(start=i, assume_calls={i: False}, avoid=errs)[0] for c in cuts)
            if on_true != on_false:
                accepts = (lambda fs, sz: cond(fs, sz)) if on_true else (lambda fs, sz: not cond(fs, sz))
                verdict = accepts(100, 100) and accepts(99, 100) and not accepts(101, 100)
        arith = sorted({callee_str(b.term(x[1])).split("::")[-1] for x in other if x[0] == "call" and call_is(b.term(x[1]), r"ops::(Sub|Add)(<.*>)?>::(sub|add)$", r"(checked|saturating|wrapping)_(sub|add)$")})
        consts = sorted(x[1] for x in other if x[0] == "const" and isinstance(x[1], int) and not isinstance(x[1], bool))
        from_size = any(x[0] == "call" and call_is(b.term(x[1]), r"Reader::size$") for x in other)
        cx.ob("R9", "R9/open_as_container_pack/declared-size-bounded-by-the-file-size#%d" % k, bool(verdict) and from_size and not arith and not consts, f,
              "the declared size of a pack found through its tail is accepted up to and including reader.size() itself (accepts equal/smaller and rejects larger: %s; bound from Reader::size: %s; arithmetic on the bound: %s %s)" % (verdict, from_size, arith, consts), ln=t.get("ln"))


def r10_packs_are_looked_for_next_to_the_file_given(cx):
    """'then through their recorded location': a recorded location is relative to the directory of the file that was
    opened -- the path the caller gave, as given. `Container::new` hands `path.parent()` to the file locator and does not
    resolve the path first (`canonicalize`, `read_link`): a container opened through a symbolic link would otherwise look
    for its other packs next to the link's target."""
    F = cx.F
    f = F.one(impl_self="reader::jubako::Container", item="new", closure=False, trait="")
    b = F.body(f)
    fl = b.calls(r"locator::FsLocator::new$")
    if len(fl) != 1:
        raise AnchorLost("Container::new: %d FsLocator::new" % len(fl))
    o = b.origins(fl[0][1]["args"][0])
    resolved = sorted({callee_str(b.term(x[1])).split("::")[-1] for x in o if x[0] == "call" and call_is(b.term(x[1]), r"canonicalize$", r"read_link$", r"fs::", r"env::current_dir$", r"absolute$")})
    parent = any(x[0] == "call" and call_is(b.term(x[1]), r"Path::parent$") for x in o)
    cx.ob("R10", "R10/Container.new/base-directory-is-the-parent-of-the-path-given", parent and ("param", 1) in o and not resolved, f,
          "FsLocator::new receives path.parent() of the path given (from Path::parent: %s), not a resolved path (resolving calls: %s)" % (parent, resolved), ln=fl[0][1].get("ln"))


def r11_locators_keep_no_memory(cx):
    """'a pack is found by its identity in the file at hand and then at its recorded location': `locate(&self, uuid, location)`
    answers from the files as they are now. A locator with interior-mutable state (a cache keyed by location, by name, a
    "last answer") can hand the reader of one pack to the request for another: none of the types implementing
    PackLocatorTrait has a field with interior mutability."""
    F = cx.F
    ims = F.impls_of("PackLocatorTrait")
    if len(ims) < 3:
        raise AnchorLost("impls of PackLocatorTrait: %d" % len(ims))
    for im in ims:
        st = F.struct(re.sub(r"<.*", "", im["self"]))
        if not st:
            raise AnchorLost("struct %s" % im["self"])
        mut = [(fl["name"], fl["ty"]) for fl in st["fields"] if re.search(r"\b(Mutex|RwLock|RefCell|Cell|OnceLock|OnceCell|LazyLock|LazyCell|Atomic\w+|UnsafeCell|DashMap|LruCache)\b", fl["ty"])]
        cx.ob("R11", "R11/%s/keeps-no-memory" % im["self"].split("::")[-1], not mut, "%s:%s (struct %s)" % (im["file"], im["line"], im["self"]),
              "%s can remember nothing between two calls of locate(&self, ..): fields with interior mutability: %s" % (im["self"].split("::")[-1], mut or "none"))


RULES = [
    ("R11", r11_locators_keep_no_memory, 3),
    ("R10", r10_packs_are_looked_for_next_to_the_file_given, 1),
    ("R9", r9_tail_pack_may_fill_the_file, 1),
    ("R8", r8_recorded_locations_are_relative, 3),
    ("R7", r7_manifest_search_is_order_independent, 2),
    ("R1", r1_chain, 6),
    ("R2", r2_whole_file, 4),
    ("R3", r3_tail_fallback, 3),
    ("R4", r4_pack_size, 5),
    ("R5", r5_locators, 2),
    ("R6", r6_concat, 1),
]
