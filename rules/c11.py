"""C11 — an unavailable pack is reported as missing, and everything else still reads.
R1 three-way result shape (unknown id / missing with pack info / found); R2 an absent file is `None`;
R3 identity is the uuid on the file-system path; R4 the container check skips absent packs."""
import re
from lib import *

PROPERTY = "C11"
EXPLANATION = ("Decided from MIR: (R1) Container::_get_pack returns Ok(None) when the manifest has no such pack id, "
               "Ok(Some(MISSING(pack_info.clone()))) when the locator answers None (never Err / unwrap), FOUND otherwise; get_pack and "
               "get_bytes forward MISSING unchanged and index the pack slots only under pack_id < packs.len(); (R2) FsLocator::locate "
               "opens the file only under path.is_file() and otherwise returns Ok(None); (R3) the reader FsLocator hands out is the result "
               "of a lookup keyed by the expected uuid inside the opened file (a different valid pack at the recorded location yields "
               "None = missing); (R4) in Container::check the None arm of locate goes to the next pack without failing. Which contents remain "
               "readable is not decided."
               ' Added later: (R5) only the directory pack is located at open time; (R6) the only interior-mutable state of Container is the table of found packs; (R7) MayMissPack conversions keep MISSING. (R8) no binary search over the manifest\'s pack table.')
EXPLANATION += ' Batch 11: (R9) Container::get_pack never compares the pack id with a constant (no reserved id).'
ASSUMPTIONS = ["Path::is_file semantics", "rustc MIR construction and trait resolution"]


def _aggs(b, adt_suffix, variant):
    out = []
    for i, blk in enumerate(b.blocks):
        if blk.get("cleanup"):
            continue
        for s in blk["s"]:
            if s["k"] == "assign" and s["rv"]["k"] == "agg" and s["rv"].get("adt", "").endswith(adt_suffix) and s["rv"].get("variant") == variant:
                out.append((i, s))
    return out


def _option_arms(b, call_bb):
    """(none_arm, some_arm) of the switch on the discriminant of the Option produced by the call in call_bb (through `?`)"""
    t = b.term(call_bb)
    tl = b.forward_locals({t["dest"]["l"]}, through_calls=False)
    for i, tt in b.calls(r"Try>::branch$"):
        if op_base_local(tt["args"][0]) in tl:
            tl |= b.forward_locals({tt["dest"]["l"]}, through_calls=False)
    for s in range(b.n):
        st = b.term(s)
        if st["k"] != "switch" or b.is_cleanup(s):
            continue
        l = op_local(st["op"])
        for d in b.defs().get(l, []) if l is not None else []:
            if d[0] == "stmt" and d[3]["rv"]["k"] == "discr" and d[3]["rv"]["pl"]["l"] in tl and d[3]["rv"].get("of", "").startswith("std::option::Option<") and not d[3]["rv"]["pl"].get("p"):
                none_t = st["targets"][st["vals"].index(0)] if 0 in st["vals"] else st["otherwise"]
                some_t = st["targets"][st["vals"].index(1)] if 1 in st["vals"] else st["otherwise"]
                return s, none_t, some_t
    return None, None, None


def r1_three_way(cx):
    F = cx.F
    # the lookup behind Container::get_pack, with the container's own private helpers (_get_pack, ...) inlined:
    # the clauses hold whatever the helpers are called and wherever the manifest lookup sits
    f = F.one(impl_self="reader::jubako::Container", item="get_pack", closure=False)
    b = F.deep_body(f, only=r"reader::jubako::Container::")
    gi = b.calls(r"ManifestPack::get_content_pack_info$")
    lo = b.calls(r"PackLocatorTrait>::locate$")
    ok = len(gi) == 1 and len(lo) == 1
    cx.ob("R1", "R1/_get_pack/anchors", ok, f, "_get_pack: one get_content_pack_info, one locate (found %d/%d)" % (len(gi), len(lo)))
    if ok:
        s, none_t, some_t = _option_arms(b, gi[0][0])
        okn = s is not None
        if okn:
            r = b.reachable(none_t, avoid={s})
            okn = lo[0][0] not in r and any(op_const_val(x) is None and True for x in [0]) and any(st["k"] == "assign" and st["rv"]["k"] == "agg" and st["rv"].get("variant") == "None" for x in r for st in b.stmts(x)) and not b.panic_blocks() & r
        cx.ob("R1", "R1/_get_pack/unknown-id->None", okn, f, "pack id not in the manifest: Ok(None), the locator is not consulted")
        s2, none2, some2 = _option_arms(b, lo[0][0])
        okm = s2 is not None
        if okm:
            r = b.reachable(none2, avoid={s2})
            miss = [i for i, _ in _aggs(b, "MayMissPack", "MISSING") if i in r]
            clone = [i for i, t in b.calls(r"PackInfo as std::clone::Clone>::clone$") if i in r]
            okm = bool(miss) and bool(clone) and not (b.panic_blocks() & r) and not (b.error_blocks() & r) and not [i for i, _ in _aggs(b, "Result", "Err") if i in r]
            # the MISSING payload is the clone of the pack info found for that id
            if okm:
                pi = b.origins(b.term(clone[0])["args"][0])
                okm = any(x == ("call", gi[0][0]) for x in pi)
        cx.ob("R1", "R1/_get_pack/locator-None->MISSING(pack_info)", okm, f, "locator answers None: Ok(Some(MISSING(pack_info.clone()))) — not an error, not a panic")
        okf = s2 is not None
        if okf:
            r = b.reachable(some2, avoid={s2})
            found = [i for i, _ in _aggs(b, "MayMissPack", "FOUND") if i in r]
            cp = [i for i, t in b.calls(r"ContentPack::new$") if i in r]
            okf = bool(found) and bool(cp)
        cx.ob("R1", "R1/_get_pack/Some->FOUND", okf, f, "locator answers Some(reader): FOUND(ContentPack::new(reader))")
        # uuid/location passed to locate come from the pack info
        o1, o2 = b.origins(lo[0][1]["args"][1]), b.origins(lo[0][1]["args"][2])
        cx.ob("R1", "R1/_get_pack/locate-args", ("field", "uuid") in o1 and ("field", "pack_location") in o2 and any(x == ("call", gi[0][0]) for x in o1), f, "locate(pack_info.uuid, &pack_info.pack_location)")
    g = F.one(impl_self="reader::jubako::Container", item="get_pack", closure=False)
    gb = F.body(g)
    idx = gb.calls(r"Index<usize>>::index$|Index<.*>>::index$")
    guard_ok = False
    for s in range(gb.n):
        t = gb.term(s)
        if t["k"] != "switch":
            continue
        l = op_local(t["op"])
        for d in gb.defs().get(l, []) if l is not None else []:
            if d[0] == "stmt" and d[3]["rv"]["k"] == "bin" and d[3]["rv"]["op"] in ("Ge", "Lt", "Gt", "Le"):
                o = gb.origins(d[3]["rv"]["a"]) | gb.origins(d[3]["rv"]["b"])
                if ("param", 2) in o and ("field", "packs") in o and idx and all(gb.dominates(s, i) for i, _ in idx):
                    arms = list(dict.fromkeys(t["targets"] + [t["otherwise"]]))
                    reach = [a for a in arms if any(i in gb.reachable(a, avoid={s}) for i, _ in idx)]
                    guard_ok = len(reach) == 1
    # the checked form: self.packs.get(pack_id) (an Option; no panicking index at all)
    if not idx:
        gets = [t for _, t in gb.calls(r"slice::<impl \[.*\]>::get::<|Vec::<.*>::get$|\]>::get(::<.*>)?$") if ("field", "packs") in gb.origins(t["args"][0]) and ("param", 2) in gb.origins(t["args"][1])]
        guard_ok = len(gets) >= 1
    cx.ob("R1", "R1/get_pack/slot-index-guarded", guard_ok, g, "self.packs[pack_id] is reached only under the comparison of pack_id with packs.len()")
    miss_in = _aggs(gb, "MayMissPack", "MISSING")
    miss_in = miss_in or _aggs(b, "MayMissPack", "MISSING")
    cx.ob("R1", "R1/get_pack/forwards-MISSING", len(miss_in) >= 1, g, "get_pack forwards MISSING(pack_info) to its caller")
    h = F.one(impl_self="reader::jubako::Container", item="get_bytes", closure=False)
    hb = F.deep_body(h, only=r"reader::missing::MayMissPack")   # MayMissPack's own combinators (map, transpose) are transparent
    cx.ob("R1", "R1/get_bytes/forwards-MISSING", len(_aggs(hb, "MayMissPack", "MISSING")) >= 1 and len(hb.calls(r"ContentPack::get_content$")) + sum(len(F.body(c).calls(r"ContentPack::get_content$")) for c in F.closures_of(h) if "blocks" in c) == 1 and not hb.calls(r"MayMissPack::<.*>::unwrap$"), h,
          "get_bytes maps MISSING to MISSING and only FOUND to get_content (no unwrap of the MayMissPack)")


def r2_absent_is_none(cx):
    F = cx.F
    f = F.one(impl_self="reader::locator::FsLocator", item="locate", trait="PackLocatorTrait", closure=False)
    b = F.body(f)
    isf = b.calls(r"Path::is_file$")
    op = b.calls(r"FileSource::open::<")
    ok = len(isf) == 1 and len(op) == 1
    if ok:
        sw = isf[0][1]["t"]
        t = b.term(sw)
        ok = t["k"] == "switch"
        if ok:
            false_t = t["targets"][t["vals"].index(0)] if 0 in t["vals"] else None
            true_t = t["otherwise"]
            r = b.reachable(false_t, avoid={sw}) if false_t is not None else set()
            ok = false_t is not None and op[0][0] not in r and op[0][0] in b.reachable(true_t, avoid={sw}) and \
                any(st["k"] == "assign" and st["rv"]["k"] == "agg" and st["rv"].get("variant") == "None" for x in r for st in b.stmts(x)) and not (b.error_blocks() & r)
    cx.ob("R2", "R2/FsLocator.locate", ok, f, "FileSource::open is reached only when path.is_file(); otherwise Ok(None)")
    # the path is base_dir.join(helper)
    jn = b.calls(r"Path::join::<|PathBuf::join")
    cx.ob("R2", "R2/path-from-location", len(jn) == 1 and ("field", "base_dir") in b.origins(jn[0][1]["args"][0]) and ("param", 3) in b.origins(jn[0][1]["args"][1]), f, "the file looked for is base_dir.join(recorded location)")


def r3_identity(cx):
    F = cx.F
    f = F.one(impl_self="reader::locator::FsLocator", item="locate", trait="PackLocatorTrait", closure=False)
    b = F.body(f)
    oks = []
    for i, blk in enumerate(b.blocks):
        if blk.get("cleanup"):
            continue
        for s in blk["s"]:
            if s["k"] == "assign" and s["rv"]["k"] == "agg" and s["rv"].get("adt", "").endswith("Result") and s["rv"].get("variant") == "Ok" and not s["lhs"].get("p") \
                    and (s["lhs"]["l"] == 0 or 0 in b.whole_copies({s["lhs"]["l"]})):      # (directly, or as the result of an inlined helper)
                oks.append((i, s["rv"]["fields"][0]))
    src = b.calls(r"FileSource::open::<")
    good = bool(oks) and bool(src)
    detail = []
    for i, fld in oks:
        o = b.origins(fld)
        if not any(x == ("call", src[0][0]) for x in o):
            continue  # the Ok(None) arm
        keyed = [t for _, t in b.origin_calls(fld) if call_is(t, r"ContainerPack::get_pack_reader$") and ("param", 2) in b.origins(t["args"][1])]
        cmpd = [t for _, t in b.calls(r"PartialEq.*>::(eq|ne)$") if any(("param", 2) in b.origins(a) for a in t["args"])]
        detail.append("keyed lookup: %d, explicit uuid comparison: %d" % (len(keyed), len(cmpd)))
        if not keyed and not cmpd:
            good = False
    cx.ob("R3", "R3/FsLocator-identity-by-uuid", good and bool(detail), f,
          "the reader returned for a file found at the recorded location is selected by the expected uuid (%s): a different pack at that location is not accepted" % "; ".join(detail))


def r3b_enclosing_file_by_uuid(cx):
    """identity is the uuid also for packs embedded in the file at hand: the first locator of the chain
    (the opened container) answers by uuid whatever location the manifest records"""
    import c10
    before = len(cx.obs)
    c10.r1_chain(cx)
    for o in cx.obs[before:]:
        o.rule = "R3"
        o.key = "R3/chain/" + o.key.split("/", 1)[1]


def r4_check_skips_missing(cx):
    F = cx.F
    f = F.one(impl_self="reader::jubako::Container", item="check", closure=False, trait="")
    b = F.body(f)
    lo = b.calls(r"PackLocatorTrait>::locate$")
    nx = [(i, t) for i, t in b.calls(r"Iterator>::next$") if i in b.reach_after(i)]
    ok = len(lo) == 1 and len(nx) == 1
    if ok:
        s, none_t, some_t = _option_arms(b, lo[0][0])
        ok = s is not None
        if ok:
            false_rets = [i for i, blk in enumerate(b.blocks) for st in blk["s"] if st["k"] == "assign" and st["lhs"]["l"] == 0 and st["rv"]["k"] == "agg" and st["rv"].get("variant") == "Ok" and op_const_val(st["rv"]["fields"][0]) is False]
            # path-sensitive: a helper answering Ok(true) for an absent pack continues the loop through `if !ok`
            r, _ = b.explore(start=none_t, avoid={s, nx[0][0]})
            ok = nx[0][0] in b.reachable(none_t, avoid={s}) and not any(x in r for x in false_rets) and not (b.error_blocks() & r) and not (b.panic_blocks() & r)
    cx.ob("R4", "R4/Container.check-skips-absent-packs", ok, f, "when locate answers None the loop goes to the next pack: no Ok(false), no error, no panic on that arm")


def r5_lazy_content_packs(cx):
    """opening a container does not need its content packs: only the directory pack is located at open time,
    content pack slots start empty and are filled on first use"""
    F = cx.F
    f = F.one(impl_self="reader::jubako::Container", item="new_with_locator", closure=False)
    b = F.body(f)
    lo = b.calls(r"PackLocatorTrait>::locate$")
    cp = b.calls(r"ContentPack::new$")
    rs = b.calls(r"Vec::<std::sync::OnceLock<.*ContentPack>>::resize_with")
    gd = b.calls(r"ManifestPack::get_directory_pack_info$")
    ok = len(lo) == 1 and not cp and len(rs) == 1 and len(gd) == 1
    if ok:
        ok = any(x == ("call", gd[0][0]) for x in b.origins(lo[0][1]["args"][1])) and any(call_is(x[1], r"ManifestPack::max_id$") for x in b.origin_calls(rs[0][1]["args"][1])) and lo[0][0] not in b.reach_after(lo[0][0])
    cx.ob("R5", "R5/open-does-not-need-content-packs", ok, f, "Container::new_with_locator locates only the directory pack; content pack slots (max_id + 1 OnceLocks) are created empty")
    g = F.one(impl_self="reader::jubako::Container", item="get_pack", closure=False)
    gb = F.body(g)
    st = gb.calls(r"OnceLock::<.*ContentPack>::set$")
    gp = gb.calls(r"Container::_get_pack$")
    ok = len(st) == 1 and len(gp) == 1 and any(x == ("call", gp[0][0]) for x in gb.origins(st[0][1]["args"][1]))
    # MISSING is not cached: the set is only on the FOUND arm
    miss = [i for i, blk in enumerate(gb.blocks) if not blk.get("cleanup") for s in blk["s"] if s["k"] == "assign" and s["rv"]["k"] == "agg" and s["rv"].get("variant") == "MISSING"]
    ok = ok and bool(miss) and not any(st[0][0] in gb.reachable(m) for m in miss)
    cx.ob("R5", "R5/missing-is-not-cached", ok, g, "informational: get_pack caches only a FOUND pack in its slot; a MISSING answer is recomputed next time (the pack may appear later)", info=True)


def r6_only_found_packs_are_remembered(cx):
    """'an unavailable pack is reported as missing' -- every time it is asked for, and only that pack: the container keeps
    one piece of state between two requests, the table of packs it has *found* (`Vec<OnceLock<ContentPack>>`, filled once,
    by pack id). It has no other interior-mutable field in which a miss could be remembered (by location, by name ..) and
    later answered for another pack that is there."""
    F = cx.F
    st = F.struct("reader::jubako::Container")
    mut = [(fl["name"], fl["ty"]) for fl in st["fields"] if re.search(r"\b(Mutex|RwLock|RefCell|Cell|OnceLock|OnceCell|Atomic\w+|UnsafeCell)\b", fl["ty"])
           and not re.match(r"^std::sync::Arc<reader::", fl["ty"])]
    ok = all(re.search(r"^std::vec::Vec<std::sync::OnceLock<reader::content_pack::ContentPack>>$", ty) for _, ty in mut) and len(mut) == 1
    cx.ob("R6", "R6/Container/only-found-packs-are-remembered", ok, "src/reader/jubako.rs (struct Container)",
          "the only interior-mutable state of Container is the table of found packs (fields with interior mutability: %s)" % mut)


def r7_missing_survives_every_conversion(cx):
    """'reported as missing': `MayMissPack` values go through conversions on their way to the caller (`map`, `as_ref`, the
    two `transpose` that the documented idiom `get_bytes(..)?.and_then(|m| m.transpose())` relies on). Each of them, given
    the MISSING variant, builds a MISSING variant again -- only `get` and `unwrap` are allowed to drop it."""
    F = cx.F
    n = 0
    for f in F.live_fns:
        if "blocks" not in f or f.get("kind") == "closure" or not re.search(r"reader::missing::MayMissPack", f.get("impl_self") or ""):
            continue
        if f.get("item_name") in ("get", "unwrap") or f.get("impl_trait"):
            continue
        b = F.deep_body(f, only=r"reader::missing::")
        en = F.enum("reader::missing::MayMissPack")
        d = next(v["discr"] for v in en["variants"] if v["name"] == "MISSING")
        r, _ = b.explore(assume_discr={r"missing::MayMissPack<": d}, avoid=b.panic_blocks())
        keeps = any(st["k"] == "assign" and st["rv"]["k"] == "agg" and (st["rv"].get("adt") or "").endswith("missing::MayMissPack") and st["rv"].get("variant") == "MISSING"
                    for i in r for st in b.blocks[i]["s"])
        n += 1
        cx.ob("R7", "R7/MayMissPack.%s@%s/missing-stays-missing" % (f.get("item_name"), re.sub(r".*MayMissPack", "", f.get("impl_self") or "")[:40]), keeps, f,
              "given MISSING(info), %s builds a MISSING again" % f.get("item_name"))
    if n < 4:
        raise AnchorLost("conversions of MayMissPack: %d" % n)


def r8_pack_table_is_searched_as_it_is_stored(cx):
    """the pack infos of a manifest are kept in manifest order (`add_pack` takes packs in any order, with ids the caller
    chooses); nothing sorts them, so a declared pack is found only by looking at every record -- a binary search on that
    table answers "unknown pack" for records that are out of order"""
    F = cx.F
    bad = []
    n = 0
    for f in F.live_fns:
        if "blocks" not in f or not re.search(r"reader::manifest_pack::|reader::jubako::", f["name"]):
            continue
        b = None
        for i, blk in enumerate(f["blocks"]):
            t = blk["t"]
            if blk.get("cleanup") or t["k"] != "call":
                continue
            if call_is(t, r"binary_search(_by|_by_key)?(::<.*>)?$", r"partition_point(::<.*>)?$"):
                b = b or F.body(f)
                if ("field", "pack_infos") in b.origins(t["args"][0]):
                    bad.append((f, t.get("ln")))
            if call_is(t, r"Iterator>::(find|position|find_map)::<") or call_is(t, r"Iterator>::next$"):
                n += 1
    for f, ln in bad:
        cx.ob("R8", "R8/%s/binary-search-on-the-pack-table" % re.sub(r"<.*?>", "", f["name"]).split("::")[-1], False, f, "binary search over pack_infos at line %s: the table is not sorted" % ln, ln=ln)
    cx.ob("R8", "R8/pack-table-searched-linearly", not bad and n >= 2, "(reader::manifest_pack)", "no binary search over the manifest's pack table (%d linear searches / iterations)" % n)


def r9_no_pack_id_is_special(cx):
    """'three distinguishable outcomes ... unknown pack id' means *absent from the manifest*: pack ids are arbitrary 16-bit
    numbers chosen by whoever wrote the manifest (the directory pack and a content pack may even share one). On the way
    from the id to the answer, Container::get_pack compares the id with the size of its own table and asks the manifest --
    it never compares it with a constant (a "reserved" id answered None without looking)."""
    F = cx.F
    f = F.one(impl_self="reader::jubako::Container", item="get_pack", closure=False)
    b = F.deep_body(f, only=r"reader::jubako::Container::")
    bad = []
    n = 0
    for i, blk in enumerate(b.blocks):
        if blk.get("cleanup"):
            continue
        for st in blk["s"]:
            if st["k"] == "assign" and st["rv"]["k"] == "bin" and st["rv"]["op"] in ("Eq", "Ne", "Lt", "Le", "Gt", "Ge"):
                n += 1
                for x, y in ((st["rv"]["a"], st["rv"]["b"]), (st["rv"]["b"], st["rv"]["a"])):
                    if op_const_deep(b, y) is not None and ("param", 2) in b.origins(x) and not st.get("mb"):
                        bad.append("line %s: pack id compared with %s" % (st.get("ln"), op_const_deep(b, y)))
        t = blk["t"]
        if t["k"] == "call" and call_is(t, r"cmp::PartialEq(<.*>)?>::(eq|ne)$", r"cmp::PartialOrd(<.*>)?>::(lt|le|gt|ge)$") and len(t["args"]) == 2:
            n += 1
            for x, y in ((t["args"][0], t["args"][1]), (t["args"][1], t["args"][0])):
                oy = b.origins(y)
                if ("param", 2) in b.origins(x) and oy and all(o[0] == "const" for o in oy):
                    bad.append("line %s: pack id compared with a constant" % t.get("ln"))
    cx.ob("R9", "R9/get_pack/no-pack-id-is-special", not bad, f, "the pack id is compared with the table size only, never with a constant (%s)" % (bad or "none"))


RULES = [
    ("R9", r9_no_pack_id_is_special, 1),
    ("R8", r8_pack_table_is_searched_as_it_is_stored, 1),
    ("R7", r7_missing_survives_every_conversion, 4),
    ("R6", r6_only_found_packs_are_remembered, 1),
    ("R1", r1_three_way, 8),
    ("R2", r2_absent_is_none, 2),
    ("R3", r3_identity, 1),
    ("R3", r3b_enclosing_file_by_uuid, 6),
    ("R4", r4_check_skips_missing, 1),
    ("R5", r5_lazy_content_packs, 1),
]
