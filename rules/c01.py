"""C01 — stored content reads back byte-identical at the address returned on insertion.
Structural clauses only (not the byte equality): R1 cluster tail writer = reader = reference with one
width variable; R2 address packing vs split threshold; R3 'no such content' guard; R4 file-range
input reader (cap + coordinates); R5 compression tag <-> algorithm tables; R6 data location
agreement; R7 field width covers every value written with it; R8 sampling for the entropy decision
puts the input back at its start."""
import re
from lib import *
import ref, layout, streams

PROPERTY = "C01"
EXPLANATION = ("Necessary structural clauses of C01 decided from MIR/HIR: cluster-tail and ContentInfo layouts (writer, reader, "
               "frozen reference) with a single offset-width variable whose needed_bytes() argument covers every value written with "
               "it; the 12-bit blob index packing against MAX_BLOBS_PER_CLUSTER and the split/assert guards; the out-of-range guard "
               "of ContentPack::get_content; the cap and origin-relative coordinates of the file-range reader; agreement of the three "
               "compression tables (creator enum -> stored tag -> compressor / decompressor); data located at tail - stored size on "
               "both sides; the entropy sampling rewinds the input. Byte equality for any input is not decided."
               " (R11-R13) reader blob extraction [offsets[i], offsets[i+1]), content id -> (cluster, blob) resolution keyed by the values read for that content, creator addresses = position of the info pushed, both vectors of a cluster grow on every successful add_content; (R14) the deduplicating adder keys on the Blake3 of the whole content (= C16-R4)."
               ' Added later: (R15) the table of content packs has max_id + 1 slots computed in usize; (R16) the cluster index is bounded by 2^20 - 1 where a cluster is made; (R17) a content is rewound before it is queued; (R18) every table is one checked block (no ser_callable in a loop); (R19) positions are asked of the buffering stream, never of the stream under a BufWriter; (R20) the count returned by a direct Write::write decides something (= C09-R7); (R21) the background decoder advances by the bytes each read returned (= C07-R1/R2). (R22) the plain / to-be-decoded reader of a cluster is chosen by the stored compression tag.')
EXPLANATION += ' Batch 11: (R23) the table of cluster addresses only grows (= C08-R1); (R13) ClusterCreator::is_empty counts contents, not bytes.'
ASSUMPTIONS = ["compression libraries round-trip (lz4, xz2, zstd)", "std::io semantics", "rustc MIR/HIR construction and trait resolution"]


def r1_cluster_tail(cx):
    F = cx.F
    for name in ("ClusterTail", "ClusterHeader", "ContentInfo"):
        wl, rl, wf, rf = ref.extracted(F, name)
        cx.ob("R1", "R1/%s/writer" % name, wl == ref.ref_layout(name, "w"), wf, "writer layout of %s = reference: %s" % (name, layout.to_json(wl)))
        cx.ob("R1", "R1/%s/reader" % name, rl == ref.ref_layout(name, "r"), rf, "reader layout of %s = reference: %s" % (name, layout.to_json(rl)))
    # writer: one width local, derived from needed_bytes, also stored in the header
    f = F.one(regex=r"clusterwriter::serialize_cluster_tail$")
    b = F.body(f)
    ws = b.calls(r"Serializer::write_usized$")
    nb = b.calls(r"bases::needed_bytes::<")
    ch = b.calls(r"ClusterHeader::new$")
    ok = len(ws) == 3 and len(nb) == 1 and len(ch) == 1
    if ok:
        def from_nb(op):
            oc = b.origin_calls(op, through_calls=False)
            return len(oc) == 1 and oc[0][0] == nb[0][0]
        ok = all(from_nb(t["args"][2]) for _, t in ws) and from_nb(ch[0][1]["args"][1])
    cx.ob("R1", "R1/writer-width-provenance", ok, f, "the three write_usized and the header's offset_size all use the width returned by the single needed_bytes call")
    g = layout.find_parse(F, "ClusterBuilder")
    gb = F.body(g)
    rs = gb.calls(r"Parser>::read_usized$")
    ok = len(rs) == 3 and all(("field", "offset_size") in gb.origins(t["args"][1], through_calls=False) for _, t in rs)
    hp = gb.calls(r"ClusterHeader as .*Parsable>::parse")
    ok = ok and len(hp) == 1 and all(gb.derives_from_call(t["args"][1], r"ClusterHeader as .*Parsable>::parse") for _, t in rs)
    cx.ob("R1", "R1/reader-width-provenance", ok, g, "the three read_usized use header.offset_size of the parsed ClusterHeader")


def r2_packing(cx):
    F = cx.F
    bits = ref.REF["sizes"]["ContentInfo.blob_bits"]
    mask = ref.REF["sizes"]["ContentInfo.blob_mask"]
    import c14
    w = layout.find_ser(F, "ContentInfo")
    r = layout.find_parse(F, "ContentInfo")
    wb, rb = F.body(w), F.body(r)
    cx.ob("R2", "R2/writer-shift-mask", c14._has_bin(wb, "Shl", bits) and c14._has_bin(wb, "BitAnd", mask) and c14._field_feeds(wb, "Shl", "cluster_index") and c14._field_feeds(wb, "BitAnd", "blob_index"), w,
          "ContentInfo::serialize packs cluster_index << %d | blob_index & %#x" % (bits, mask))
    cx.ob("R2", "R2/reader-shift-mask", c14._has_bin(rb, "Shr", bits) and c14._has_bin(rb, "BitAnd", mask), r, "ContentInfo::parse unpacks v >> %d and v & %#x" % (bits, mask))
    cx.ob("R2", "R2/mask=2^bits-1", mask == (1 << bits) - 1, "(reference)", "mask %#x = 2^%d - 1" % (mask, bits))
    c = F.const("cluster::MAX_BLOBS_PER_CLUSTER")
    cx.ob("R2", "R2/max-blobs-fits", c["val"] is not None and c["val"] - 1 <= mask and c["val"] == ref.REF["sizes"]["MAX_BLOBS_PER_CLUSTER"], "%s:%s" % (c["file"], c["line"]),
          "MAX_BLOBS_PER_CLUSTER = %s: the largest blob index (%s) fits the %d-bit field and equals the reference" % (c["val"], (c["val"] or 0) - 1, bits))
    f = F.one(impl_self="ClusterCreator", item="add_content", closure=False)
    b = F.body(f)
    casts = [(i, s) for i, blk in enumerate(b.blocks) if not blk.get("cleanup") for s in blk["s"] if s["k"] == "assign" and s["rv"]["k"] == "cast" and s["rv"]["ck"] == "IntToInt" and s["rv"]["ty"] == "u16"]
    guards = [i for i in range(b.n) if b.term(i)["k"] == "switch" and not b.is_cleanup(i) and _cmp_with_const(b, b.term(i)["op"], ("Lt", "Le"), c["val"])]
    ok = len(casts) == 1 and len(guards) >= 1
    if ok:
        ci = casts[0][0]
        # the cast is only reachable through the 'true' arm of the guard; the other arm panics
        ok = False
        for g in guards:
            t = b.term(g)
            true_t = t["otherwise"] if 0 in t["vals"] else None
            false_t = t["targets"][t["vals"].index(0)] if 0 in t["vals"] else None
            if true_t is not None and b.set_dominates({true_t}, ci) and ci not in b.reachable(false_t, avoid={g}):
                ok = True
    cx.ob("R2", "R2/add_content-guard", ok, f, "`offsets.len() < MAX_BLOBS_PER_CLUSTER` is asserted on every path before `len as u16` becomes the blob index")
    g = F.one(impl_self="ClusterCreator", item="is_full", closure=False)
    gb = F.body(g)
    eqs = [i for i in range(gb.n) if gb.term(i)["k"] == "switch" and _cmp_with_const(gb, gb.term(i)["op"], ("Eq", "Ge"), c["val"])]
    ok = False
    for s in eqs:
        t = gb.term(s)
        true_t = t["otherwise"]
        # the true arm returns the constant true
        for x in gb.reachable(true_t, avoid={s}):
            for st in gb.stmts(x):
                if st["k"] == "assign" and st["lhs"]["l"] == 0 and st["rv"]["k"] == "use" and op_const_val(st["rv"]["op"]) is True:
                    ok = True
    cx.ob("R2", "R2/is_full-at-max", ok, g, "is_full answers true when the cluster holds MAX_BLOBS_PER_CLUSTER blobs (a new cluster is opened before the index field overflows)")


def _cmp_with_const(b, op, ops, const):
    l = op_local(op)
    if l is None:
        return False
    for d in b.defs().get(l, []):
        if d[0] == "stmt" and d[3]["k"] == "assign" and d[3]["rv"]["k"] == "bin" and d[3]["rv"]["op"] in ops:
            if const in (op_const_deep(b, d[3]["rv"]["a"]), op_const_deep(b, d[3]["rv"]["b"])):
                return True
    return False


def r3_no_such_content(cx):
    F = cx.F
    f = F.one(impl_self="ContentPack", item="get_content", closure=False, trait="")
    b = F.body(f)
    iv = [(i, t) for i, t in b.calls(r"is_valid$") if ("param", 2) in b.origins(t["args"][0]) and ("field", "content_count") in b.origins(t["args"][1])]
    idx = [(i, t) for i, t in b.calls(r"IndexTrait.*>::index$|ArrayReader<.*>::index$") if ("field", "content_infos") in b.origins(t["args"][0], through_calls=False)]
    ok = len(iv) == 1 and len(idx) == 1
    msg = "one is_valid(index, content_count) and one content_infos.index (found %d/%d)" % (len(iv), len(idx))
    if ok:
        vi, vt = iv[0]
        sw = None
        for s in range(b.n):
            t = b.term(s)
            if t["k"] == "switch" and any(o == ("call", vi) for o in b.origins(t["op"], through_calls=False)) and b.dominates(vi, s):
                sw = s
        ok = sw is not None
        if ok:
            t = b.term(sw)
            arms = list(dict.fromkeys(t["targets"] + [t["otherwise"]]))
            reach_idx = [a for a in arms if idx[0][0] in b.reachable(a, avoid={sw})]
            none_arm = [a for a in arms if a not in reach_idx]
            ok = len(reach_idx) == 1 and len(none_arm) == 1 and b.set_dominates({reach_idx[0]}, idx[0][0])
            # the other arm returns Ok(None)
            got_none = False
            for x in b.reachable(none_arm[0], avoid={sw}) if ok else []:
                for st in b.stmts(x):
                    if st["k"] == "assign" and st["rv"]["k"] == "agg" and st["rv"].get("variant") == "None":
                        got_none = True
            ok = ok and got_none
            msg = "content_infos.index(index) is reachable only through the valid arm of is_valid(index, content_count); the other arm returns Ok(None)"
    cx.ob("R3", "R3/get_content", ok, f, msg)
    g = F.one(impl_self="ContentPack", item="get_content_count", closure=False)
    cx.ob("R3", "R3/count-from-header", ("field", "content_count") in F.body(g).origins(0, through_calls=False), g, "get_content_count answers header.content_count")
    # the creator writes content_infos.len() into the header
    h = F.one(impl_self="ContentPackCreator", item="finalize", closure=False)
    hb = F.body(h)
    ch = hb.calls(r"ContentPackHeader::new$")
    ok = len(ch) == 1
    if ok:
        o = hb.origins(ch[0][1]["args"][4])
        ok = ("field", "content_infos") in o and any(x[0] == "call" and call_is(hb.term(x[1]), r"::len$") for x in o)
    cx.ob("R3", "R3/creator-count", ok, h, "the content count written in the header is content_infos.len()")


def r4_input_file(cx):
    F = cx.F
    f = F.one(impl_self="creator::InputFile", item="read", trait="Read", closure=False)
    b = F.deep_body(f, only=r"creator::InputFile::")   # InputFile's own accessors (local_position, ...) are transparent
    rd = b.calls(r"std::fs::File as std::io::Read>::read$")
    ok = len(rd) == 1
    if ok:
        o = b.origin_calls(rd[0][1]["args"][1])
        mins = [t for _, t in o if call_is(t, r"cmp::min(::<.*>)?$", r"Ord>::min$")]
        ok = len(mins) == 1
        if ok:
            mo = b.origins(mins[0]["args"][0]) | b.origins(mins[0]["args"][1])
            # min(buf.len(), len - (position - origin))
            ok = {("field", "len"), ("field", "position"), ("field", "origin"), ("param", 2)} <= mo
    cx.ob("R4", "R4/read-capped", ok, f, "InputFile::read hands File::read a buffer of at most min(buf.len(), len - local_position)")
    g = F.one(impl_self="creator::InputFile", item="get_file_source", closure=False)
    gb = F.body(g)
    tk = gb.calls(r"Read>::take$")
    rw = gb.calls(r"InputFile as std::io::Seek>::rewind$", r"Seek for std::boxed::Box<creator::InputFile>>::rewind$")
    # or the same thing spelled out: InputFile's own seek(SeekFrom::Start(0)) (range coordinates, see range-coordinates below)
    for i, t in gb.calls(r"InputFile as std::io::Seek>::seek$", r"Seek for std::boxed::Box<creator::InputFile>>::seek$"):
        sv = streams.seek_variant(gb, t)
        if sv[0] == "Start" and op_const_deep(gb, sv[1]) == 0:
            rw.append((i, t))
    ok = len(tk) == 1 and len(rw) == 1 and gb.dominates(rw[0][0], tk[0][0]) and ("field", "len") in gb.origins(tk[0][1]["args"][1], through_calls=False)
    cx.ob("R4", "R4/file-source-take-len", ok, g, "get_file_source rewinds to the range origin (InputFile's own rewind) then takes exactly self.len bytes")
    # origin-relative coordinates of the Seek impl (seek returns the absolute file position, so the
    # relative accessors must be overridden)
    sk = F.find(impl_self="creator::InputFile", trait="Seek", closure=False)
    names = {x["item_name"]: x for x in sk}
    ok = "seek" in names and "stream_position" in names and "rewind" in names
    msg = "impl Seek for InputFile overrides seek, rewind and stream_position (found %s)" % sorted(names)
    if ok:
        sb = F.deep_body(names["stream_position"])
        sub = False
        for blk in sb.blocks:
            for s in blk["s"]:
                if s["k"] == "assign" and s["rv"]["k"] == "bin" and s["rv"]["op"] in ("Sub", "SubWithOverflow"):
                    if ("field", "position") in sb.origins(s["rv"]["a"]) and ("field", "origin") in sb.origins(s["rv"]["b"]):
                        sub = True
        rb = F.body(names["rewind"])
        rs = rb.calls(r"InputFile as std::io::Seek>::seek$")
        rew = len(rs) == 1 and streams.seek_variant(rb, rs[0][1])[0] == "Start" and op_const_val(streams.seek_variant(rb, rs[0][1])[1]) == 0
        kb = F.body(names["seek"])
        add_origin = False
        for blk in kb.blocks:
            for s in blk["s"]:
                if s["k"] == "assign" and s["rv"]["k"] == "bin" and s["rv"]["op"] in ("Add", "AddWithOverflow") and ("field", "origin") in kb.origins(s["rv"]["a"]) | kb.origins(s["rv"]["b"]):
                    add_origin = True
        ok = sub and rew and add_origin
        msg = "stream_position = position - origin: %s; rewind = seek(Start(0)): %s; seek(Start(o)) adds origin: %s" % (sub, rew, add_origin)
    cx.ob("R4", "R4/range-coordinates", ok, names.get("seek", "(impl Seek for InputFile)"), msg)


def _variant_arms(F, b, type_pat):
    """{variant name: target block} for the switch on the discriminant of a value of type ~type_pat"""
    for s in range(b.n):
        t = b.term(s)
        if t["k"] != "switch" or b.is_cleanup(s):
            continue
        l = op_local(t["op"])
        for d in b.defs().get(l, []):
            if d[0] == "stmt" and d[3]["rv"]["k"] == "discr" and re.search(type_pat, d[3]["rv"].get("of", "")):
                en = [e for e in F.enums if re.search(type_pat, e["path"])]
                if len(en) != 1:
                    continue
                names = {v["discr"]: v["name"] for v in en[0]["variants"]}
                out = {names.get(v, v): tg for v, tg in zip(t["vals"], t["targets"])}
                return s, out
    return None, {}


def _first_call(b, start, pats, avoid=()):
    seen = set()
    st = [start]
    while st:
        x = st.pop(0)
        if x in seen or x in avoid or b.is_cleanup(x):
            continue
        seen.add(x)
        t = b.term(x)
        if t["k"] == "call":
            for p in pats:
                if call_is(t, p):
                    return callee_str(t)
        st.extend(b.succ[x])
    return None


def r5_compression_tables(cx):
    F = cx.F
    feats = {"Lz4": "lz4", "Lzma": "lzma", "Zstd": "zstd"}
    # creator enum -> stored tag
    f = [x for x in F.fns if x.get("impl_self", "").endswith("CompressionType") and x.get("item_name") == "from" and "creator::Compression" in x["name"]]
    if len(f) != 1:
        raise AnchorLost("From<Compression> for CompressionType")
    f = f[0]
    b = F.body(f)
    s, arms = _variant_arms(F, b, r"creator::Compression$")
    import c14
    got = {k: c14._first_variant(b, tg, "CompressionType", avoid={s}) for k, tg in arms.items()}
    want = {k: k for k in got}
    cx.ob("R5", "R5/creator-enum->tag", bool(got) and got == want and "None" in got, f, "From<Compression> for CompressionType maps every algorithm to the tag of the same name: %s" % got)
    # creator: algorithm -> compressor
    g = F.one(impl_self="ClusterCompressor", item="write_cluster_data", closure=False)
    gb = F.body(g)
    s, arms = _variant_arms(F, gb, r"creator::Compression$")
    got = {k: _first_call(gb, tg, [r"clusterwriter::(lz4|lzma|zstd)_compress$"], avoid={s}) for k, tg in arms.items() if k != "None"}
    ok = bool(got) and all(v and v.endswith("%s_compress" % feats[k]) for k, v in got.items())
    cx.ob("R5", "R5/creator-algorithm->compressor", ok, g, "ClusterCompressor::write_cluster_data dispatches each algorithm to its own compressor: %s" % got)
    # reader: tag -> decompressor
    h = F.one(impl_self="reader::content_pack::cluster::Cluster", item="build_plain_reader", closure=False)
    hb = F.body(h)
    s, arms = _variant_arms(F, hb, r"CompressionType$")
    got = {k: _first_call(hb, tg, [r"cluster::(lz4|lzma|zstd)_source$"], avoid={s}) for k, tg in arms.items() if k != "None"}
    ok = bool(got) and all(v and v.endswith("%s_source" % feats[k]) for k, v in got.items())
    if not ok:
        # the per-algorithm helpers may have other names / shapes: with the type's helpers inlined, under each stored tag the
        # only decompression library reached is the one of that tag
        libs = {"Lz4": r"^lz4::", "Lzma": r"^xz2::", "Zstd": r"^zstd::"}
        db = F.deep_body(h, only=r"reader::content_pack::cluster::")
        en = F.enum("common::compression_type::CompressionType")
        got = {}
        for v in en["variants"]:
            if v["name"] not in libs:
                continue
            r, _ = db.explore(assume_discr={r"compression_type::CompressionType$": v["discr"]}, avoid=db.error_blocks())
            reached = sorted({k for k, pat in libs.items() for i in r if db.term(i)["k"] == "call" and re.search(pat, re.sub(r"^<", "", callee_str(db.term(i))))})
            missing = any(call_is(db.term(i), r"MissingFeatureError") for i in r if db.term(i)["k"] == "call")
            got[v["name"]] = reached or (["(feature not compiled)"] if missing else [])
        ok = bool(got) and all(v == [k] or v == ["(feature not compiled)"] for k, v in got.items())
    cx.ob("R5", "R5/reader-tag->decompressor", ok, h, "Cluster::build_plain_reader dispatches each stored tag to its own decoder: %s" % got)
    # the helpers really use the library of their name (when the feature is compiled in)
    for lib, enc, dec in (("lz4", r"lz4::", r"lz4::"), ("lzma", r"xz2::", r"xz2::"), ("zstd", r"zstd::", r"zstd::")):
        cf = [x for x in F.fns if x["name"].endswith("clusterwriter::%s_compress" % lib)]
        df = [x for x in F.fns if x["name"].endswith("cluster::%s_source" % lib)]
        if not cf:
            continue
        if not df:
            # (decoder helpers renamed or merged: the per-tag clause above has looked at the libraries reached)
            cx.ob("R5", "R5/%s-library" % lib, bool(F.body(cf[0]).calls(enc)), cf[0], "%s_compress calls into the %s library" % (lib, lib))
            continue
        okc = bool(F.body(cf[0]).calls(enc))
        okd = bool(F.body(df[0]).calls(dec)) or bool(F.body(df[0]).calls(r"MissingFeatureError"))
        cx.ob("R5", "R5/%s-library" % lib, okc and okd, cf[0], "%s_compress / %s_source call into the %s library" % (lib, lib, lib))
    # the tag written in the tail: raw writer passes Compression::None, compressor passes self.compression
    w = F.one(impl_self="ClusterWriter", item="write_cluster", closure=False)
    wb = F.body(w)
    sc = wb.calls(r"clusterwriter::serialize_cluster_tail$")
    import c05
    ok = len(sc) == 1 and c05.enum_arg(wb, sc[0][1]["args"][0]) == {"None"}
    cx.ob("R5", "R5/raw-writer-tag", ok, w, "ClusterWriter::write_cluster (verbatim copy) records Compression::None in the tail")
    c = F.one(impl_self="ClusterCompressor", item="compress_cluster", closure=False)
    cb = F.body(c)
    sc = cb.calls(r"clusterwriter::serialize_cluster_tail$")
    ok = len(sc) == 1 and ("field", "compression") in cb.origins(sc[0][1]["args"][0], through_calls=False)
    cx.ob("R5", "R5/compressor-tag", ok, c, "ClusterCompressor::compress_cluster records self.compression (the algorithm it dispatches on) in the tail")


def r6_data_location(cx):
    F = cx.F
    for who, loc in (("compressor", dict(impl_self="ClusterCompressor", item="compress_cluster")), ("raw-writer", dict(impl_self="ClusterWriter", item="write_cluster"))):
        f = F.one(closure=False, **loc)
        b = F.body(f)
        sc = b.calls(r"clusterwriter::serialize_cluster_tail$")
        tells = b.calls(r"OutStream>::tell$")
        ok = len(sc) == 1 and len(tells) == 2
        if ok:
            first, second = sorted(tells, key=lambda x: len(b.dom()[x[0]]))
            raw = sc[0][1]["args"][2]
            oc = {i for i, t in b.origin_calls(raw) if call_is(t, r"tell$")}
            sub = any(call_is(t, r"Sub.*>::sub$") for _, t in b.origin_calls(raw))
            # data is written between the two tells; the tail offset recorded is the second tell
            # (the helper that writes the data, or -- when it has been merged into this function -- what it called)
            wd = [i for i, t in b.calls(r"write_cluster_data$")] or [i for i, t in b.calls(r"::(lz4|lzma|zstd)_compress$", r"OutStream>::copy$")]
            between = bool(wd) and all(b.dominates(first[0], w) for w in wd) and \
                second[0] not in b.reachable(b.term(first[0]).get("t"), avoid=set(wd) | b.error_blocks() | b.panic_blocks())
            agg = [s for blk in b.blocks for s in blk["s"] if s["k"] == "assign" and s["rv"]["k"] == "agg" and s["rv"].get("adt", "").endswith("SizedOffset")]
            off_ok = len(agg) == 1 and any(o == ("call", second[0]) for o in b.origins(dict(zip(agg[0]["rv"]["fnames"], agg[0]["rv"]["fields"]))["offset"], through_calls=False))
            ok = oc == {first[0], second[0]} and sub and between and off_ok
        cx.ob("R6", "R6/%s" % who, ok, f, "stored size = tell(after data) - tell(before data); the recorded tail offset is the position after the data")
    g = F.one(impl_self="reader::content_pack::cluster::Cluster", item="finalize", trait="DataBlockParsable", closure=False)
    gb = F.body(g)
    cut = gb.calls(r"bases::reader::Reader::cut$")
    ok = len(cut) == 1
    if ok:
        t = cut[0][1]
        offo = gb.origin_calls(t["args"][1])
        sub = [tt for _, tt in offo if call_is(tt, r"Offset as std::ops::Sub<.*>>::sub$|Sub.*>::sub$")]
        ok = len(sub) >= 1 and ("param", 2) in gb.origins(sub[0]["args"][0], through_calls=False) and ("param", 1) in gb.origins(sub[0]["args"][1]) and ("param", 1) in gb.origins(t["args"][2])
    cx.ob("R6", "R6/reader", ok, g, "Cluster::finalize cuts the data at [tail_offset - stored size, stored size)")


def width_covers(cx, rule, f, b):
    """for every write_usized(value, width) where width comes from needed_bytes(x): value must share its
    provenance with x (same call / same base object), i.e. the width was computed from (a bound of) it"""
    F = cx.F
    for i, t in b.calls(r"Serializer::write_usized$"):
        wo = [(j, tt) for j, tt in b.origin_calls(t["args"][2], through_calls=False) if call_is(tt, r"bases::needed_bytes::<")]
        if not wo:
            continue
        nb_arg = wo[0][1]["args"][0]
        base_nb = _bases(b, nb_arg)
        base_v = _bases(b, t["args"][1])
        ok = bool(base_v) and base_v <= base_nb
        cx.ob(rule, "%s/%s@value-from:%s" % (rule, f["name"].split("::")[-1], ",".join(sorted(base_v))), ok, f,
              "write_usized(value, width): width = needed_bytes(x) must be computed from a bound of the value; value comes from %s, x from %s" % (sorted(base_v), sorted(base_nb)), ln=t.get("ln"))


def _bases(b, op):
    out = set()
    for o in b.origins(op):
        if o[0] == "param":
            out.add("param:%s" % (b.locals[o[1]].get("name") or o[1]))
    return out


def r7_width_covers(cx):
    F = cx.F
    f = F.one(regex=r"clusterwriter::serialize_cluster_tail$")
    width_covers(cx, "R7", f, F.body(f))


def r8_sampling_rewinds(cx, rule="R8"):
    F = cx.F
    f = F.one(impl_self="ContentPackCreator", item="detect_compression", closure=False)
    b = F.body(f)
    # reads of the content happen only in f or helpers it calls with the content; afterwards the content is
    # positioned at Start(0) / rewind, or at a position saved with stream_position before the read
    readers = b.calls(r"Read>::read_to_end$", r"Read>::read$", r"Read>::read_exact$", r"Read>::take$")
    helper = [(i, t) for i, t in b.calls() if (t.get("callee") or {}).get("rfn") is not None and ("param", 2) in b.origins(t["args"][0] if t["args"] else {}, through_calls=False)
              and F.fns[t["callee"]["rfn"]]["name"] != f["name"] and "blocks" in F.fns[t["callee"]["rfn"]]]
    bodies = [(f, b)] + [(F.fns[t["callee"]["rfn"]], F.body(F.fns[t["callee"]["rfn"]])) for _, t in helper]
    verdicts = []
    for g, gb in bodies:
        rds = gb.calls(r"Read>::read_to_end$")
        if not rds:
            continue
        sk = gb.calls(r"Seek>::seek$", r"Seek>::rewind$")
        good = False
        for si, stt in sk:
            if not all(si in gb.reach_after(ri) for ri, _ in rds):
                continue
            if call_is(stt, r"rewind$"):
                good = True
            else:
                v, opnd = streams.seek_variant(gb, stt)
                if v == "Start" and op_const_val(opnd) == 0:
                    good = True
                elif v == "Start" and any(call_is(tt, r"Seek>::stream_position$") and all(gb.dominates(j, ri) for ri, _ in rds) for j, tt in gb.origin_calls(opnd)):
                    good = True  # saved position restored (InputFile's relative stream_position is checked by R4)
        # every success path from the read to a return passes a repositioning
        if good:
            err = gb.error_blocks()
            sks = {si for si, _ in sk}
            for ri, _ in rds:
                r = gb.reach_after(ri, avoid=sks | err)
                if any(gb.term(x)["k"] == "return" for x in r):
                    good = False
        verdicts.append((g["name"].split("::")[-1], good))
    ok = bool(verdicts) and all(v for _, v in verdicts)
    cx.ob(rule, rule + "/detect-rewinds", ok, f, "after sampling the head of the content for the entropy decision the reader is put back at its start on every success path: %s" % verdicts)


def r9_offset_validity_siblings(cx):
    """the two tail parsers that rebuild an offset table (cluster blobs, indexed value store) validate each
    offset the same way: the inclusive Offset::is_valid(data_size) (an offset equal to the data size is the
    start of a trailing empty item) and nothing stricter"""
    F = cx.F
    import ref as _ref
    for name in ("ClusterBuilder", "ValueStoreBuilder"):
        f = layout.find_parse(F, name)
        b = F.body(f)
        rd = [i for i, t in b.calls(r"Parser>::read_usized$") if i in b.reach_after(i)]
        iv = [(i, t) for i, t in b.calls(r"offset::Offset::is_valid$") if i in b.reach_after(i)]
        ok = len(rd) == 1 and len(iv) == 1
        other = []
        if ok:
            # the loop value (read in the loop) is compared only through is_valid
            tl = b.forward_locals({b.term(rd[0])["dest"]["l"]}, through_calls=False)
            for i, t in b.calls(r"Try>::branch$", r"Into<.*>>::into$", r"From<.*>>::from$"):
                if any(op_base_local(a) in tl for a in t["args"]):
                    tl |= b.forward_locals({t["dest"]["l"]}, through_calls=False)
            for i, blk in enumerate(b.blocks):
                if blk.get("cleanup"):
                    continue
                for s in blk["s"]:
                    if s["k"] == "assign" and s["rv"]["k"] == "bin" and s["rv"]["op"] in ("Lt", "Le", "Gt", "Ge", "Eq", "Ne"):
                        if any(op_base_local(o) in tl for o in (s["rv"]["a"], s["rv"]["b"])):
                            other.append(("%s@%s" % (s["rv"]["op"], s.get("ln"))))
                t = blk["t"]
                if call_is(t, r"PartialOrd.*>::(lt|le|gt|ge)$", r"PartialEq.*>::(eq|ne)$") and any(op_base_local(a) in tl or any(x[0] == "call" and x[1] == rd[0] for x in b.origins(a)) for a in t["args"]):
                    other.append(callee_str(t).split("::")[-1] + "@" + str(t.get("ln")))
            ok = not other and any(x[0] == "call" and x[1] == rd[0] for x in b.origins(iv[0][1]["args"][0]))
        cx.ob("R9", "R9/%s" % name, ok, f, "%s::parse validates each offset read from the tail with the inclusive Offset::is_valid(data_size) only (other comparisons on it: %s)" % (name, other))
    g = F.one(impl_self="bases::types::offset::Offset", item="is_valid", closure=False)
    gb = F.body(g)
    le = [s for blk in gb.blocks for s in blk["s"] if s["k"] == "assign" and s["rv"]["k"] == "bin"]
    cx.ob("R9", "R9/Offset.is_valid-inclusive", len(le) == 1 and le[0]["rv"]["op"] == "Le", g, "Offset::is_valid(size) is `offset <= size`")


def r11_blob_extraction(cx):
    """reader: blob i of a cluster is [offsets[i], offsets[i+1]) of the plain data"""
    F = cx.F
    f = F.one(impl_self="reader::content_pack::cluster::Cluster", item="get_bytes", closure=False)
    b = F.body(f)
    idx = b.calls(r"Vec<bases::types::offset::Offset> as std::ops::Index<usize>>::index$")
    sub = b.calls(r"Offset as std::ops::Sub(<.*>)?>::sub$")
    gbs = b.calls(r"Reader::get_byte_slice$")
    bpr = b.calls(r"Cluster::build_plain_reader$")
    ok = len(idx) == 2 and len(sub) == 1 and len(gbs) == 1 and len(bpr) == 1
    if ok:
        def plus_one(op):
            l = op_local(op)
            for d in b.defs().get(l, []):
                if d[0] == "stmt" and d[3]["k"] == "assign":
                    rv = d[3]["rv"]
                    if rv["k"] == "bin" and rv["op"] in ("Add", "AddWithOverflow") and op_const_val(rv["b"]) == 1:
                        return True
                    if rv["k"] == "use" and op_place(rv["op"]) and op_place(rv["op"]).get("p"):
                        return plus_one({"cp": {"l": op_place(rv["op"])["l"]}})
                    if rv["k"] == "use":
                        return plus_one(rv["op"])
            return False
        first = [(i, t) for i, t in idx if not plus_one(t["args"][1])]
        second = [(i, t) for i, t in idx if plus_one(t["args"][1])]
        ok = len(first) == 1 and len(second) == 1 and all(("param", 2) in b.origins(t["args"][1]) and ("field", "blob_offsets") in b.origins(t["args"][0]) for _, t in idx)
        if ok:
            st = sub[0][1]
            ok = any(x == ("call", second[0][0]) for x in b.origins(st["args"][0], through_calls=False)) and any(x == ("call", first[0][0]) for x in b.origins(st["args"][1], through_calls=False))
            gt = gbs[0][1]
            ok = ok and any(x == ("call", first[0][0]) for x in b.origins(gt["args"][1], through_calls=False)) and any(x == ("call", sub[0][0]) for x in b.origins(gt["args"][2], through_calls=False))
            ok = ok and b.dominates(bpr[0][0], gbs[0][0])
    cx.ob("R11", "R11/get_bytes", ok, f, "Cluster::get_bytes(i) = plain_reader.get_byte_slice(offsets[i], offsets[i+1] - offsets[i]) after build_plain_reader()")
    g = layout.find_parse(F, "ClusterBuilder")
    gb = F.body(g)
    push = gb.calls(r"Vec::<bases::types::offset::Offset>::push$")
    zero = gb.calls(r"Offset::zero$")
    # the terminal element is pushed once after the loop (elements stored inside the loop -- by `push` or by writing
    # into the spare capacity -- are the implicit 0 and the stored end offsets)
    push = [p for p in push if not _in_loop(gb, p[0])]
    # the implicit 0 is produced once: inside the loop (a `first` flag) or right before it (`split_first_mut`)
    ok = len(push) == 1 and len(zero) == 1 and (_in_loop(gb, zero[0][0]) or push[0][0] in gb.reach_after(zero[0][0]))
    if ok:
        o = gb.origins(push[0][1]["args"][1])
        rd = sorted(i for i, t in gb.calls(r"Parser>::read_usized$") if not _in_loop(gb, i))
        ok = len(rd) == 2 and any(x == ("call", rd[1]) for x in o) and not any(x == ("call", rd[0]) for x in o)
    cx.ob("R11", "R11/offset-table", ok, g, "ClusterBuilder::parse builds offsets = [0 (implicit), stored end offsets…, data_size]: the pushed last offset is the second sized field (data size), not the stored size")


def _in_loop(b, bb):
    return bb in b.reach_after(bb)


def r12_address_resolution(cx):
    """reader: content id -> (cluster index, blob index) -> bytes, each step keyed by the value read for that content"""
    F = cx.F
    f = F.one(impl_self="ContentPack", item="get_content", closure=False, trait="")
    b = F.body(f)
    ci = [(i, t) for i, t in b.calls(r"IndexTrait.*>::index$|ArrayReader<.*>::index$") if ("field", "content_infos") in b.origins(t["args"][0], through_calls=False)]
    gc = b.calls(r"ContentPack::get_cluster$")
    gb_ = b.calls(r"Cluster::get_bytes$")
    ok = len(ci) == 1 and len(gc) == 1 and len(gb_) == 1
    if ok:
        o1 = b.origins(gc[0][1]["args"][1])
        o2 = b.origins(gb_[0][1]["args"][1])
        ok = ("param", 2) in b.origins(ci[0][1]["args"][1]) and ("field", "cluster_index") in o1 and any(x == ("call", ci[0][0]) for x in o1) \
            and ("field", "blob_index") in o2 and any(x == ("call", ci[0][0]) for x in o2) and any(x == ("call", gc[0][0]) for x in b.origins(gb_[0][1]["args"][0]))
    cx.ob("R12", "R12/get_content", ok, f, "get_content(i): content_infos[i] -> get_cluster(info.cluster_index) -> cluster.get_bytes(info.blob_index)")
    h = F.one(impl_self="ContentPack", item="get_cluster", closure=False)
    hb = F.body(h)
    tg = hb.calls(r"LruCache<.*>::try_get_or_insert|LruCache::<.*>::try_get_or_insert")
    ok = len(tg) == 1 and ("param", 2) in hb.origins(tg[0][1]["args"][1])
    loader_ok = False
    if ok:
        # the miss handler: the closure given to the cache, seen with ContentPack's own helpers inlined
        cl = []
        for c in F.closures_of(h):
            if "blocks" not in c:
                continue
            cb = F.deep_body(c, only=r"content_pack::ContentPack")
            if cb.calls(r"Reader::parse_data_block::<.*Cluster>$"):
                cl.append((c, cb))
        ok = len(cl) == 1
        if ok:
            c, cb = cl[0]
            cp = [(i, t) for i, t in cb.calls(r"IndexTrait.*>::index$|ArrayReader<.*>::index$") if ("field", "cluster_ptrs") in cb.origins(t["args"][0], through_calls=False)]
            pd = cb.calls(r"Reader::parse_data_block::<.*Cluster>$")
            # parse_data_block::<Cluster>(cluster_ptrs[c]) with c captured from the environment of the closure
            loader_ok = len(cp) == 1 and len(pd) == 1 and ("param", 1) in cb.origins(cp[0][1]["args"][1]) and any(x == ("call", cp[0][0]) for x in cb.origins(pd[0][1]["args"][1]))
            # the closure loads the same index it is cached under: both captured from the parameter
            caps = [st for blk in hb.blocks for st in blk["s"] if st["k"] == "assign" and st["rv"]["k"] == "agg" and st["rv"].get("closure_fn") == c["id"]]
            ok = len(caps) == 1 and any(("param", 2) in hb.origins(fo) for fo in caps[0]["rv"]["fields"])
    cx.ob("R12", "R12/_get_cluster", loader_ok, h, "the miss handler of the cluster cache loads parse_data_block::<Cluster>(cluster_ptrs[c])")
    cx.ob("R12", "R12/cache-key-is-loaded-index", ok, h, "the cluster cache is keyed by the cluster index that the miss handler loads")


def r13_creator_addresses(cx):
    """creator: the address returned on insertion is the position of the content's info in the table that is
    written, and the info names the cluster/blob the content was put in"""
    F = cx.F
    f = [x for x in F.find(impl_self="ContentPackCreator", item="add_content", closure=False) if x.get("impl_trait") is None][0]
    b = F.body(f)
    ac = b.calls(r"ClusterCreator::add_content$")
    pu = b.calls(r"Vec::<common::content_info::ContentInfo>::push$")
    ln = b.calls(r"Vec::<common::content_info::ContentInfo>::len$")
    ca = b.calls(r"ContentAddress::new$")
    ok = len(ac) == 1 and len(pu) == 1 and len(ln) == 1 and len(ca) == 1
    if ok:
        ok = any(x == ("call", ac[0][0]) for x in b.origins(pu[0][1]["args"][1])) and b.dominates(pu[0][0], ln[0][0]) and any(x == ("call", ln[0][0]) for x in b.origins(ca[0][1]["args"][1])) \
            and ("field", "pack_id") in b.origins(ca[0][1]["args"][0])
        sub1 = any(s["k"] == "assign" and s["rv"]["k"] == "bin" and s["rv"]["op"] in ("Sub", "SubWithOverflow") and op_const_val(s["rv"]["b"]) == 1 for blk in b.blocks for s in blk["s"])
        ok = ok and sub1
    cx.ob("R13", "R13/add_content", ok, f, "add_content pushes the ContentInfo returned by the cluster and returns ContentAddress(pack_id, content_infos.len() - 1)")
    g = F.one(impl_self="ClusterCreator", item="add_content", closure=False)
    gb = F.body(g)
    ci = gb.calls(r"ContentInfo::new$")
    pd = gb.calls(r"Vec::<std::boxed::Box<dyn creator::InputReader>>::push$")
    po = gb.calls(r"Vec::<u64>::push$")
    ln = gb.calls(r"Vec::<u64>::len$")
    ok = len(ci) == 1 and len(pd) == 1 and len(po) == 1 and len(ln) >= 1
    if ok:
        o = gb.origins(ci[0][1]["args"][1])
        first_len = [i for i, _ in ln if gb.dominates(i, po[0][0])]
        ok = ("field", "index") in gb.origins(ci[0][1]["args"][0]) and any(x[0] == "call" and x[1] in first_len for x in o) and ("param", 2) in gb.origins(pd[0][1]["args"][1])
        # new offset = last offset + content size
        oo = gb.origins(po[0][1]["args"][1])
        ok = ok and any(x[0] == "call" and call_is(gb.term(x[1]), r"InputReader>::size$") for x in oo) and ("field", "offsets") in oo
        # both vectors grow for EVERY content (they are indexed by the same blob number; `is_empty`, the blob count
        # and the data written are computed from one or the other): no successful path skips a push
        ok = ok and gb.must_pass_before_return({pd[0][0]}) and gb.must_pass_before_return({po[0][0]})
    cx.ob("R13", "R13/ClusterCreator.add_content", ok, g, "the blob index is offsets.len() before the push; data and cumulative end offset are pushed for that same content")
    # a cluster that holds a content -- even a zero-length one -- has an index and content infos pointing at it: it must be
    # written. `is_empty` (which decides whether the clusters still open at finalize are written) answers from the number
    # of contents, never from their size
    e = F.one(impl_self="ClusterCreator", item="is_empty", closure=False)
    eb = F.deep_body(e, only=r"cluster::ClusterCreator::")
    cnt = eb.calls(r"Vec::<.*>::(is_empty|len)$", r"\[.*\]>::(is_empty|len)$")
    sized = [callee_str(t).split("::<")[0] for i, t in eb.calls(r"Size|::last$|::sum|InputReader>::size$|::iter$") if not eb.is_cleanup(i)]
    from_count = False
    for i in range(eb.n):
        for st in eb.blocks[i]["s"]:
            if st["k"] == "assign" and st["lhs"]["l"] == 0:
                from_count = from_count or any(x[0] == "call" and x[1] in {c for c, _ in cnt} for x in eb.origins(st["rv"]["op"] if st["rv"]["k"] == "use" else 0))
        t = eb.term(i)
        if t["k"] == "call" and t["dest"]["l"] == 0 and i in {c for c, _ in cnt}:
            from_count = True
    fields = {x[1] for c, t in cnt for x in eb.origins(t["args"][0]) if x[0] == "field"}
    cx.ob("R13", "R13/ClusterCreator.is_empty/counts-contents", bool(cnt) and from_count and not sized and bool(fields & {"data", "offsets"}), e,
          "is_empty answers from the number of contents (len / is_empty of data or offsets), not from their size (size-based calls: %s)" % (sized or "none"))
    h = F.one(impl_self="ContentPackCreator", item="finalize", closure=False)
    hb = F.body(h)
    cls = [c for c in F.closures_of(h) if "blocks" in c]
    addr = [c for c in cls if F.body(c).calls(r"SizedOffset as .*Serializable>::serialize$")]
    info = [c for c in cls if F.body(c).calls(r"ContentInfo as .*Serializable>::serialize$")]
    ok = len(addr) == 1 and len(info) == 1
    if ok:
        def forward_iter(c):
            # the closure that serialises an element and the closures around it up to finalize (`|ser| v.iter().try_for_each(|x| ..)`)
            chain = [c]
            while chain[-1].get("parent") is not None and chain[-1]["parent"] != h["id"] and F.fns[chain[-1]["parent"]].get("kind") == "closure":
                chain.append(F.fns[chain[-1]["parent"]])
            bodies = [F.body(x) for x in chain]
            loops = any(cb.calls(r"IntoIterator>::into_iter$") and cb.calls(r"slice::Iter<.*> as std::iter::Iterator>::next$") for cb in bodies) \
                or any(cb.calls(r"slice::Iter<.*> as std::iter::Iterator>::(try_for_each|for_each)::<") for cb in bodies)
            return bool(loops) and not any(cb.calls(r"::rev$|::skip$|::step_by$|::filter|::rev::<|::skip::<") for cb in bodies)
        ok = forward_iter(addr[0]) and forward_iter(info[0])
    cx.ob("R13", "R13/tables-written-in-index-order", ok, h, "finalize writes the cluster address table and the content info table by iterating the vectors forward (position = id)")


def r14_dedup_adder(cx):
    """with the deduplicating adder an address is shared only by contents with the same Blake3 of their WHOLE bytes"""
    import c16
    before = len(cx.obs)
    c16.r4_dedup(cx)
    for o in cx.obs[before:]:
        o.rule = "R14"
        o.key = "R14/" + o.key.split("/", 1)[1]


def r15_pack_table_covers_every_id(cx):
    """a content address names its pack by a 16-bit id, every value of which is admissible: the table of packs the
    container builds at open time has `max id + 1` slots computed in usize -- no arithmetic on the 16-bit id itself
    (65535 + 1 overflows: debug builds panic at open, release builds build an empty table and lose the contents)"""
    F = cx.F
    f = F.one(impl_self="reader::jubako::Container", item="new_with_locator", closure=False)
    b = F.deep_body(f, only=r"reader::jubako::Container::")
    rs = b.calls(r"Vec::<.*OnceLock<.*ContentPack>>::resize_with::<|Vec::<.*ContentPack.*>::(resize|resize_with|with_capacity)")
    if not rs:
        raise AnchorLost("Container::new_with_locator: the pack table is no longer sized with resize_with")
    narrow = []
    for i, blk in enumerate(b.blocks):
        if blk.get("cleanup"):
            continue
        for st in blk["s"]:
            if st["k"] == "assign" and st["rv"]["k"] == "bin" and st["rv"]["op"] in ("Add", "AddWithOverflow", "Mul", "MulWithOverflow", "Shl") and st["rv"].get("a_ty") in ("u16", "u8"):
                o = b.origins(st["rv"]["a"]) | b.origins(st["rv"]["b"])
                if any(x[0] == "call" and call_is(b.term(x[1]), r"ManifestPack::max_id$|PackId::into_u16$") for x in o) or ("field", "max_id") in o:
                    narrow.append(st.get("ln"))
    lo = b.origins(rs[0][1]["args"][1])
    from_max = any(x[0] == "call" and call_is(b.term(x[1]), r"ManifestPack::max_id$") for x in lo) or ("field", "max_id") in lo
    cx.ob("R15", "R15/pack-table-size-in-usize", from_max and not narrow, f,
          "the pack table has max_id + 1 slots with the addition done after widening to usize (16-bit additions on the id at lines %s)" % narrow, ln=rs[0][1].get("ln"))


def r16_cluster_index_fits(cx):
    """a content info stores the index of its cluster on 32 - 12 = 20 bits (`cluster_index << 12`): wherever the creator
    makes a new cluster, the index it gives it has been compared with a constant no larger than 2^20 - 1 on the only
    path that reaches `ClusterCreator::new` (the 1048577th cluster otherwise wraps to index 0 and its contents are
    answered with the bytes of another cluster, with no error on either side)"""
    F = cx.F
    bits = 32 - ref.REF["sizes"]["ContentInfo.blob_bits"]
    n = 0
    for f in F.live_fns:
        if "blocks" not in f or not re.search(r"creator::content_pack::", f["name"]):
            continue
        b = None
        for i, blk in enumerate(f["blocks"]):
            t = blk["t"]
            if blk.get("cleanup") or not call_is(t, r"cluster::ClusterCreator::new$"):
                continue
            b = b or F.body(f)
            srcs = {x for x in b.origins(t["args"][0]) if x[0] in ("call", "field") or (x[0] == "param" and x[1] != 1)}
            gs = upper_bound_guards(b, i, srcs)
            n += 1
            best = min((c for _, c in gs), default=None)
            cx.ob("R16", "R16/%s/cluster-index-fits" % f["name"].split("::")[-1], best is not None and best <= (1 << bits) - 1, f,
                  "the index given to a new cluster is at most %s on the path that creates it (field width: %d bits, i.e. at most %d)" % (best, bits, (1 << bits) - 1), ln=t.get("ln"))
    if not n:
        raise AnchorLost("no call of ClusterCreator::new in the content pack creator")


def r17_content_rewound_before_queued(cx):
    """a content is its whole reader (`size()` is the whole length, the offsets of the cluster are computed from it):
    on every path of ContentPackCreator::add_content, from the entry and from every read of the content, the reader is
    put back at its start (rewind / seek(Start(0))) before it is handed to the cluster"""
    F = cx.F
    f = F.one(impl_self="ContentPackCreator", item="add_content", closure=False, trait="")
    b = F.deep_body(f, only=r"content_pack::creator::ContentPackCreator")
    queue = b.calls(r"cluster::ClusterCreator::add_content$")
    if not queue:
        raise AnchorLost("ContentPackCreator::add_content no longer hands the content to ClusterCreator::add_content")
    rew = set()
    for i, t in b.calls(r"Seek>::seek$", r"Seek>::rewind$"):
        if call_is(t, r"rewind$"):
            rew.add(i)
        else:
            v, opnd = streams.seek_variant(b, t)
            if v == "Start" and op_const_deep(b, opnd) == 0:
                rew.add(i)
    reads = [i for i, _ in b.calls(r"Read>::read_to_end$", r"Read>::read$", r"Read>::read_exact$")]
    err = b.error_blocks()
    bad = []
    for start, what in [(0, "entry")] + [(t_, "read at line %s" % b.term(r).get("ln")) for r in reads for t_ in [b.term(r).get("t")] if t_ is not None]:
        r = b.reachable(start, avoid=rew | err)
        if any(q in r for q, _ in queue) and start not in rew:
            bad.append(what)
    cx.ob("R17", "R17/add_content/rewound-before-queued", not bad, f,
          "every path to ClusterCreator::add_content passes a rewind / seek(Start(0)) of the content (%d sites); paths without one start at: %s" % (len(rew), bad), ln=queue[0][1].get("ln"))


def r18_tables_are_single_blocks(cx, rule="R18"):
    """the tables of a pack (content infos, cluster pointers, the three pointer arrays of a directory pack) are each
    ONE checked block: `count * SIZE` bytes followed by one CRC, which is how the reader cuts them
    (ArrayReader::new_memory_from_reader). On the writer side each is one `ser_callable` that is not inside a loop
    -- written in several pieces, every piece gets its own CRC in the middle of the table (and an empty table none)."""
    F = cx.F
    n = 0
    for f in F.live_fns:
        if "blocks" not in f or f.get("kind") == "closure" or not re.search(r"^creator::", f["name"]):
            continue
        if not any(call_is(blk["t"], r"OutStream>::ser_callable$|::ser_callable$") for blk in f["blocks"] if not blk.get("cleanup")):
            continue
        b = F.body(f)
        nm = ((f.get("impl_self") or "").split("<")[0].split("::")[-1] + "." + f["item_name"]) if f.get("impl_self") and f.get("item_name") else f["name"].split("::")[-1]
        for k, (i, t) in enumerate(b.calls(r"::ser_callable$")):
            n += 1
            cx.ob(rule, "%s/%s/table#%d-is-one-block" % (rule, nm, k), i not in b.reach_after(i), f,
                  "the table written by ser_callable at line %s is written once (the call is not inside a loop)" % t.get("ln"), ln=t.get("ln"))
    if n < 5:
        raise AnchorLost("tables written with ser_callable by the creators: %d" % n)


def r19_positions_taken_on_the_buffered_stream(cx, rule="R19"):
    """'stored size = position after the data - position before': a position of the output is asked of the stream the
    bytes are written to. Asking the stream *under* a BufWriter (`get_mut()` / `get_ref()`) ignores what is still
    in the buffer -- the tail of the previous cluster, a small compressed cluster -- so the answer depends on what the
    previous task left there (C08: on the order the workers delivered their clusters)."""
    F = cx.F
    n = 0
    bad = []
    for f in F.live_fns:
        if "blocks" not in f or not re.search(r"^creator::|^tools::|^bases::write::", f["name"]):
            continue
        b = None
        for i, blk in enumerate(f["blocks"]):
            t = blk["t"]
            if blk.get("cleanup") or not call_is(t, r"OutStream>::tell$|::tell$", r"Seek>::stream_position$", r"Seek>::seek$"):
                continue
            b = b or F.body(f)
            n += 1
            if not t["args"]:
                continue
            for x in b.origins(t["args"][0], through_calls=True):
                if x[0] == "call" and call_is(b.term(x[1]), r"BufWriter::<.*>::get_mut$", r"BufWriter::<.*>::get_ref$"):
                    bad.append((f, t.get("ln")))
    for f, ln in bad:
        cx.ob(rule, "%s/%s/position-of-the-inner-stream" % (rule, f["name"].split("::")[-1]), False, f,
              "a position is taken (or set) on the stream under a BufWriter at line %s: bytes still in the buffer are not counted" % ln, ln=ln)
    cx.ob(rule, "%s/positions-on-the-writing-stream" % rule, not bad, "(creator)", "%d position queries / seeks of the creators, none on the inner stream of a BufWriter" % n)
    if n < 20:
        raise AnchorLost("position queries in the creators: %d" % n)


def r20_no_partial_write_accepted(cx):
    """every byte of a content reaches its cluster: a direct `Write::write` into the compressor or the file may take
    fewer bytes than it is given; its count decides a retry or the bytes are gone (= C09-R7 under C01)"""
    import c09
    c09.r7_no_partial_write_accepted(cx, rule="R20")


def r21_decoded_length_counts_bytes_read(cx):
    """on the reading side a compressed cluster is its decompressed stream, byte for byte: the background decoder advances
    by what each read returned, never by what it asked for (a short read of the decompressor would otherwise leave a hole
    and shift everything behind it) (= C07-R1/R2 under C01)"""
    import c07
    orig = cx.ob

    def ob(rule, key, *a, **kw):
        return orig("R21", "R21/" + key.split("/", 1)[1], *a, **kw)
    cx.ob = ob
    try:
        c07.r1_publish(cx)
        c07.r2_no_realloc(cx)
    finally:
        cx.ob = orig


def r22_cluster_reader_chosen_by_the_stored_tag(cx):
    """whether the bytes of a cluster are served as they are or through a decoder is what its header says
    (`compression`): where `Cluster::finalize` builds the reader state, the branch that separates "plain" from "to be
    decoded" tests that field -- not the sizes (a compressed stream can be exactly as long as its data)."""
    F = cx.F
    f = F.one(impl_self="reader::content_pack::cluster::Cluster", item="finalize", trait="DataBlockParsable", closure=False)
    b = F.deep_body(f, only=r"reader::content_pack::cluster::")
    sites = [i for i, blk in enumerate(b.blocks) if not blk.get("cleanup") and (
        any(st["k"] == "assign" and st["rv"]["k"] == "agg" and (st["rv"].get("adt") or "").endswith("cluster::ClusterReader") for st in blk["s"])
        or call_is(blk["t"], r"cluster::ClusterReader::\w+$"))]
    if len(sites) < 2:
        raise AnchorLost("Cluster::finalize: %d constructions of the reader state" % len(sites))
    deciding = set()
    for i in sites:
        deciding |= set(b.control_dep_switches(i))
    by_tag = [s_ for s_ in deciding if ("field", "compression") in b.origins(b.term(s_)["op"])]
    by_size_only = [b.ln(s_) for s_ in deciding if s_ not in by_tag and any(x[0] == "field" and "size" in x[1] for x in b.origins(b.term(s_)["op"]))]
    cx.ob("R22", "R22/Cluster.finalize/reader-chosen-by-the-stored-tag", bool(by_tag), f,
          "the branch between the plain and the to-be-decoded reader tests the compression recorded in the cluster header (%d such branches; branches on sizes only: lines %s)" % (len(by_tag), by_size_only))


def r10_witness(cx):
    """type-level: ContentPackCreator::finalize consumes the creator (no insertion after finalisation)"""
    import witness
    for name, ok, detail in witness.run(["c01_finalize_consumes"], repo=cx.repo):
        cx.ob("R10", "R10/%s" % name, ok, "/verif/witness/src/lib.rs", detail)


r10_witness.only_configs = ("lib-all3",)

# without any compression feature the Compression enum has a single variant: the compressed path does not exist
WITH_COMPRESSION = ("lib-all3", "lib-default", "all-bins", "lib-release")
r5_compression_tables.only_configs = WITH_COMPRESSION
r8_sampling_rewinds.only_configs = WITH_COMPRESSION

def r23_address_table_only_grows(cx):
    """'reads back byte-identical': the address of a written cluster stays in the table (= C08-R1 under C01: the table of
    cluster addresses is indexed by the id the task carries and is only ever grown)"""
    import c08
    reuse(cx, c08.r1_address_table, "R1", "R23")


RULES = [
    ("R23", r23_address_table_only_grows, 6),
    ("R1", r1_cluster_tail, 8),
    ("R2", r2_packing, 6),
    ("R3", r3_no_such_content, 3),
    ("R4", r4_input_file, 3),
    ("R5", r5_compression_tables, 6),
    ("R6", r6_data_location, 3),
    ("R7", r7_width_covers, 3),
    ("R8", r8_sampling_rewinds, 1),
    ("R9", r9_offset_validity_siblings, 3),
    ("R10", r10_witness, 1),
    ("R11", r11_blob_extraction, 2),
    ("R12", r12_address_resolution, 3),
    ("R13", r13_creator_addresses, 3),
    ("R14", r14_dedup_adder, 3),
    ("R15", r15_pack_table_covers_every_id, 1),
    ("R16", r16_cluster_index_fits, 1),
    ("R17", r17_content_rewound_before_queued, 1),
    ("R18", r18_tables_are_single_blocks, 5),
    ("R19", r19_positions_taken_on_the_buffered_stream, 1),
    ("R20", r20_no_partial_write_accepted, 1),
    ("R21", r21_decoded_length_counts_bytes_read, 6),
    ("R22", r22_cluster_reader_chosen_by_the_stored_tag, 1),
]
