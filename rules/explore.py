#!/usr/bin/env python3
"""debug helper: ./rules/explore.py <config> mir|hir|fns <name-regex>"""
import json, os, re, sys
sys.path.insert(0, os.path.dirname(os.path.abspath(__file__)))
import extract
from lib import *

def pl(p):
    s = "_%d" % p["l"]
    for e in p.get("p", []):
        if e == "*": s = "(*%s)" % s
        elif isinstance(e, dict) and "f" in e: s += "." + str(e.get("n", e["f"]))
        elif isinstance(e, dict) and "idx" in e: s += "[_%d]" % e["idx"]
        elif isinstance(e, dict) and "down" in e: s += " as %s" % e.get("n")
        else: s += "{%s}" % json.dumps(e)
    return s
def op(o):
    if "cp" in o: return pl(o["cp"])
    if "mv" in o: return "move " + pl(o["mv"])
    c = o["c"]
    if "fn" in c: return "fn:" + c["fn_path"]
    if "val" in c: return "const %s%s" % (c["val"], (" /*%s*/" % c["cdef"]) if "cdef" in c else "")
    if "str" in c: return "const %r" % c["str"]
    return "const<%s>%s" % (short(c["ty"], 50), (" /*%s*/" % c["cdef"]) if "cdef" in c else "")
def rv(r):
    k = r["k"]
    if k == "use": return op(r["op"])
    if k == "ref": return "&%s%s" % ("mut " if r["bk"] == "mut" else "", pl(r["pl"]))
    if k == "bin": return "%s(%s, %s)" % (r["op"], op(r["a"]), op(r["b"]))
    if k == "un": return "%s(%s)" % (r["op"], op(r["a"]))
    if k == "cast": return "%s as %s [%s]" % (op(r["op"]), short(r["ty"], 50), r["ck"])
    if k == "discr": return "discr(%s)" % pl(r["pl"])
    if k == "agg":
        nm = r.get("adt", r["ak"]) + ("::" + r["variant"] if "variant" in r else "")
        return "%s{%s}" % (nm, ", ".join(op(f) for f in r["fields"]))
    return json.dumps(r)[:120]
def show_mir(F, f):
    print("fn #%d %s  %s:%d" % (f["id"], f["name"], f["file"], f["line"]))
    for i, l in enumerate(f["locals"]):
        if l.get("name") or i <= f["arg_count"]:
            print("   _%d: %s %s" % (i, short(l["ty"], 90), l.get("name", "")))
    for i, b in enumerate(f["blocks"]):
        print(" bb%d%s:" % (i, " (cleanup)" if b.get("cleanup") else ""))
        for s in b["s"]:
            if s["k"] == "assign":
                print("    %s = %s   //%s %s" % (pl(s["lhs"]), rv(s["rv"]), s.get("ln"), s.get("mac", "")))
            else:
                print("    ", json.dumps(s)[:150])
        t = b["t"]
        k = t["k"]
        if k == "call":
            print("    %s = CALL %s(%s) -> bb%s unw %s  //%s %s" % (pl(t["dest"]), short(callee_str(t), 140), ", ".join(op(a) for a in t["args"]), t.get("t"), t.get("unwind"), t.get("ln"), t.get("mac", "")))
        elif k == "switch":
            print("    SWITCH %s %s -> %s else bb%s //%s" % (op(t["op"]), t["vals"], t["targets"], t["otherwise"], t.get("ln")))
        elif k == "assert":
            print("    ASSERT %s==%s %s -> bb%s //%s" % (op(t["cond"]), t["expected"], t["msg"], t["t"], t.get("ln")))
        elif k == "drop":
            print("    DROP %s -> bb%s" % (pl(t["pl"]), t["t"]))
        else:
            print("    %s %s" % (k.upper(), t.get("t", "")))
def show_hir(nodes, ind=0):
    for n in nodes:
        k = n.get("k"); p = "  " * ind
        if k == "call":
            show_hir(n.get("sub", []), ind + 1)
            print("%sCALL %s recv=%s args=%s  //%s %s" % (p, short(hcall_str(n), 110), (n.get("recv") or {}).get("snip"), [a.get("snip") for a in n["args"]], n.get("ln"), n.get("mac", "")))
        elif k == "match":
            show_hir(n["pre"], ind + 1)
            print("%sMATCH %s //%s" % (p, n["scrut"], n.get("ln")))
            for a in n["arms"]:
                print("%s  ARM %s %s" % (p, a["pat"], ("if " + a.get("guard_snip", "")) if a.get("guard") else ""))
                show_hir(a["body"], ind + 2)
        elif k == "if":
            show_hir(n["pre"], ind + 1)
            print("%sIF %s //%s" % (p, n["cond"], n.get("ln")))
            show_hir(n["then"], ind + 1)
            if n["else"]:
                print("%sELSE" % p); show_hir(n["else"], ind + 1)
        elif k == "loop":
            show_hir(n["pre"], ind + 1)
            print("%sLOOP[%s] %s in %s //%s" % (p, n["src"], n.get("pat", ""), n.get("iter", ""), n.get("ln")))
            show_hir(n["body"], ind + 1)
        elif k == "closure":
            print("%sCLOSURE fn#%s //%s" % (p, n.get("fn"), n.get("ln"))); show_hir(n["body"], ind + 1)
        elif k == "struct":
            show_hir(n.get("sub", []), ind + 1)
            print("%sSTRUCT %s {%s} //%s" % (p, n["path"], ", ".join("%s: %s" % (f["name"], f["value"].get("snip")) for f in n["fields"]), n.get("ln")))
        else:
            show_hir(n.get("sub", []), ind + 1)
            extra = ""
            if k == "let": extra = n["pat"] + " = " + str((n.get("init") or {}).get("snip"))
            if k in ("binop", "assignop", "assign", "index"): extra = "%s %s %s" % ((n.get("a") or {}).get("snip"), n.get("op", ""), (n.get("b") or {}).get("snip"))
            if k == "cast": extra = n["snip"]
            if k == "ret": extra = str((n.get("value") or {}).get("snip"))
            print("%s%s %s //%s" % (p, k, extra, n.get("ln")))
if __name__ == "__main__":
    cfg, what, rx = sys.argv[1], sys.argv[2], sys.argv[3]
    out, sha = extract.facts_path(cfg)
    which = "jbk.bin.json" if os.environ.get("BIN") else "jubako.lib.json"
    F = Facts(os.path.join(out, which), cfg)
    for f in F.fns:
        if re.search(rx, f["name"]):
            if what == "fns": print(f["id"], f["name"], f["file"], f["line"], f.get("impl_self"), f.get("impl_trait"))
            elif what == "mir": show_mir(F, f)
            elif what == "hir": print("fn #%d %s" % (f["id"], f["name"])); show_hir(F.tree(f))
