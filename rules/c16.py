"""C16 — the compression hint decides how a content is stored.
R1 hint -> decision table; R2 the flag is carried unchanged to slot selection, dispatch and the
finalisation of both slots; R3 the tail says what was done; R4 deduplicating adder."""
import re
from lib import *
import c01, c05

PROPERTY = "C16"
EXPLANATION = ("Decided from MIR: (R1) ContentPackCreator::detect_compression returns the constant Ok(false) when the pack has no "
               "compression (before looking at the hint), the constant Ok(true) for hint Yes, Ok(false) for No, and only Detect reads the "
               "content (and puts it back at its start, C01-R8); (R2) add_content passes detect_compression's result to get_open_cluster, "
               "where the same flag selects the slot (both open_cluster_ref! selections), the new cluster's kind and the flag given to "
               "ClusterWriterProxy::write_cluster; there dispatch_tx.send is taken iff (compression != None and flag) and fusion_tx.send "
               "otherwise; finalize writes the raw slot with false and the compressed slot with true; (R3) the raw writer records "
               "Compression::None and copies inputs verbatim, the compressor records self.compression (C01-R5 checks the tag tables); (R4) "
               "CachedContentAdder::cache_content calls the wrapped adder only on the Vacant arm, inserts and returns its result, returns "
               "the stored address on the Occupied arm, and the key is the Blake3 of the whole content (input rewound afterwards). The entropy "
               "threshold and hash collisions are not decided."
               ' Added later: (R5) compressor workers only build WriteTask::Compressed; (R6) the configured Compression reaches the cluster writer and the routing decision unchanged. (R4) the cache key is the hash alone.')
EXPLANATION += ' Batch 11: (R7) a cluster that holds contents is written whatever their size (= C01-R13).'
ASSUMPTIONS = ["Blake3 collision resistance", "HashMap entry API semantics", "rustc MIR construction and trait resolution"]


def _ok_returns(b):
    out = []
    for i, blk in enumerate(b.blocks):
        if blk.get("cleanup"):
            continue
        for s in blk["s"]:
            if s["k"] == "assign" and s["rv"]["k"] == "agg" and s["rv"].get("adt", "").endswith("Result") and s["rv"].get("variant") == "Ok" and s["lhs"]["l"] == 0:
                out.append((i, s["rv"]["fields"][0]))
    return out


def r1_decision_table(cx):
    F = cx.F
    f = F.one(impl_self="ContentPackCreator", item="detect_compression", closure=False)
    b = F.body(f)
    s1, comp_arms = c01._variant_arms(F, b, r"creator::Compression$")
    s2, hint_arms = c01._variant_arms(F, b, r"content_pack::CompHint$")
    ok = s1 is not None and s2 is not None
    cx.ob("R1", "R1/anchors", ok, f, "detect_compression switches on self.compression and on the hint")
    if not ok:
        return
    oks = _ok_returns(b)
    reads = {i for i, t in b.calls(r"Read>::read_to_end$", r"Read>::read$", r"Read>::take$", r"creator::peek|::peek_head$")} | \
        {i for i, t in b.calls() if (t.get("callee") or {}).get("rfn") is not None and t["args"] and ("param", 2) in b.origins(t["args"][0], through_calls=False) and not call_is(t, r"shannon_entropy")}

    def const_arm(start, avoid, want):
        r = b.reachable(start, avoid=avoid)
        vals = [op_const_val(fld) for i, fld in oks if i in r]
        return vals == [want] and not (reads & r)
    t1 = b.term(s1)
    none_arm = comp_arms.get("None")
    if none_arm is None:
        none_arm = t1["otherwise"] if "None" not in comp_arms else None
    cx.ob("R1", "R1/no-compression->false", none_arm is not None and const_arm(none_arm, {s1, s2}, False) and b.dominates(s1, s2), f,
          "a pack created without compression answers Ok(false) before the hint is consulted")
    cx.ob("R1", "R1/hint-yes->true", "Yes" in hint_arms and const_arm(hint_arms["Yes"], {s2}, True), f, "hint Yes answers the constant Ok(true) without reading the content")
    cx.ob("R1", "R1/hint-no->false", "No" in hint_arms and const_arm(hint_arms["No"], {s2}, False), f, "hint No answers the constant Ok(false) without reading the content")
    det = hint_arms.get("Detect", b.term(s2)["otherwise"])
    r = b.reachable(det, avoid={s2})
    cx.ob("R1", "R1/only-detect-reads", bool(reads & r), f, "only the Detect arm reads (samples) the content")
    c01.r8_sampling_rewinds(cx, rule="R1")


def _flag_locals(b, src_locals):
    return b.forward_locals(set(src_locals), through_calls=False)


def r2_flag_carried(cx):
    F = cx.F
    f = [x for x in F.find(impl_self="ContentPackCreator", item="add_content", closure=False) if x.get("impl_trait") is None]
    if len(f) != 1:
        raise AnchorLost("ContentPackCreator::add_content")
    f = f[0]
    b = F.body(f)
    dc = b.calls(r"ContentPackCreator::<.*>::detect_compression$")
    goc = b.calls(r"ContentPackCreator::<.*>::get_open_cluster$")
    ok = len(dc) == 1 and len(goc) == 1
    if ok:
        o = b.origins(goc[0][1]["args"][1], through_calls=False)
        calls = {x[1] for x in o if x[0] == "call"}
        ok = dc[0][0] in {x[1] for x in b.origins(goc[0][1]["args"][1]) if x[0] == "call"} and not any(x[0] == "const" for x in b.origins(goc[0][1]["args"][1], stop_call=lambda t: call_is(t, r"detect_compression$")))
        ok = ok and ("param", 3) in b.origins(dc[0][1]["args"][2])
    cx.ob("R2", "R2/add_content", ok, f, "add_content: get_open_cluster(detect_compression(content, comp_hint)?, size) — the decision is passed on unchanged")
    g = F.one(impl_self="ContentPackCreator", item="get_open_cluster", closure=False)
    gb = F.body(g)
    flag = _flag_locals(gb, {2})
    su = gb.calls(r"setup_slot_and_get_to_close$")
    wc = gb.calls(r"ClusterWriterProxy::<.*>::write_cluster$")
    ok = len(su) == 1 and len(wc) == 1 and op_base_local(su[0][1]["args"][2]) in flag and op_base_local(wc[0][1]["args"][2]) in flag
    sw = [s for s in range(gb.n) if gb.term(s)["k"] == "switch" and op_base_local(gb.term(s)["op"]) in flag]
    g_slots = {_slot_by_flag(gb, s) for s in sw}
    ok = ok and len(sw) >= 1 and None not in g_slots and len(g_slots) == 1
    cx.ob("R2", "R2/get_open_cluster", ok, g, "get_open_cluster gives the same flag to setup_slot_and_get_to_close, to write_cluster and to the slot selection (true -> comp_open_cluster, false -> raw_open_cluster)")
    h = F.one(impl_self="ContentPackCreator", item="setup_slot_and_get_to_close", closure=False)
    hb = F.body(h)
    flag = _flag_locals(hb, {3})
    oc = hb.calls(r"ContentPackCreator::<.*>::open_cluster$")
    sw = [s for s in range(hb.n) if hb.term(s)["k"] == "switch" and op_base_local(hb.term(s)["op"]) in flag]
    h_slots = {_slot_by_flag(hb, s) for s in sw}
    ok = len(oc) >= 1 and all(op_base_local(t["args"][1]) in flag for _, t in oc) and len(sw) >= 1 and None not in h_slots and len(h_slots) == 1
    SLOTS = next(iter(h_slots)) if ok else None
    # every site maps the flag to the same slot: true -> the slot that receives clusters opened with compressed = true
    ok = ok and (not g_slots or g_slots == h_slots)
    cx.ob("R2", "R2/setup_slot", ok, h, "setup_slot_and_get_to_close: every slot selection and every open_cluster(compressed) use the flag it received (%d selections, %d open_cluster)" % (len(sw), len(oc)))
    k = F.one(impl_self="ContentPackCreator", item="open_cluster", closure=False)
    kb = F.body(k)
    nw = kb.calls(r"ClusterCreator::new$")
    cx.ob("R2", "R2/open_cluster", len(nw) == 1 and op_base_local(nw[0][1]["args"][1]) in _flag_locals(kb, {2}), k, "open_cluster(compressed) builds ClusterCreator::new(id, compressed)")
    # dispatch
    w = F.one(impl_self="clusterwriter::ClusterWriterProxy", item="write_cluster", closure=False)
    wb = F.body(w)
    ds = wb.calls(r"spmc::Sender::<.*>::send$")
    fs = wb.calls(r"mpsc::Sender::<.*WriteTask>::send$")
    ok = len(ds) == 1 and len(fs) == 1
    msg = ""
    if ok:
        en = [e for e in F.enums if re.search(r"creator::Compression$", e["path"])]
        if len(en) != 1:
            raise AnchorLost("enum creator::Compression")
        verdict = {}
        # path-sensitive constant propagation under (configured compression, flag): which channel is reachable
        for v in en[0]["variants"]:
            for flagval in (True, False):
                # `self.compression != Compression::None` is a call of the derived PartialEq: its result under the assumption
                cmps = {blk: ((v["name"] != var) if ne else (v["name"] == var)) for blk, var, ne in wb.variant_comparisons(r"creator::Compression$")}
                r, _ = wb.explore(assume_locals={3: flagval}, assume_discr={r"creator::Compression$": v["discr"]}, assume_calls=cmps, avoid=wb.error_blocks())
                to_c, to_w = ds[0][0] in r, fs[0][0] in r
                verdict[(v["name"], flagval)] = "dispatch" if to_c and not to_w else ("fusion" if to_w and not to_c else ("both" if to_c else "none"))
        want = {(v["name"], fl): ("dispatch" if (v["name"] != "None" and fl) else "fusion") for v in en[0]["variants"] for fl in (True, False)}
        ok = verdict == want
        msg = "routing table (configured compression, flag) -> %s" % {"%s/%s" % k: v for k, v in sorted(verdict.items())}
    cx.ob("R2", "R2/write_cluster-dispatch", ok, w, "ClusterWriterProxy::write_cluster sends to the compressors iff the pack compresses and the flag is set, to the raw writer otherwise; %s" % msg)
    # finalize: raw slot false, compressed slot true
    fz = F.one(impl_self="ContentPackCreator", item="finalize", closure=False)
    zb = F.body(fz)
    wcs = zb.calls(r"ClusterWriterProxy::<.*>::write_cluster$")
    got = {}
    feasible, _ = zb.explore()          # constants of (inlined) helper arguments decide which slot each site takes
    tru = set(SLOTS[0]) - set(SLOTS[1]) if SLOTS else {"comp_open_cluster"}
    fal = set(SLOTS[1]) - set(SLOTS[0]) if SLOTS else {"raw_open_cluster"}
    for i, t in wcs:
        if i not in feasible:
            continue
        fields = {x[1] for x in zb.origins(t["args"][1], blocks=feasible) if x[0] == "field"}
        raw, comp = bool(fal & fields), bool(tru & fields)
        slot = "raw" if raw and not comp else ("comp" if comp and not raw else "?")
        got[slot] = op_const_deep(zb, t["args"][2])
    okz = got == {"raw": False, "comp": True}
    if not okz and SLOTS:
        # the two slots flushed by one piece of code run for `false` then `true` (a loop over both values, a helper): at
        # every site the flag given to write_cluster is the very value the slot was chosen with, with the same mapping
        okz = bool(wcs)
        for i, t in wcs:
            root = op_base_local(t["args"][2])
            same = _flag_locals(zb, {root}) | {root}
            back = {x[1] for x in zb.origins(t["args"][2], through_calls=False) if x[0] == "local"}
            sws = [s_ for s_ in range(zb.n) if zb.term(s_)["k"] == "switch" and not zb.is_cleanup(s_) and _slot_by_flag(zb, s_) is not None
                   and (op_base_local(zb.term(s_)["op"]) in same or zb.origins(zb.term(s_)["op"], through_calls=False) & zb.origins(t["args"][2], through_calls=False))]
            okz = okz and bool(sws) and all(_slot_by_flag(zb, s_) == SLOTS for s_ in sws) and any(zb.dominates(s_, i) for s_ in sws)
        got = {"by-flag": okz}
    cx.ob("R2", "R2/finalize-slots", okz, fz, "finalize flushes the raw slot with compressed=false and the compressed slot with compressed=true (%s)" % got)


def _slot_by_flag(b, s):
    """switch on the flag: (field path taken on the true arm, field path taken on the false arm) -- the first place
    with a field projection borrowed on each arm; the two open-cluster slots are told apart by these paths, whatever
    the fields are called"""
    t = b.term(s)
    false_t = t["targets"][t["vals"].index(0)] if 0 in t["vals"] else None
    true_t = t["otherwise"]
    if false_t is None:
        return None

    def first_slot(start):
        seen = set()
        st = [start]
        while st:
            x = st.pop(0)
            if x in seen or x == s:
                continue
            seen.add(x)
            for stt in b.stmts(x):
                if stt["k"] == "assign" and stt["rv"]["k"] == "ref":
                    fs = tuple(n for n in place_fields(stt["rv"]["pl"]) if n and not n.isdigit())
                    if fs:
                        return fs
            tt = b.term(x)
            if tt["k"] == "goto":
                st.append(tt["t"])
        return None
    a, c = first_slot(true_t), first_slot(false_t)
    if a is None or c is None or a == c:
        return None
    return (a, c)


def _bool_after(wb, succ, assume_none, flagval):
    """which send is reached in ClusterWriterProxy::write_cluster under the assumption"""
    # constant-propagate `should_compress`: a local assigned `const false` on the None arm and a copy of the flag otherwise
    import c05 as _c05
    ds = wb.calls(r"spmc::Sender::<.*>::send$")[0][0]
    fs = wb.calls(r"mpsc::Sender::<.*WriteTask>::send$")[0][0]
    # find the bool local switched on after the compression switch
    env = {3: flagval}
    # locals assigned const bool in blocks reachable under the assumption
    reach0 = _c05._reach(succ, 0)
    for i in reach0:
        for s in wb.stmts(i):
            if s["k"] == "assign" and not s["lhs"].get("p") and s["rv"]["k"] == "use":
                v = op_const_val(s["rv"]["op"])
                if isinstance(v, bool) and wb.locals[s["lhs"]["l"]]["ty"] == "bool" and wb.locals[s["lhs"]["l"]].get("name"):
                    env[s["lhs"]["l"]] = v
                l = op_local(s["rv"]["op"])
                if l == 3 and wb.locals[s["lhs"]["l"]].get("name"):
                    env[s["lhs"]["l"]] = flagval
    succ2 = _c05.restricted_succ(wb, {}, env)
    for k, v in enumerate(succ):
        if len(v) < len(succ2[k]):
            succ2[k] = v
    r = _c05._reach(succ2, 0, avoid=wb.error_blocks())
    if ds in r and fs not in r:
        return "dispatch"
    if fs in r and ds not in r:
        return "fusion"
    return "both" if ds in r else "none"


def r3_tail_says(cx):
    F = cx.F
    w = F.one(impl_self="ClusterWriter", item="write_cluster", closure=False)
    wb = F.body(w)
    sc = wb.calls(r"clusterwriter::serialize_cluster_tail$")
    cx.ob("R3", "R3/raw-writer-records-None", len(sc) == 1 and c05.enum_arg(wb, sc[0][1]["args"][0]) == {"None"}, w, "the raw writer records Compression::None in the tail")
    wd = wb.calls(r"ClusterWriter::<.*>::write_cluster_data$")
    ae = [i for i in wb.panic_blocks()]
    ok = len(wd) == 1 and any(x == ("call", wd[0][0]) for s in range(wb.n) if wb.term(s)["k"] == "switch" for x in wb.origins(wb.term(s)["op"])) and bool(ae)
    cx.ob("R3", "R3/raw-copy-length-asserted", ok, w, "the raw writer asserts that the bytes copied equal the cluster's data size")
    d = F.one(impl_self="ClusterWriter", item="write_cluster_data", closure=False)
    db = F.body(d)
    cp = db.calls(r"OutStream>::copy$")
    for c_ in F.closures_of(d):       # `data.into_iter().try_fold(0, |n, input| Ok(n + stream.copy(input)?.0))`
        if "blocks" in c_:
            cp = cp + F.body(c_).calls(r"OutStream>::copy$")
    cx.ob("R3", "R3/raw-copy-verbatim", len(cp) == 1 and not db.calls(r"compress|Encoder"), d, "write_cluster_data copies each input verbatim with OutStream::copy")
    c = F.one(impl_self="ClusterCompressor", item="compress_cluster", closure=False)
    cb = F.body(c)
    sc = cb.calls(r"clusterwriter::serialize_cluster_tail$")
    wcd = cb.calls(r"ClusterCompressor::write_cluster_data$")
    if not wcd and cb.calls(r"::(lz4|lzma|zstd)_compress$"):
        wcd = cb.calls(r"::(lz4|lzma|zstd)_compress$")[:1]      # the dispatch has been merged into compress_cluster
    cx.ob("R3", "R3/compressor-records-its-algorithm", len(sc) == 1 and len(wcd) == 1 and ("field", "compression") in cb.origins(sc[0][1]["args"][0], through_calls=False), c,
          "the compressor records self.compression, the value write_cluster_data dispatches on")


def r3b_raw_copy_reads_from_start(cx):
    """the verbatim copy takes the input from the start of its range (file-range inputs rewind to their origin)"""
    before = len(cx.obs)
    c01.r4_input_file(cx)
    for o in cx.obs[before:]:
        o.rule = "R3"
        o.key = "R3/input/" + o.key.split("/", 1)[1]
    F = cx.F
    for imp in ("std::fs::File", "std::io::Cursor<T>", "std::io::BufWriter<T>"):
        fs = [f for f in F.fns if f.get("item_name") == "copy" and f.get("impl_trait", "").endswith("OutStream") and f.get("impl_self") == imp]
        if len(fs) != 1:
            raise AnchorLost("OutStream::copy for %s" % imp)
        b = F.body(fs[0])
        gfs = b.calls(r"InputReader>::get_file_source$")
        cp = b.calls(r"std::io::copy::<")
        ok = len(gfs) == 1 and len(cp) == 2 and all(b.dominates(gfs[0][0], i) for i, _ in cp)
        cx.ob("R3", "R3/copy@%s" % imp, ok, fs[0], "OutStream::copy for %s copies the reader obtained from get_file_source() (file inputs: rewound range, others: the reader itself) with io::copy" % imp)


def r4_dedup(cx):
    F = cx.F
    f = F.one(impl_self="CachedContentAdder", item="cache_content", closure=False)
    b = F.body(f)
    en = b.calls(r"HashMap::<.*>::entry$")
    ad = b.calls(r"ContentAdder>::add_content$")
    ins = b.calls(r"VacantEntry::<.*>::insert$|VacantEntry<.*>::insert$")
    get = b.calls(r"OccupiedEntry::<.*>::get$|OccupiedEntry<.*>::get$")
    ok = len(en) == 1 and len(ad) == 1 and len(ins) == 1 and len(get) == 1 and ("param", 2) in b.origins(en[0][1]["args"][1])
    cx.ob("R4", "R4/anchors", ok, f, "cache_content: one entry(hash), one add_content, one insert, one get")
    if ok:
        # identical contents share one address whatever else differs between the two insertions: the key is the hash alone
        others = sorted({o[1] for o in b.origins(en[0][1]["args"][1]) if o[0] == "param" and o[1] not in (1, 2)})
        cx.ob("R4", "R4/key-is-the-hash-alone", not others, f, "the cache key derives from the content hash and from no other argument of the insertion (other parameters in the key: %s)" % others, ln=en[0][1].get("ln"))
    if ok:
        s, arms = c01._variant_arms(F, b, r"hash_map::Entry<")
        if s is None:
            # Entry is external: find the switch on the discriminant of the entry call result
            for x in range(b.n):
                t = b.term(x)
                if t["k"] == "switch" and any(d[0] == "stmt" and d[3]["rv"]["k"] == "discr" and d[3]["rv"]["pl"]["l"] == en[0][1]["dest"]["l"] for d in b.defs().get(op_local(t["op"]) or -1, [])):
                    s = x
        ok2 = s is not None
        if ok2:
            t = b.term(s)
            arms_l = list(dict.fromkeys(t["targets"] + [t["otherwise"]]))
            vac = [a for a in arms_l if ad[0][0] in b.reachable(a, avoid={s})]
            occ = [a for a in arms_l if get[0][0] in b.reachable(a, avoid={s})]
            ok2 = len(vac) == 1 and len(occ) == 1 and vac != occ and ins[0][0] in b.reachable(vac[0], avoid={s}) and ad[0][0] not in b.reachable(occ[0], avoid={s})
            if ok2:
                oks = _ok_returns(b)
                rv = b.reachable(vac[0], avoid={s})
                ro = b.reachable(occ[0], avoid={s})
                v_ok = all(any(x == ("call", ad[0][0]) for x in b.origins(fld)) for i, fld in oks if i in rv and i not in ro)
                o_ok = all(any(x == ("call", get[0][0]) for x in b.origins(fld)) for i, fld in oks if i in ro and i not in rv)
                ins_ok = any(x == ("call", ad[0][0]) for x in b.origins(ins[0][1]["args"][1]))
                ok2 = v_ok and o_ok and ins_ok
        cx.ob("R4", "R4/vacant-adds-occupied-returns", ok2, f, "Vacant: add_content -> insert(result) -> Ok(result); Occupied: Ok(*e.get()) and no content is added")
    g = [x for x in F.find(impl_self="CachedContentAdder", item="add_content", closure=False) if x.get("impl_trait") is None]
    if len(g) != 1:
        raise AnchorLost("CachedContentAdder::add_content")
    g = g[0]
    gb = F.body(g)
    cc = gb.calls(r"CachedContentAdder::<.*>::cache_content$")
    fin = gb.calls(r"blake3::Hasher::finalize$")
    one = gb.calls(r"^blake3::hash$")
    upd = gb.calls(r"blake3::Hasher::update$")
    updr = gb.calls(r"blake3::Hasher::update_reader")
    rte = gb.calls(r"Read>::read_to_end$")
    rw = gb.calls(r"Seek>::rewind$", r"Seek>::seek$")
    ok = len(cc) >= 1
    why = []

    def whole_reader(t):
        # the bytes come from the content handed in (parameter 2), not from a length-limited adapter of it
        o = gb.origins(t["args"][0] if not call_is(t, r"update_reader") else t["args"][1])
        lim = [callee_str(gb.term(x[1])) for x in o if x[0] == "call" and re.search(r"::take(::<.*>)?$|::Take<|::chain|::by_ref", callee_str(gb.term(x[1])))]
        return ("param", 2) in o and not [x for x in lim if "take" in x.lower()]

    def fresh_hasher(t):
        o = gb.origins(t["args"][0])
        return any(x[0] == "call" and call_is(gb.term(x[1]), r"blake3::Hasher::new$") for x in o) and ("param", 1) not in o

    good_r = [i for i, t in rte if whole_reader(t)]
    feed = set()
    for i, t in upd:       # buffer filled by read_to_end of the whole reader, then hashed
        if fresh_hasher(t) and any(gb.dominates(r, i) for r in good_r):
            feed.add(i)
    for i, t in one:       # one-shot hash of that buffer
        if any(gb.dominates(r, i) for r in good_r):
            feed.add(i)
    good_u = {u for u, ut in updr if fresh_hasher(ut) and whole_reader(ut)}
    for i, t in rw:        # streamed: update_reader(whole reader) then the reader is put back at its start
        if not whole_reader(t) or not good_u:
            continue
        # (on every feasible path: the stage that hashed may hand over a value -- "nothing kept in memory" -- that a later
        #  stage matches on before it rewinds)
        if any(gb.dominates(u, i) for u in good_u) or i not in gb.explore(avoid=good_u | gb.error_blocks())[0]:
            feed.add(i)
    for i, t in cc:
        ko = gb.origins(t["args"][1])
        ks = [x[1] for x in ko if x[0] == "call" and (x[1] in {j for j, _ in fin} or x[1] in {j for j, _ in one})]
        if not ks:
            ok = False
            why.append("the key at line %s is not a Blake3 digest" % t.get("ln"))
        for k in ks:
            kt = gb.term(k)
            if call_is(kt, r"Hasher::finalize$") and not fresh_hasher(kt):
                ok = False
                why.append("the hasher finalised at line %s is not created by Hasher::new() in this call" % kt.get("ln"))
        if not gb.set_dominates(feed, i, avoid=gb.error_blocks()) and i in gb.explore(avoid=feed | gb.error_blocks())[0]:
            ok = False
            why.append("a path reaches cache_content (line %s) without having hashed the whole content (read_to_end of the content + update/hash, or update_reader(content) + rewind)" % t.get("ln"))
    msg = "; ".join(why) or "ok"
    cx.ob("R4", "R4/key-is-hash-of-whole-content", ok, g, "the cache key is the finalised Blake3 of the whole content (read_to_end + update, or update_reader then rewind before the content is handed on): %s" % msg)


# without any compression feature the Compression enum has a single variant: the compressed path does not exist
WITH_COMPRESSION = ("lib-all3", "lib-default", "all-bins", "lib-release")
r1_decision_table.only_configs = WITH_COMPRESSION
r2_flag_carried.only_configs = WITH_COMPRESSION

def r5_compressors_only_emit_compressed_clusters(cx):
    """'the hint decides', not the data: a cluster routed to a compressor worker leaves it as `WriteTask::Compressed`. The
    worker never builds the raw task (`WriteTask::Cluster`, directly or through `ClusterCreator -> WriteTask`), whatever
    the compressed size turned out to be -- the raw path belongs to the proxy's routing (R2), which only looks at the flag."""
    F = cx.F
    fs = [f for f in F.live_fns if "blocks" in f and re.search(r"clusterwriter::ClusterCompressor", (f.get("impl_self") or "") + " " + f["name"])]
    if not fs:
        raise AnchorLost("no function of ClusterCompressor")
    raw, comp = [], 0
    for f in fs:
        b = F.body(f)
        for i, blk in enumerate(b.blocks):
            if blk.get("cleanup"):
                continue
            for st in blk["s"]:
                rv = st.get("rv") or {}
                if st["k"] == "assign" and rv.get("k") == "agg" and (rv.get("adt") or "").endswith("clusterwriter::WriteTask"):
                    if rv.get("variant") == "Compressed":
                        comp += 1
                    else:
                        raw.append((f, st.get("ln")))
            t = blk["t"]
            if call_is(t, r"Into<.*clusterwriter::WriteTask>>::into$", r"WriteTask as .*From<.*ClusterCreator>>::from$"):
                raw.append((f, t.get("ln")))
    cx.ob("R5", "R5/ClusterCompressor/only-compressed-tasks", comp >= 1 and not raw, fs[0],
          "the compressor workers build WriteTask::Compressed (%d sites) and never the raw task (raw task built at lines %s)" % (comp, [ln for _, ln in raw]))


def r6_configured_compression_is_the_one_used(cx):
    """'the hint decides' within the compression the caller configured: the constructor every other one goes through hands
    the `Compression` it was given, unchanged, to the cluster writer and keeps that same value for the routing decision --
    no level or variant is rewritten on the way (level 0 of lz4 / xz / zstd is a compressing level, not "store")."""
    F = cx.F
    f = F.one(impl_self="ContentPackCreator", item="new_from_output_with_progress", closure=False)
    b = F.body(f)
    ps = [l for l in range(1, f["arg_count"] + 1) if (f["locals"][l].get("ty") or "").endswith("creator::Compression")]
    if len(ps) != 1:
        raise AnchorLost("new_from_output_with_progress: Compression parameters: %s" % ps)
    same = b.whole_copies(set(ps))
    cw = b.calls(r"clusterwriter::ClusterWriterProxy::<.*>::new$")
    aggs = [st for blk in b.blocks if not blk.get("cleanup") for st in blk["s"] if st["k"] == "assign" and st["rv"]["k"] == "agg"
            and (st["rv"].get("adt") or "").endswith("creator::ContentPackCreator") and "compression" in (st["rv"].get("fnames") or [])]
    if not cw or not aggs:
        raise AnchorLost("new_from_output_with_progress: ClusterWriterProxy::new sites %d, ContentPackCreator literals %d" % (len(cw), len(aggs)))
    ok = True
    for i, t in cw:
        args = [a for a in t["args"] if op_place(a) is not None and (b.locals[op_place(a)["l"]].get("ty") or "").endswith("creator::Compression")]
        ok = ok and bool(args) and all(op_place(a)["l"] in same and not op_place(a).get("p") for a in args)
    for st in aggs:
        pl = op_place(st["rv"]["fields"][st["rv"]["fnames"].index("compression")])
        ok = ok and pl is not None and pl["l"] in same and not pl.get("p")
    rebuilt = [st.get("ln") for blk in b.blocks if not blk.get("cleanup") for st in blk["s"] if st["k"] == "assign" and st["rv"]["k"] == "agg" and (st["rv"].get("adt") or "").endswith("creator::Compression")]
    cx.ob("R6", "R6/new_from_output_with_progress/compression-passed-on-unchanged", ok and not rebuilt, f,
          "the Compression parameter reaches ClusterWriterProxy::new and the `compression` field as it was given (Compression values built in the constructor: lines %s)" % rebuilt)


def r7_every_cluster_with_contents_is_written(cx):
    """'a content ends up in a cluster of the kind its hint asks for': the cluster it was put in is written -- also when all
    the contents of that cluster are empty (= C01-R13 under C16)"""
    import c01
    reuse(cx, c01.r13_creator_addresses, "R13", "R7", only="ClusterCreator")


RULES = [
    ("R7", r7_every_cluster_with_contents_is_written, 2),
    ("R6", r6_configured_compression_is_the_one_used, 1),
    ("R5", r5_compressors_only_emit_compressed_clusters, 1),
    ("R1", r1_decision_table, 6),
    ("R2", r2_flag_carried, 6),
    ("R3", r3_tail_says, 4),
    ("R3", r3b_raw_copy_reads_from_start, 6),
    ("R4", r4_dedup, 3),
]
