"""Baseline-relative rename tracking.

A private function of the pinned tree that a rule names may simply be renamed (or moved from a free function to an
associated one) by a later change. When a function of the baseline is missing and exactly one function that is new
relative to the baseline, in the same source file, with the same number of parameters, has (almost) the same body
fingerprint -- the multiset of its callees, binary operators and integer constants --, the new function is given the
identity of the old one before any rule runs (its record and the callee descriptions of the calls to it), like a
version-control system tracks a renamed file. Ambiguous or weak matches are left alone (the anchor is then lost and
the rule fails closed)."""
import json, os, re
from collections import Counter

HERE = os.path.dirname(os.path.abspath(__file__))
BASELINE = os.path.join(os.path.dirname(HERE), "format", "baseline_functions.json")
THRESHOLD = 0.8
IDENT = ("name", "kind", "item_name", "impl_self", "impl_trait", "in_trait")


def fingerprint(f):
    c = Counter()
    for blk in f.get("blocks", []):
        if blk.get("cleanup"):
            continue
        for st in blk["s"]:
            if st["k"] == "assign":
                rv = st["rv"]
                if rv["k"] == "bin":
                    c["op:" + rv["op"].replace("WithOverflow", "")] += 1
                for key in ("a", "b", "op"):
                    o = rv.get(key)
                    if isinstance(o, dict) and "c" in o and isinstance(o["c"].get("val"), int) and not isinstance(o["c"].get("val"), bool):
                        c["k:%d" % o["c"]["val"]] += 1
        t = blk["t"]
        if t["k"] == "call":
            cal = t.get("callee") or {}
            c["call:" + re.sub(r"<.*?>", "", cal.get("def") or cal.get("path") or "?")] += 1
    return c


def similarity(a, b):
    if not a and not b:
        return 0.0
    inter = sum((a & b).values())
    union = sum((a | b).values())
    return inter / union if union else 0.0


def baseline_records(fns):
    out = {}
    for f in fns:
        if "blocks" not in f or f.get("kind") == "closure":
            continue
        out[f["name"]] = {"ident": {k: f.get(k) for k in IDENT}, "file": f.get("file"), "arg_count": f.get("arg_count"),
                          "fp": sorted(fingerprint(f).items())}
    return out


def closure_parent(name):
    return re.sub(r"(::\{closure#\d+\})+$", "", name)


def baseline_closures(fns):
    """{parent function: [fingerprint of each of its closures]}: a closure has no stable name (its index shifts when
    another closure is added before it), it is recognised by its body"""
    out = {}
    for f in fns:
        if "blocks" in f and f.get("kind") == "closure":
            out.setdefault(closure_parent(f["name"]), []).append(sorted(fingerprint(f).items()))
    return out


def new_closures(fns, base):
    """ids of the closures that are new relative to the baseline: a function that has MORE closures than it had then
    has gained some, and those are the ones whose body resembles none of its baseline closures (the least similar
    first, as many as were gained). A function with the same number of closures has at most rewritten them in place."""
    known = base.get("closures")
    if known is None:
        return set()
    by_parent = {}
    for f in fns:
        if "blocks" in f and f.get("kind") == "closure":
            by_parent.setdefault(closure_parent(f["name"]), []).append(f)
    out = set()
    for parent, cs in by_parent.items():
        olds = [Counter(dict((k, v) for k, v in o)) for o in known.get(parent, [])]
        gained = len(cs) - len(olds)
        if gained <= 0:
            continue
        scored = []
        for f in cs:
            fp = fingerprint(f)
            best = max([1.0 if (not fp and not o) else similarity(fp, o) for o in olds], default=0.0)
            scored.append((best, f["id"]))
        scored.sort()
        out.update(fid for best, fid in scored[:gained] if best < THRESHOLD)
    return out


def apply(fns, hir):
    """rename (in place) the new functions that are renamed baseline functions; returns {old name: new name}"""
    try:
        with open(BASELINE) as fh:
            base = json.load(fh)
    except OSError:
        return {}
    recs = base.get("records") or {}
    names = set(base["functions"])
    present = {f["name"] for f in fns}
    missing = [m for m in recs if m not in present]
    if not missing:
        return {}
    new = [f for f in fns if f["name"] not in names and "blocks" in f and f.get("kind") != "closure"]
    if not new:
        return {}
    fps = {f["id"]: fingerprint(f) for f in new}
    scores = []
    for m in missing:
        r = recs[m]
        fm = Counter(dict((k, v) for k, v in r["fp"]))
        if sum(fm.values()) < 3:
            continue          # too small to recognise
        for f in new:
            if f.get("file") != r["file"] or f.get("arg_count") != r["arg_count"]:
                continue
            s = similarity(fm, fps[f["id"]])
            if s >= THRESHOLD:
                scores.append((s, m, f["id"]))
    renamed = {}
    used_m, used_n = Counter(m for _, m, _ in scores), Counter(n for _, _, n in scores)
    for s, m, n in scores:
        if used_m[m] == 1 and used_n[n] == 1:
            f = fns[n]
            old = {k: f.get(k) for k in IDENT}
            f["renamed_from"] = old["name"]
            for k, v in recs[m]["ident"].items():
                if v is None:
                    f.pop(k, None)
                else:
                    f[k] = v
            renamed[m] = old["name"]
            _patch_callees(fns, hir, n, recs[m]["ident"])
    return renamed


def _patch_callees(fns, hir, fid, ident):
    name = ident["name"]

    def fix(c):
        if fid in (c.get("rfn"), c.get("def_fn")):
            for k in ("def", "path", "rdef", "rpath"):
                if k in c:
                    c[k] = name
            if ident.get("impl_self"):
                c["impl_self"] = ident["impl_self"]
                c["rimpl_self"] = ident["impl_self"]
            else:
                c.pop("impl_self", None)
                c.pop("rimpl_self", None)
            if ident.get("item_name"):
                c["method"] = ident["item_name"]

    for f in fns:
        for blk in f.get("blocks", []):
            t = blk["t"]
            if t["k"] == "call" and isinstance(t.get("callee"), dict):
                fix(t["callee"])

    def walk(n):
        if isinstance(n, dict):
            if n.get("k") == "call" and isinstance(n.get("callee"), dict):
                fix(n["callee"])
            for v in n.values():
                walk(v)
        elif isinstance(n, list):
            for v in n:
                walk(v)
    walk(hir)
