"""Test the rules both ways: every mutant patch (one broken instance, still compiling) must be
reported by the named rule of the named property, and the unchanged tree must be silent.
Mutants are analysed (driver + rules on a scratch copy of /repo outside /repo and /verif),
never executed. The scratch copy is removed immediately after each mutant."""
import json, os, shutil, subprocess, sys, tempfile, time

HERE = os.path.dirname(os.path.abspath(__file__))
VERIF = os.path.dirname(HERE)
sys.path.insert(0, HERE)
import engine, extract


def scratch_copy(repo="/repo"):
    d = tempfile.mkdtemp(prefix="jbk-selftest-")
    for item in ("src", "Cargo.toml", "Cargo.lock", "build.rs", "examples", "tests", "README.md"):
        p = os.path.join(repo, item)
        if os.path.isdir(p):
            shutil.copytree(p, os.path.join(d, item))
        elif os.path.exists(p):
            shutil.copy(p, os.path.join(d, item))
    return d


def apply_patch(d, patch, reverse=False):
    cmd = ["patch", "-p1", "--no-backup-if-mismatch", "-s", "-i", patch]
    if reverse:
        cmd.insert(1, "-R")
    r = subprocess.run(cmd, cwd=d, stdout=subprocess.PIPE, stderr=subprocess.STDOUT, text=True)
    if r.returncode != 0:
        raise RuntimeError("patch %s does not apply: %s" % (patch, r.stdout[-800:]))


def load_specs():
    specs = []
    p = os.path.join(VERIF, "selftest", "mutants.json")
    if os.path.exists(p):
        for m in json.load(open(p)):
            m["patch"] = os.path.join(VERIF, "selftest", "mutants", m["patch"])
            specs.append(m)
    sd = os.path.join(VERIF, "seeded")
    if os.path.isdir(sd):
        for name in sorted(os.listdir(sd)):
            mp = os.path.join(sd, name, "meta.json")
            if not os.path.exists(mp):
                continue
            meta = json.load(open(mp))
            for exp in meta.get("caught_by", []):
                specs.append({"name": "seeded/" + name, "patch": os.path.join(sd, name, "patch.diff"),
                              "property": exp["property"], "expect": exp.get("expect", []), "reverse": False})
            if not meta.get("caught_by"):
                specs.append({"name": "seeded/" + name, "patch": os.path.join(sd, name, "patch.diff"),
                              "property": meta.get("property"), "expect": None, "reverse": False, "missed": True})
    bd = os.path.join(VERIF, "benign")
    if os.path.isdir(bd):
        for name in sorted(os.listdir(bd)):
            if name.endswith(".diff"):
                specs.append({"name": "benign/" + name[:-5], "patch": os.path.join(bd, name), "property": "all", "benign": True})
    return specs


def claimed():
    return open(os.path.join(HERE, "CLAIMED")).read().split()


def run_one(spec, tier="quick", verbose=False):
    d = scratch_copy()
    try:
        apply_patch(d, spec["patch"], reverse=spec.get("reverse", False))
        if spec.get("benign"):
            # a behaviour-preserving change: every claimed property must stay silent (known findings excepted)
            keys = []
            import gc
            only = os.environ.get("VCHECK_ONLY_PROPS", "").split()
            for pid in (only or claimed()):
                new, known, obs = engine.run_property(pid, tier, quiet=True, repo=d, write_evidence=False)
                keys += ["%s %s %s" % (pid, o.rule, o.key) for o in new]
                del new, known, obs
                gc.collect()
            return (not keys, "behaviour-preserving change: %d false alarm(s)" % len(keys), keys)
        new, known, obs = engine.run_property(spec["property"], tier, quiet=True, repo=d, write_evidence=False)
        keys = ["%s %s" % (o.rule, o.key) for o in new]
        if spec.get("missed"):
            return (len(new) == 0, "documented miss: rules stay silent (%d violations)" % len(new), keys)
        exp = spec.get("expect") or []
        ok = bool(new) and all(any(e in k for k in keys) for e in exp)
        return ok, ("reported %d violation(s)" % len(new)), keys
    finally:
        shutil.rmtree(d, ignore_errors=True)
        import gc
        gc.collect()   # Facts <-> Body reference cycles over ~20 MB of JSON each: do not wait for a full collection


def _init_worker(counter):
    with counter.get_lock():
        counter.value += 1
        os.environ["VCHECK_SLOT"] = "-w%d" % counter.value


def _job(s):
    try:
        return (s,) + tuple(run_one(s, "quick"))
    except BaseException as e:
        return (s, False, "error: %r" % e, [])


def _report(r):
    s, ok, msg, keys = r
    print("[%s] %-42s %-4s %s  %s" % ("ok" if ok else "FAIL", s["name"], s["property"], msg, "; ".join(keys)[:300]), flush=True)


def main(args, tier="quick"):
    specs = load_specs()
    jobs = int(os.environ.get("VCHECK_JOBS", "4"))
    if args:
        specs = [s for s in specs if any(a in s["name"] for a in args)]
    fails = 0
    t0 = time.time()
    if jobs > 1 and len(specs) > 2:
        import multiprocessing as mp
        counter = mp.Value("i", 0)
        with mp.Pool(min(jobs, len(specs)), initializer=_init_worker, initargs=(counter,)) as pool:
            results = []
            for r in pool.imap(_job, specs):
                results.append(r)
                _report(r)
    else:
        results = []
        for s in specs:
            r = _job(s)
            results.append(r)
            _report(r)
    fails = sum(1 for _, ok, _, _ in results if not ok)
    print("selftest: %d mutants, %d failures, %.0fs" % (len(specs), fails, time.time() - t0))
    if not args:
        # snapshot of the last complete run, quoted by the evidence files
        summary = {"when": time.strftime("%Y-%m-%dT%H:%M:%SZ", time.gmtime()),
                   "breaking_changes_reported": sum(1 for s, ok, _, _ in results if ok and not s.get("benign")),
                   "breaking_changes_total": sum(1 for s, _, _, _ in results if not s.get("benign")),
                   "behaviour_preserving_changes_silent": sum(1 for s, ok, _, _ in results if ok and s.get("benign")),
                   "behaviour_preserving_changes_total": sum(1 for s, _, _, _ in results if s.get("benign")),
                   "failures": [s["name"] for s, ok, _, _ in results if not ok]}
        with open(os.path.join(VERIF, "selftest", "last_run.json"), "w") as f:
            json.dump(summary, f, indent=1)
    return 1 if fails else 0


if __name__ == "__main__":
    sys.exit(main(sys.argv[1:]))
