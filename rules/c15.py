"""C15 — references between entries resolve to the referenced entry's final position.
R1 every reorder of the entry vector is followed by re-indexing before any consumer; R2 index =
position; R3 the handle shares the cell; R4 value ids follow the sort."""
import re
from lib import *

PROPERTY = "C15"
EXPLANATION = ("Decided from MIR: (R1) in EntryStore::finalize every call that can reorder self.entries (sort*/par_sort*/swap/reverse/"
               "retain/dedup*/drain/rotate*) is followed, on every path to a consumer (Schema::process, Schema::finalize, construction of "
               "FinalEntryStore), by set_entry_idx, and set_entry_idx also precedes the consumers on the unsorted path; (R2) set_entry_idx "
               "gives each entry the enumerate index of its position in that same slice, through `as u32` and EntryIdx::from, no arithmetic; "
               "(R3) Vow::bind clones the Arc that Vow::fulfil stores into, BasicEntry::{set_idx,get_idx} use that same field, and "
               "EntryStore::add_entry returns the Bound obtained from the entry it pushes; (R4) in both value stores the sort precedes the "
               "assignment of value ids and `finalized = true` comes last. The stored reference value for a given graph is not decided."
               " (R3 Word) Word::get evaluates the stored closure at every call: no memoised value in `get` nor as a field of Word."
               " Added later: (R5) a constructor given a Vow<EntryIdx> moves it whole into the entry; (R6) = C02-R1 for positions kept in signed columns; (R7) the transformation of the caller's values never evaluates a deferred word; (R1) no sort after a consumer. (R8) = C02-R16 for constant columns of references. (R9) the entry stores are finalised in declaration order.")
EXPLANATION += ' Batch 11: (R10) EntryTrait::set_idx / get_idx are required methods and the Box<T> wrapper forwards every method of the trait.'
EXPLANATION += ' Batch 12: (R11) nothing that runs before the entry stores are finalised can evaluate a deferred word (Word/Bound/Vow::get).'
ASSUMPTIONS = ["rayon par_iter_mut().enumerate() yields (position, element) pairs", "atomics with Relaxed ordering are read after the join of finalisation",
               "rustc MIR construction and trait resolution"]

REORDER = r"::(par_sort\w*|sort\w*|swap|reverse|retain\w*|dedup\w*|drain|rotate_\w+|shuffle|truncate|insert|remove|swap_remove|split_off|append|extend\w*|clear)(::<.*)?$"


def r1_reindex(cx, rule="R1"):
    F = cx.F
    f = F.one(impl_self="creator::directory_pack::entry_store::EntryStore", item="finalize", trait="EntryStoreTrait", closure=False)
    b = F.body(f)
    err = b.error_blocks()
    reorders = []
    for i, t in b.calls():
        if not call_is(t, REORDER):
            continue
        if not t["args"]:
            continue
        if ("field", "entries") in b.origins(t["args"][0]):
            reorders.append((i, t))
    sei = b.calls(r"entry_store::set_entry_idx::<")
    consumers = b.calls(r"Schema::<.*>::process$", r"Schema::<.*>::finalize$")
    fes = [(i, None) for i, blk in enumerate(b.blocks) if not blk.get("cleanup") for s in blk["s"] if s["k"] == "assign" and s["rv"]["k"] == "agg" and s["rv"].get("adt", "").endswith("FinalEntryStore")]
    cons = [(i, t) for i, t in consumers] + fes
    cx.ob(rule, rule + "/anchors", len(reorders) >= 2 and len(sei) >= 2 and len(cons) >= 3, f, "EntryStore::finalize: %d reorder sites, %d set_entry_idx sites, %d consumers" % (len(reorders), len(sei), len(cons)))
    sset = {i for i, _ in sei}
    for k, (ri, rt) in enumerate(sorted(reorders, key=lambda x: x[1].get("ln", 0))):
        r = b.reach_after(ri, avoid=sset | err)
        bad = [b.ln(ci) if ci is not None else None for ci, _ in cons if ci in r]
        cx.ob(rule, rule + "/reorder@%d:%s" % (k, ((rt.get("callee") or {}).get("def") or "").split("::")[-1]), not bad, f,
              "after %s on self.entries every path to a consumer passes set_entry_idx (consumers reachable without it at lines %s)" % (callee_str(rt).split("::")[-1], bad), ln=rt.get("ln"))
    # unsorted path: some set_entry_idx dominates every consumer
    for ci, ct in cons:
        ok = any(b.dominates(si, ci) for si in sset)
        cx.ob(rule, rule + "/indexed-before-consumer@%s" % (callee_str(ct).split("::")[-1] if ct else "FinalEntryStore"), ok, f, "a set_entry_idx dominates this consumer (also when the store is not sorted)", ln=b.ln(ci))
    # and the other way round: what a consumer has seen stays true -- no reordering (hence no new positions) after it.
    # `Schema::process` chooses the byte width of every column, also of those that hold positions of other entries
    late = []
    for ci, ct in cons:
        if ci is None:
            continue
        after = b.reach_after(ci, avoid=err)
        late += [b.ln(ri) for ri, _ in reorders if ri in after]
    cx.ob(rule, rule + "/no-reorder-after-a-consumer", not late, f, "no sort of self.entries is reachable once Schema::process / finalize has looked at the entries (sorts reachable after a consumer: lines %s)" % sorted(set(late)))
    # set_entry_idx is applied to self.entries
    cx.ob(rule, rule + "/reindex-the-same-vector", all(("field", "entries") in b.origins(t["args"][0]) for _, t in sei), f, "set_entry_idx is applied to self.entries")


def r2_index_is_position(cx):
    F = cx.F
    f = F.fn_named("entry_store::set_entry_idx")
    b = F.body(f)
    pim = b.calls(r"IntoParallelRefMutIterator<.*>>::par_iter_mut$|::iter_mut$")
    en = b.calls(r"::enumerate$")
    fe = b.calls(r"::for_each::<")
    ok = len(pim) == 1 and len(en) == 1 and len(fe) == 1
    if ok:
        ok = ("param", 1) in b.origins(pim[0][1]["args"][0]) and any(x == ("call", pim[0][0]) for x in b.origins(en[0][1]["args"][0])) and any(x == ("call", en[0][0]) for x in b.origins(fe[0][1]["args"][0]))
    cx.ob("R2", "R2/enumerate-over-the-slice", ok, f, "set_entry_idx iterates entries.(par_)iter_mut().enumerate() over its own argument")
    cl = [c for c in F.closures_of(f) if "blocks" in c]
    ok = len(cl) == 1
    if ok:
        cb = F.body(cl[0])
        si = cb.calls(r"EntryTrait<.*>>::set_idx$")
        ok = len(si) == 1
        if ok:
            o = cb.origins(si[0][1]["args"][1])
            calls = [callee_str(cb.term(x[1])) for x in o if x[0] == "call"]
            arith = [s for blk in cb.blocks for s in blk["s"] if s["k"] == "assign" and s["rv"]["k"] == "bin" and s["rv"]["op"] in ("Add", "Sub", "Mul", "AddWithOverflow", "SubWithOverflow", "MulWithOverflow", "Shl", "Shr", "BitXor")]
            casts = [s for blk in cb.blocks for s in blk["s"] if s["k"] == "assign" and s["rv"]["k"] == "cast" and s["rv"]["ck"] == "IntToInt"]
            ok = ("param", 2) in o and all(re.search(r"From<u32>>::from$|Into<.*>>::into$", c) for c in calls) and not arith and len(casts) == 1 and casts[0]["rv"]["ty"] == "u32" \
                and not any(x[0] == "const" and isinstance(x[1], int) and not isinstance(x[1], bool) for x in o)
            # argument 2 of the closure is the (idx, entry) tuple: field 0 feeds set_idx's value, field 1 is the receiver
            recv = cb.origins(si[0][1]["args"][0])
            ok = ok and ("param", 2) in recv
    cx.ob("R2", "R2/idx-as-u32-no-arithmetic", ok, cl[0] if cl else f, "the closure calls entry.set_idx((idx as u32).into()) with the enumerate index, no arithmetic, no constant")


def r3_shared_cell(cx):
    F = cx.F
    vb = F.one(impl_self="delayed::Vow", item="bind", closure=False)
    b = F.body(vb)
    ac = b.calls(r"Arc<.*> as std::clone::Clone>::clone$")
    agg = [s for blk in b.blocks for s in blk["s"] if s["k"] == "assign" and s["rv"]["k"] == "agg" and s["rv"].get("adt", "").endswith("delayed::Bound")]
    ok = len(ac) == 1 and len(agg) == 1 and ("field", "0") in b.origins(ac[0][1]["args"][0]) and ("param", 1) in b.origins(ac[0][1]["args"][0]) and any(x == ("call", ac[0][0]) for x in b.origins(agg[0]["rv"]["fields"][0]))
    cx.ob("R3", "R3/Vow.bind-clones-own-arc", ok, vb, "Vow::bind returns Bound(Arc::clone(&self.0)): the handle shares the cell")
    vf = F.one(impl_self="delayed::Vow", item="fulfil", closure=False)
    fb = F.body(vf)
    st = fb.calls(r"SyncType>::set$")
    ok = len(st) == 1 and ("field", "0") in fb.origins(st[0][1]["args"][0]) and ("param", 2) in fb.origins(st[0][1]["args"][1])
    cx.ob("R3", "R3/Vow.fulfil-stores-into-own-arc", ok, vf, "Vow::fulfil stores the value into self.0")
    bg = F.one(impl_self="delayed::Bound", item="get", closure=False, trait="")
    gb = F.body(bg)
    ld = gb.calls(r"SyncType>::to_self$")
    cx.ob("R3", "R3/Bound.get-loads-own-arc", len(ld) == 1 and ("field", "0") in gb.origins(ld[0][1]["args"][0]), bg, "Bound::get loads from its Arc")
    for m, callee, what in (("set_idx", r"Vow::<.*>::fulfil$", "fulfil"), ("get_idx", r"Vow::<.*>::bind$", "bind")):
        g = F.one(impl_self="creator::directory_pack::BasicEntry", item=m, trait="EntryTrait", closure=False)
        mb = F.body(g)
        c = mb.calls(callee)
        ok = len(c) == 1 and ("field", "idx") in mb.origins(c[0][1]["args"][0])
        cx.ob("R3", "R3/BasicEntry.%s" % m, ok, g, "BasicEntry::%s uses self.idx.%s" % (m, what))
    a = F.one(impl_self="creator::directory_pack::entry_store::EntryStore", item="add_entry", closure=False)
    ab = F.body(a)
    gi = ab.calls(r"EntryTrait<.*>>::get_idx$")
    pu = ab.calls(r"Vec::<.*>::push$")
    ok = len(gi) == 1 and len(pu) == 1
    if ok:
        ok = ("param", 2) in ab.origins(gi[0][1]["args"][0]) and ("param", 2) in ab.origins(pu[0][1]["args"][1]) and any(x == ("call", gi[0][0]) for x in ab.origins(0))
    cx.ob("R3", "R3/add_entry-returns-the-entrys-bound", ok, a, "add_entry returns entry.get_idx() of the very entry it pushes")


def r4_value_ids(cx):
    F = cx.F
    for ty in ("PlainValueStore", "IndexedValueStore"):
        f = F.one(impl_self="value_store::" + ty, item="finalize", closure=False, trait="")
        b = F.body(f)
        srt = b.calls(r"::par_sort\w*::<|::sort\w*::<")
        ok = len(srt) >= 1 and all(("field", "sorted_indirect") in b.origins(t["args"][0]) for _, t in srt)
        # id assignment: stores into data[..].1 inside a loop after the sort
        def last_field_idx(pl):
            fs = [e for e in pl.get("p", []) if isinstance(e, dict) and "f" in e]
            return fs[-1]["f"] if fs else None
        stores = [(i, s) for i, blk in enumerate(b.blocks) if not blk.get("cleanup") for s in blk["s"] if s["k"] == "assign" and last_field_idx(s["lhs"]) == 1 and "*" in s["lhs"].get("p", []) and _in_loop(b, i)
                  and b.derives_from_call({"cp": {"l": s["lhs"]["l"]}}, r"IndexMut<usize>>::index_mut$", through_calls=False)]
        fin = [(i, s) for i, blk in enumerate(b.blocks) if not blk.get("cleanup") for s in blk["s"] if s["k"] == "assign" and place_fields(s["lhs"])[-1:] == ["finalized"] and op_const_val(s["rv"].get("op") or {}) is True]
        ok = ok and len(stores) >= 1 and len(fin) == 1
        if ok:
            # (one sort, or alternative sorts selected by a mode: every path to an id assignment passes one of them)
            ok = all(b.set_dominates({j for j, _ in srt}, i) for i, _ in stores) and all(fin[0][0] in b.reach_after(i) and i not in b.reach_after(fin[0][0]) for i, _ in stores)
        # sort key = the data bytes
        # sort key closure captures self.0.data (the bytes)
        keyok = len(srt) >= 1 and all(("field", "data") in b.origins(t["args"][1]) for _, t in srt)
        cx.ob("R4", "R4/%s.finalize" % ty, ok and keyok, f, "%s::finalize sorts sorted_indirect by the data bytes, then assigns value ids in that order, then sets finalized = true" % ty)
        # .. by the *whole* byte strings, in the order of slices: the key function / comparator of the sort looks the value
        # up and hands it (or compares it) as it is -- a key computed from part of the bytes (a fixed-size head, a hash, a
        # length first) is another order for some pair of values
        allowed = (r"as std::ops::Index(Mut)?<usize>>::index(_mut)?$", r"ops::Deref>::deref$", r"convert::AsRef<.*>>::as_ref$", r"borrow::Borrow<.*>>::borrow$",
                   r"<(std::boxed::Box<\[u8\]>|\[u8\]|&\[u8\]|&std::boxed::Box<\[u8\]>) as std::cmp::(Ord|PartialOrd)>::(cmp|partial_cmp)$", r"impl std::cmp::(Ord|PartialOrd) for \[u8\]>::(cmp|partial_cmp)$",
                   r"<&.* as std::cmp::(Ord|PartialOrd)(<.*>)?>::(cmp|partial_cmp)$")
        db = F.deep_body(f, only=r"value_store::", closures=True)
        other = []
        nclos = 0
        for i, t in db.calls(r"::par_sort\w*::<|::sort\w*::<"):
            if len(t["args"]) < 2:
                other.append("line %s: sorted without a key (the order of the indices themselves)" % t.get("ln"))
                continue
            seen_c, work = set(), []
            l = op_base_local(t["args"][1])
            for d in db.defs().get(l, []) if l is not None else []:
                if d[0] == "stmt" and d[3]["k"] == "assign":
                    rv = d[3]["rv"]
                    if rv.get("closure_fn") is not None:
                        work.append(rv["closure_fn"])
                    elif rv["k"] == "use" and op_base_local(rv["op"]) is not None:
                        for d2 in db.defs().get(op_base_local(rv["op"]), []):
                            if d2[0] == "stmt" and d2[3]["k"] == "assign" and d2[3]["rv"].get("closure_fn") is not None:
                                work.append(d2[3]["rv"]["closure_fn"])
            while work:
                cid = work.pop()
                if cid in seen_c or cid >= len(F.fns) or "blocks" not in F.fns[cid]:
                    continue
                seen_c.add(cid)
                nclos += 1
                cb = F.body(F.fns[cid])
                for j, ct in cb.calls(r"."):
                    if cb.is_cleanup(j) or call_is(ct, *allowed):
                        continue
                    other.append(callee_str(ct).split("::<")[0][-60:])
                for blk in cb.blocks:
                    for st in blk["s"]:
                        if st["k"] == "assign" and (st.get("rv") or {}).get("closure_fn") is not None:
                            work.append(st["rv"]["closure_fn"])
        cx.ob("R4", "R4/%s.finalize/whole-bytes-order" % ty, nclos >= 1 and not other, f,
              "the key / comparator of the sort hands over or compares the whole value, looked up in data, and computes nothing else (%d closure(s); other calls: %s)" % (nclos, sorted(set(other)) or "none"))
    g = F.one(impl_self="value_store::BaseValueStore", item="get", closure=False)
    gb = F.body(g)
    cx.ob("R4", "R4/ids-read-only-when-finalized", bool(gb.panic_blocks()) and any(("field", "finalized") in gb.origins(gb.term(s)["op"]) for s in range(gb.n) if gb.term(s)["k"] == "switch"), g,
          "BaseValueStore::get panics on a store that is not finalised (ids cannot be read before they are assigned)")


def _in_loop(b, bb):
    return bb in b.reach_after(bb)


def r3b_word_reads_the_cell_every_time(cx):
    """a deferred value (`Word`) bound to an entry position is read several times while the position still changes
    (sort comparator, then column sizing, then writing): `Word::get` must evaluate the closure at every call -- no
    memoised copy in the Word"""
    F = cx.F
    g = F.one(impl_self="delayed::Word", item="get", closure=False)
    b = F.body(g)
    fc = b.calls(r"as std::ops::Fn<\(\)>>::call$")
    memo = [callee_str(t).split("::<")[0].split("::")[-2:] for i, t in b.calls(r"OnceLock|OnceCell|LazyLock|LazyCell|Cell<|RefCell|Mutex|RwLock|Atomic|Option::<.*>::(get_or_insert|insert|replace|take)")]
    ok = len(fc) == 1 and ("call", fc[0][0]) in b.origins(0) and not memo
    cx.ob("R3", "R3/Word.get/evaluates-the-closure", ok, g, "Word::get returns the result of calling the stored closure, with no cached value (memo calls: %s)" % memo)
    st = F.struct("delayed::Word")
    state = [f_["name"] for f_ in st["fields"] if re.search(r"Once|Lazy|Cell|Mutex|RwLock|Atomic|Option<", f_["ty"])]
    cx.ob("R3", "R3/Word/no-memo-field", not state and any("dyn std::ops::Fn()" in f_["ty"] for f_ in st["fields"]), "(struct bases::types::delayed::Word)",
          "Word holds the closure and no memoisation state (fields with interior state: %s)" % state)


def r3c_fulfil_always_stores(cx):
    """a vow is fulfilled several times (provisional position at insertion, then after every sort pass): each fulfil
    overwrites the shared cell, whatever the value -- no path of Vow::fulfil returns without the store"""
    F = cx.F
    g = F.one(impl_self="delayed::Vow", item="fulfil", closure=False)
    b = F.deep_body(g, only=r"bases::types::delayed::")
    st = b.calls(r"SyncType>::set$", r"Atomic\w+::store$")
    ok = len(st) >= 1 and b.must_pass_before_return({i for i, _ in st}, success_only=False) and ("param", 2) in set().union(*[b.origins(t["args"][1]) for _, t in st])
    cx.ob("R3", "R3/Vow.fulfil/always-stores", ok, g, "every path of Vow::fulfil stores the given value into the shared cell (no value is special-cased)")


def r5_entry_adopts_the_vow_it_is_given(cx):
    """a reference taken on a Vow *before* the entry exists (a forward or self reference) must see the final position:
    the constructors of BasicEntry that take a `Vow<EntryIdx>` make that very cell the entry's `idx` -- moved whole
    into the entry, never read (`get`) and copied into a fresh cell, which would leave every Bound taken earlier on the
    caller's cell at its initial value"""
    F = cx.F
    n = 0
    for f in F.live_fns:
        if "blocks" not in f or f.get("kind") == "closure" or not re.search(r"directory_pack::BasicEntry", f.get("impl_self") or ""):
            continue
        ps = [l for l in range(1, f["arg_count"] + 1) if re.search(r"Vow<.*EntryIdx>$", f["locals"][l].get("ty") or "") and not (f["locals"][l].get("ty") or "").startswith("&")]
        if not ps:
            continue
        b = F.deep_body(f, only=r"directory_pack::BasicEntry")
        aggs = [st for blk in b.blocks if not blk.get("cleanup") for st in blk["s"]
                if st["k"] == "assign" and st["rv"]["k"] == "agg" and (st["rv"].get("adt") or "").endswith("directory_pack::BasicEntry") and "idx" in (st["rv"].get("fnames") or [])]
        copies = b.whole_copies(set(ps))
        ok = bool(aggs)
        for st in aggs:
            pl = op_place(st["rv"]["fields"][st["rv"]["fnames"].index("idx")])
            ok = ok and pl is not None and not pl.get("p") and pl["l"] in copies
        n += 1
        cx.ob("R5", "R5/BasicEntry.%s/adopts-the-vow" % f["item_name"], ok, f,
              "the Vow<EntryIdx> parameter is moved whole into the `idx` of the entry built (%d constructions)" % len(aggs))
    if n < 2:
        raise AnchorLost("constructors of BasicEntry taking a Vow<EntryIdx>: %d" % n)


def r6_positions_in_signed_columns_keep_their_width(cx):
    """a reference may be kept in a signed column (`SignedWord`): the width of that column is chosen from the sign-folded
    value like any other signed column, so that a final position with its top bit set (128..255, 32768..) is not
    truncated to a negative number (= C02-R1 under C15)"""
    import c02
    orig = cx.ob

    def ob(rule, key, *a, **kw):
        return orig("R6", key.replace("R1/", "R6/", 1), *a, **kw)
    cx.ob = ob
    try:
        c02.r1_signed_width(cx)
    finally:
        cx.ob = orig


def r7_deferred_words_stay_deferred(cx):
    """a `Word` given for an integer property is a promise ("the position this entry will finally have"), fulfilled once at
    insertion and again after every sort: whatever turns the caller's values into stored values keeps it a word and never
    looks at its current value -- a value read while entries are still being added is an insertion rank, not a position."""
    F = cx.F
    f = F.one(regex=r"creator::directory_pack::ValueTransformer.*Iterator>::next$")
    b = F.deep_body(f, only=r"creator::directory_pack::ValueTransformer")
    words = [st for blk in b.blocks if not blk.get("cleanup") for st in blk["s"] if st["k"] == "assign" and st["rv"]["k"] == "agg"
             and (st["rv"].get("adt") or "").endswith("directory_pack::value::Value") and st["rv"].get("variant") in ("UnsignedWord", "SignedWord")]
    if len(words) < 2:
        raise AnchorLost("ValueTransformer::next: %d constructions of Value::{Unsigned,Signed}Word" % len(words))
    reads = [t.get("ln") for i, t in b.calls(r"types::delayed::Word::<.*>::get$", r"types::delayed::Bound::<.*>::get$", r"types::delayed::Vow::<.*>::get$")]
    cx.ob("R7", "R7/ValueTransformer.next/words-are-not-evaluated", not reads, f,
          "the transformation of the caller's values builds deferred words (%d sites) and never reads the current value of one (reads at lines %s)" % (len(words), reads))


def r8_constant_reference_columns_keep_their_width(cx):
    """when every entry refers to the same target the column is a constant, written once as a default on the width found by
    the sizing pass (= C02-R16 under C15)"""
    import c02
    orig = cx.ob

    def ob(rule, key, *a, **kw):
        return orig("R8", key.replace("R16/", "R8/", 1), *a, **kw)
    cx.ob = ob
    try:
        c02.r16_declared_width_comes_from_the_sizing_alone(cx)
    finally:
        cx.ob = orig


def r9_stores_are_finalised_in_declaration_order(cx):
    """an entry may refer to an entry of a store declared before its own: that store is sorted, and its positions are
    final, by the time the referring store sizes its columns -- because DirectoryPackCreator::finalize finalises the
    entry stores front to back. Walking them from the back (pop, rev, next_back, swap_remove) sizes the reference column on
    insertion ranks and truncates the final positions when they are written."""
    F = cx.F
    f = F.one(impl_self="DirectoryPackCreator", item="finalize", closure=False)
    b = F.deep_body(f, only=r"DirectoryPackCreator", closures=True)
    fin = b.calls(r"EntryStoreTrait>::finalize$")
    in_closure = [c for c in F.closures_of(f) if "blocks" in c and F.body(c).calls(r"EntryStoreTrait>::finalize$")]
    if not fin and not in_closure:
        raise AnchorLost("DirectoryPackCreator::finalize no longer finalises the entry stores")
    back = []
    for i, t in b.calls(r"Vec::<.*>::(pop|swap_remove|remove|reverse)$", r"Iterator>::rev$", r"DoubleEndedIterator>::(next_back|rfold|rev|nth_back|try_rfold|rfind)", r"slice::<impl \[.*\]>::(reverse|sort\w*|swap|rotate_\w+)"):
        o = b.origins(t["args"][0]) if t["args"] else set()
        if ("field", "entry_stores") in o or any(x[0] == "call" and x[1] in {j for j, _ in fin} for x in o):
            back.append("%s at line %s" % (callee_str(t).split("::<")[0].split("::")[-1], t.get("ln")))
    cx.ob("R9", "R9/stores-finalised-front-to-back", not back, f,
          "the entry stores are finalised in the order they were declared (walked from the back or reordered: %s)" % (back or "no"))


def r10_every_entry_type_keeps_its_position(cx):
    """'a reference resolves to the final position': the store tells each entry its position through EntryTrait::set_idx and
    hands out EntryTrait::get_idx. Both are *required* methods (a default body would be a no-op / a cell nobody fills, and a
    wrapper type would inherit it silently), and the wrapper impl the library itself provides (`Box<T>`) defines every
    method of the trait and forwards these two to the entry it wraps."""
    F = cx.F
    tr = [t for t in F.traits if t["path"] == "creator::directory_pack::EntryTrait"]
    if len(tr) != 1:
        raise AnchorLost("trait creator::directory_pack::EntryTrait")
    items = {it["name"]: it for it in tr[0]["items"] if it.get("kind") == "Fn"}
    for m in ("set_idx", "get_idx"):
        if m not in items:
            raise AnchorLost("EntryTrait::%s" % m)
        cx.ob("R10", "R10/EntryTrait.%s/required" % m, "fn" not in items[m], "src/creator/directory_pack/mod.rs (trait EntryTrait)",
              "EntryTrait::%s has no default body: every entry type says where it keeps its position" % m)
    ims = [im for im in F.impls_of("creator::directory_pack::EntryTrait") if im.get("trait_def") == "creator::directory_pack::EntryTrait"]
    wrappers = [im for im in ims if re.match(r"^std::(boxed::Box|sync::Arc|rc::Rc)<|^&", im["self"])]
    if not wrappers:
        raise AnchorLost("impl EntryTrait for Box<T>")
    for im in wrappers:
        have = {it["name"]: it for it in im["items"]}
        missing = sorted(set(items) - set(have))
        fwd = True
        for m in ("set_idx", "get_idx"):
            fid = have.get(m, {}).get("fn")
            g = F.fns[fid] if fid is not None and fid < len(F.fns) else None
            fwd = fwd and g is not None and "blocks" in g and bool(F.body(g).calls(r"EntryTrait(<.*>)?>::%s$" % m))
        cx.ob("R10", "R10/%s/forwards-every-method" % im["self"].split("::")[-1], not missing and fwd, "%s:%s (impl EntryTrait for %s)" % (im["file"], im["line"], im["self"]),
              "the wrapper defines every method of EntryTrait (missing: %s) and forwards set_idx / get_idx to the wrapped entry (%s)" % (missing or "none", fwd))


def r11_no_deferred_word_is_read_before_the_stores_are_final(cx, rule="R11"):
    """'a reference resolves to the final position': an index window, a property, a sort key may hold a deferred word
    (`Word` / `Bound` / `Vow`) bound to the position of an entry. Positions become final when the entry stores are finalised
    (sorted, renumbered). In DirectoryPackCreator::finalize nothing that can evaluate such a word runs before that: no call
    made ahead of the finalisation of the entry stores reaches `Word::get` / `Bound::get` / `Vow::get` (directly, through a
    helper, or through a closure handed to an iterator adaptor)."""
    F = cx.F
    f = F.one(impl_self="DirectoryPackCreator", item="finalize", closure=False)
    b = F.deep_body(f, only=r"DirectoryPackCreator", closures=True)
    getters = {g["id"] for g in F.fns if re.search(r"delayed::(Word|Bound|Vow)::<.*>::get$|delayed::(Word|Bound|Vow)<.*>::get$", g["name"])}
    if not getters:
        raise AnchorLost("Word::get / Bound::get / Vow::get")

    def fin_sites(body):
        out = {i for i, _ in body.calls(r"EntryStoreTrait>::finalize$")}
        for i, t in body.calls(r"."):
            for a in t["args"]:
                l = op_base_local(a)
                for d in body.defs().get(l, []) if l is not None else []:
                    if d[0] == "stmt" and d[3]["k"] == "assign" and d[3]["rv"].get("closure_fn") is not None:
                        c = F.fns[d[3]["rv"]["closure_fn"]]
                        if "blocks" in c and F.body(c).calls(r"EntryStoreTrait>::finalize$"):
                            out.add(i)
        return out
    fin = fin_sites(b)
    if not fin:
        raise AnchorLost("DirectoryPackCreator::finalize no longer finalises the entry stores")
    early = []
    n = 0
    for i, t in b.calls(r"."):
        if b.is_cleanup(i) or i in fin or not (fin & b.reach_after(i)):
            continue       # only what runs before (some) finalisation of the stores
        n += 1
        roots = []
        c = t.get("callee") or {}
        for k in ("rfn", "def_fn"):
            if c.get(k) is not None:
                roots.append(c[k])
        for a in t["args"]:
            l = op_base_local(a)
            for d in b.defs().get(l, []) if l is not None else []:
                if d[0] == "stmt" and d[3]["k"] == "assign" and d[3]["rv"].get("closure_fn") is not None:
                    roots.append(d[3]["rv"]["closure_fn"])
        if not roots:
            continue
        r = F.reach(roots)
        if r & getters:
            early.append("line %s: %s" % (t.get("ln"), callee_str(t).split("::<")[0][-50:]))
    cx.ob(rule, rule + "/DirectoryPackCreator.finalize/words-read-after-the-stores-are-final", not early, f,
          "%d calls run before the entry stores are finalised; none of them can evaluate a deferred word (%s)" % (n, early or "none"))


RULES = [
    ("R11", r11_no_deferred_word_is_read_before_the_stores_are_final, 1),
    ("R10", r10_every_entry_type_keeps_its_position, 3),
    ("R9", r9_stores_are_finalised_in_declaration_order, 1),
    ("R8", r8_constant_reference_columns_keep_their_width, 2),
    ("R7", r7_deferred_words_stay_deferred, 1),
    ("R6", r6_positions_in_signed_columns_keep_their_width, 3),
    ("R1", r1_reindex, 7),
    ("R2", r2_index_is_position, 2),
    ("R3", r3_shared_cell, 6),
    ("R3", r3b_word_reads_the_cell_every_time, 2),
    ("R3", r3c_fulfil_always_stores, 1),
    ("R4", r4_value_ids, 3),
    ("R5", r5_entry_adopts_the_vow_it_is_given, 2),
]
