"""C13 — all views of a stored content (stream, slice, sub-cut, conversions) agree.
Structural clauses: R1 stream cursor starts at the region's begin; R2 relative offsets are rebased
before any absolute sink; R3 ByteRegion/ByteSlice siblings agree; R4 reads stop at the region's end."""
import re
from lib import *

PROPERTY = "C13"
EXPLANATION = ("Views are (source, absolute region[, absolute cursor]). Decided from MIR/HIR: (R1) at every construction of a "
               "ByteStream the cursor argument is `begin()` of the very region passed next to it; (R2) in every method of "
               "Reader/CheckReader/ByteRegion/ByteSlice taking a relative Offset, that offset reaches an absolute sink "
               "(Source::read/read_exact/get_slice/cut, SliceParser::new, view constructors) only through Region::cut_rel, "
               "cut_rel_asize or `region.begin() + offset`; (R3) each ByteRegion method resolves to the same callee sequence as "
               "its ByteSlice twin; (R4) ByteStream::read caps the buffer by region.end() - cursor and advances by the returned "
               "count, and size_left/size/offset are end-cursor / region.size() / cursor-begin. Byte equality of the views is not decided."
               ' Added later: (R6) SeekableDecoder::read waits for min(offset + buf.len(), total), nothing coarser.')
EXPLANATION += ' Batch 11: (R5) FileSource::get_slice touches the file only through its own read_exact on every path; no second handle on the file.'
ASSUMPTIONS = ["Source implementations honour absolute regions (C06/C07 rules)", "rustc MIR construction and trait resolution"]

VIEW_TYPES = ["bases::reader::Reader", "bases::reader::CheckReader", "reader::byte_region::ByteRegion", "reader::byte_slice::ByteSlice"]
SINKS = (r"Source>::read$", r"Source>::read_exact$", r"Source>::get_slice$", r"Source>::cut$", r"SliceParser::<'_>::new$|SliceParser::new$",
         r"ByteStream::new_from_parts$", r"ByteSlice::<'_>::new_from_parts$|ByteSlice::new_from_parts$", r"Reader::new_from_parts$",
         r"CheckReader::new_from_parts$", r"Range::<.*>::new$", r"ARegion::new$", r"Range::<.*>::new_from_size$")
REBASE = (r"Range::<bases::types::offset::Offset>::cut_rel$", r"Range::<bases::types::offset::Offset>::cut_rel_asize$")
CONVERT = (r"Into<.*>>::into$", r"From<.*>>::from$", r"Offset::into_u64$", r"Clone>::clone$")


def _begin_of_same_region(b, cur, region):
    """cur derives (without passing another call) from `<region>.begin()` of that same region operand"""
    oc = b.origin_calls(cur, through_calls=False)
    begins = [(j, tt) for j, tt in oc if call_is(tt, r"Range::<.*Offset>::begin$")]
    if not oc or len(begins) != len(oc):
        return False, [callee_str(tt) for _, tt in oc] or sorted(b.origins(cur, through_calls=False))
    reg = {o for o in b.origins(region, through_calls=False) if o[0] in ("param", "call", "local", "field")}
    for j, tt in begins:
        ro = {o for o in b.origins(tt["args"][0], through_calls=False) if o[0] in ("param", "call", "local", "field")}
        if ro & reg:
            return True, ["begin() of the region"]
    return False, ["begin() of another region"]


def r1_cursor(cx):
    """a fresh stream starts at the beginning of its region: wherever a ByteStream value is built, its cursor field is
    `region.begin()` of the region stored next to it -- computed on the spot, or handed in by callers that all do so"""
    F = cx.F
    n = 0
    for f in F.live_fns:
        if "blocks" not in f:
            continue
        for i, blk in enumerate(f["blocks"]):
            if blk.get("cleanup"):
                continue
            for st in blk["s"]:
                if not (st["k"] == "assign" and st["rv"]["k"] == "agg" and st["rv"].get("adt", "").endswith("reader::byte_stream::ByteStream")):
                    continue
                b = F.body(f)
                fn = st["rv"].get("fnames") or []
                if "offset" not in fn or "region" not in fn:
                    raise AnchorLost("ByteStream no longer has the fields region/offset: %s" % fn)
                cur, region = st["rv"]["fields"][fn.index("offset")], st["rv"]["fields"][fn.index("region")]
                ok, why = _begin_of_same_region(b, cur, region)
                if ok:
                    n += 1
                    cx.ob("R1", "R1/%s" % f["name"], True, f, "ByteStream { region, offset: region.begin() } built here", ln=st.get("ln"))
                    continue
                co = {o for o in b.origins(cur, through_calls=False) if o[0] != "field"}
                ro = {o for o in b.origins(region, through_calls=False) if o[0] != "field"}
                pc = [o[1] for o in co if o[0] == "param"]
                pr = [o[1] for o in ro if o[0] == "param"]
                if len(co) == 1 and len(pc) == 1 and len(pr) == 1:
                    # the constructor receives the cursor: every caller must pass region.begin() of the region it passes
                    sites = 0
                    for g in F.live_fns:
                        if "blocks" not in g:
                            continue
                        for j, gblk in enumerate(g["blocks"]):
                            t = gblk["t"]
                            c = t.get("callee") or {}
                            if gblk.get("cleanup") or t["k"] != "call" or f["id"] not in (c.get("rfn"), c.get("def_fn")):
                                continue
                            gb = F.body(g)
                            ok2, why2 = _begin_of_same_region(gb, t["args"][pc[0] - 1], t["args"][pr[0] - 1])
                            sites += 1
                            n += 1
                            cx.ob("R1", "R1/%s" % g["name"], ok2, g,
                                  "%s(.., region, cursor): the cursor must be region.begin() of that same region; cursor derives from %s" % (f["name"].split("::")[-1], why2), ln=t.get("ln"))
                    if not sites:
                        cx.ob("R1", "R1/%s" % f["name"], True, f, "constructor taking the cursor has no caller", trivial=True)
                else:
                    n += 1
                    cx.ob("R1", "R1/%s" % f["name"], False, f, "ByteStream built with a cursor that is neither region.begin() nor a parameter checked at the call sites: %s" % why, ln=st.get("ln"))
    if n == 0:
        raise AnchorLost("no construction of ByteStream found")


def _offset_params(f):
    out = []
    for i in range(1, f["arg_count"] + 1):
        if f["locals"][i]["ty"] == "bases::types::offset::Offset":
            out.append(i)
    return out


def _view_methods(F):
    out = []
    for f in F.live_fns:
        if f["kind"] == "closure" or "blocks" not in f:
            continue
        s = f.get("impl_self", "")
        s0 = re.sub(r"<.*", "", s)
        if s0 in VIEW_TYPES and _offset_params(f):
            out.append(f)
    return out


def r2_rebase(cx):
    F = cx.F
    fam = {f["id"] for f in _view_methods(F)}
    for f in _view_methods(F):
        b = F.body(f)
        for p in _offset_params(f):
            # relative-offset taint: copies/moves and conversions keep it; rebasing ends it
            taint = {p}
            changed = True
            bad = []
            rebased = 0
            delegated = 0
            while changed:
                changed = False
                nt = b.forward_locals(taint, through_calls=False)
                if nt - taint:
                    taint |= nt
                    changed = True
                for i, t in b.calls():
                    args_t = [k for k, a in enumerate(t["args"]) if op_base_local(a) in taint]
                    if not args_t:
                        continue
                    if call_is(t, *CONVERT) or call_is(t, r"Try>::branch$"):
                        if t["dest"]["l"] not in taint:
                            taint.add(t["dest"]["l"])
                            changed = True
            for i, t in b.calls():
                args_t = [k for k, a in enumerate(t["args"]) if op_base_local(a) in taint]
                if not args_t:
                    continue
                if call_is(t, *CONVERT) or call_is(t, r"Try>::branch$"):
                    continue
                if call_is(t, *REBASE):
                    # receiver must be the view's own region
                    ro = b.origins(t["args"][0], through_calls=False)
                    if ("field", "region") in ro:
                        rebased += 1
                    else:
                        bad.append("cut on a foreign region at line %s" % t.get("ln"))
                    continue
                if call_is(t, r"Offset as std::ops::Add(<.*>)?>::add$"):
                    other = [a for k, a in enumerate(t["args"]) if k not in args_t]
                    # (`region.begin()`, or the view's accessor of it, `global_offset()`, applied to the view itself)
                    go = [t2 for _, t2 in b.origin_calls(other[0], through_calls=False) if call_is(t2, r"RandomParser>::global_offset$") and ("param", 1) in b.origins(t2["args"][0], through_calls=False)] if other else []
                    if other and (b.derives_from_call(other[0], r"Range::<.*Offset>::begin$", through_calls=False) or go):
                        rebased += 1
                    else:
                        bad.append("offset added to something that is not region.begin() at line %s" % t.get("ln"))
                    continue
                c = t.get("callee") or {}
                if c.get("rfn") in fam or c.get("def_fn") in fam:
                    delegated += 1
                    continue
                if call_is(t, *SINKS):
                    bad.append("relative offset reaches absolute sink %s at line %s" % (callee_str(t), t.get("ln")))
                    continue
                if call_is(t, r"Sub<.*>>::sub$", r"PartialOrd.*>::(le|lt|ge|gt)$", r"PartialEq.*>::(eq|ne)$", r"fmt::", r"DataBlockParsable>::finalize$", r"is_valid$"):
                    continue
                cx.ob("R2", "R2/%s/p%d/other:%s" % (f["name"], p, _sc(t)), True, f, "relative offset passed to %s (not a sink)" % callee_str(t), ln=t.get("ln"), info=True)
            used = rebased + delegated
            cx.ob("R2", "R2/%s/p%d" % (f["name"], p), not bad and used >= 1, f,
                  "relative Offset parameter `%s` is rebased (%d) or delegated to a sibling view method (%d) before any absolute use; problems: %s" % (
                      f["locals"][p].get("name"), rebased, delegated, bad))


def _sc(t):
    return ((t.get("callee") or {}).get("def") or "?").split("::")[-1]


PAIRS = ["cut", "get_slice", "stream", "size", "create_parser", "global_offset", "read_slice", "read_data"]


def _callee_seq(F, f, _depth=0):
    out = []
    for n in hir_walk(F.tree(f)):
        if n.get("k") == "call":
            c = n.get("callee") or {}
            nm = c.get("def") or c.get("ctor") or c.get("expr")
            if nm and not re.search(r"^std::(prelude|result|option)|::Ok$|::Some$", nm):
                nm = re.sub(r"<.*?>", "", nm)
                # a call to the type's own method: the sibling's counterpart is compared as its own pair
                nm = re.sub(r"^reader::byte_(region::ByteRegion|slice::ByteSlice)::(::)?", "Self::", nm)
                # the accessor of the absolute position of the view is `region.begin()`
                if nm == "bases::parsing::RandomParser::global_offset":
                    nm = "bases::types::range::Range::::begin"
                # a view method written in terms of another method of the same view (`read_slice` calling `get_slice`): what
                # that method does, so that it compares with a sibling that spells it out
                rf_ = c.get("rfn")
                if _depth == 0 and rf_ is not None and rf_ != f["id"] and nm.startswith("Self::") and nm.split("::")[-1] in PAIRS and nm != "Self::as_slice":
                    out.extend(_callee_seq(F, F.fns[rf_], _depth + 1))
                    continue
                # a constructor function whose body is nothing but the struct literal is that struct literal
                rf = c.get("rfn")
                params = (F.hir[rf].get("params") or []) if rf is not None else []
                if rf is not None and rf != f["id"] and not (params and re.search(r"\bself\b", params[0])):
                    inner = [m_ for m_ in hir_walk(F.tree(rf)) if m_.get("k") in ("call", "struct", "match", "if", "loop")]
                    if len(inner) == 1 and inner[0].get("k") == "struct":
                        nm = "struct " + re.sub(r"<.*", "", inner[0]["path"].split("::")[-1])
                out.append(nm)
        elif n.get("k") == "struct":
            out.append("struct " + re.sub(r"<.*", "", n["path"].split("::")[-1]))
    return out


def r3_siblings(cx):
    F = cx.F
    for m in PAIRS:
        a = [f for f in F.find(impl_self="reader::byte_region::ByteRegion", item=m, closure=False) if f.get("impl_trait") in (None, "bases::parsing::RandomParser")]
        bb = [f for f in F.find(impl_self="reader::byte_slice::ByteSlice", item=m, closure=False) if f.get("impl_trait") in (None, "bases::parsing::RandomParser")]
        if len(a) != 1 or len(bb) != 1:
            raise AnchorLost("sibling pair %s: ByteRegion %d / ByteSlice %d" % (m, len(a), len(bb)))
        # conversions between the integer wrappers and `min` written as a call or as an `if` do not distinguish the siblings
        pure = re.compile(r"^std::clone::Clone::clone$|^std::convert::(From::from|Into::into)$|^std::cmp::(min|max)$|^std::cmp::Ord::(min|max)$|^bases::types::\w+::\w+::(new|into_u64|into_usize|zero)$")
        sa, sb = [x for x in _callee_seq(F, a[0]) if not pure.search(x)], [x for x in _callee_seq(F, bb[0]) if not pure.search(x)]
        # delegation: the region view turns itself into the slice view (`self.as_slice()`) and then does what the
        # slice view does, or calls the slice view's method of the same name -- the two agree by construction
        deleg = [x for x in sa if x != "Self::as_slice"]
        delegates = "Self::as_slice" in sa and (deleg == sb or deleg == ["Self::" + m])
        cx.ob("R3", "R3/%s" % m, sa == sb or delegates, a[0], "ByteRegion::%s and ByteSlice::%s resolve to the same callee sequence: %s vs %s" % (m, m, sa, sb))


def r4_stream_read(cx):
    F = cx.F
    f = F.one(impl_self="ByteStream", item="read", trait="Read", closure=False)
    b = F.deep_body(f, only=r"byte_stream::ByteStream::")   # the stream's own accessors (size_left, ...) are transparent
    rd = b.calls(r"Source>::read$")
    cx.ob("R4", "R4/read/one-source-read", len(rd) == 1, f, "ByteStream::read calls Source::read exactly once (found %d)" % len(rd))
    if len(rd) == 1:
        ri, rt = rd[0]
        # offset argument is the cursor
        cx.ob("R4", "R4/read/from-cursor", ("field", "offset") in b.origins(rt["args"][1], through_calls=False), f, "Source::read is called at the cursor (self.offset)", ln=rt.get("ln"))
        oc = b.origin_calls(rt["args"][2])
        mins = [(i, t) for i, t in oc if call_is(t, r"cmp::min", r"Ord>::min$")]
        ok = len(mins) == 1
        if ok:
            mo = b.origins(mins[0][1]["args"][1]) | b.origins(mins[0][1]["args"][0])
            ok = any(o[0] == "call" and call_is(b.term(o[1]), r"Range::<.*Offset>::end$") for o in mo) and ("field", "offset") in mo and \
                any(o[0] == "call" and call_is(b.term(o[1]), r"\]>::len$|::len$") for o in mo)
        cx.ob("R4", "R4/read/capped-at-end", ok, f, "the buffer handed to Source::read is buf[..min(buf.len(), region.end() - cursor)]", ln=rt.get("ln"))
        adds = b.calls(r"AddAssign<.*>>::add_assign$")
        ok = len(adds) == 1 and any(o == ("call", ri) for o in b.origins(adds[0][1]["args"][1])) and ("field", "offset") in b.origins(adds[0][1]["args"][0], through_calls=False)
        cx.ob("R4", "R4/read/advance-by-returned", ok, f, "the cursor advances by the count Source::read returned and by nothing else")
    for m, a0, a1 in (("size_left", r"Range::<.*Offset>::end$", "offset"), ("offset", "offset", r"Range::<.*Offset>::begin$")):
        g = F.one(impl_self="ByteStream", item=m, closure=False, trait="")
        gb = F.body(g)
        subs = gb.calls(r"Sub<.*>>::sub$|Sub>::sub$")
        ok = len(subs) == 1
        if ok:
            t = subs[0][1]

            def is_(op, what):
                if what == "offset":
                    o = gb.origins(op, through_calls=False)
                    return ("field", "offset") in o and not any(x[0] == "call" for x in o)
                return gb.derives_from_call(op, what, through_calls=False)
            ok = is_(t["args"][0], a0) and is_(t["args"][1], a1)
        cx.ob("R4", "R4/%s" % m, ok, g, "ByteStream::%s = %s - %s" % (m, "region.end()" if m == "size_left" else "cursor", "cursor" if m == "size_left" else "region.begin()"))
    g = F.one(impl_self="ByteStream", item="size", closure=False, trait="")
    gb = F.body(g)
    sz = gb.calls(r"Range::<.*Offset>::size$")
    cx.ob("R4", "R4/size", len(sz) == 1 and ("field", "region") in gb.origins(sz[0][1]["args"][0], through_calls=False), g, "ByteStream::size = region.size()")


def r4b_every_read_method_is_capped(cx):
    """every method of `impl Read for ByteStream` that touches the source transfers at most what is LEFT
    (region.end() - cursor), never the whole size of the region"""
    F = cx.F
    ms = F.find(impl_self="reader::byte_stream::ByteStream", trait="Read", closure=False)
    for f in ms:
        b = F.body(f)
        src = b.calls(r"Source>::read$", r"Source>::read_exact$", r"Source>::get_slice$")
        if not src:
            cx.ob("R4", "R4/Read::%s/no-source-access" % f["item_name"], True, f, "does not touch the source", trivial=True)
            continue
        for i, t in src:
            o = b.origins(t["args"][2])
            calls = [callee_str(b.term(x[1])) for x in o if x[0] == "call"]
            left = any(re.search(r"ByteStream::size_left$", c) for c in calls) or (any(re.search(r"Range::<.*Offset>::end$", c) for c in calls) and ("field", "offset") in o)
            whole = any(re.search(r"ByteStream::size$|Range::<.*Offset>::size$", c) for c in calls)
            cx.ob("R4", "R4/Read::%s/capped-by-what-is-left" % f["item_name"], left and not whole, f,
                  "the buffer handed to %s is bounded by region.end() - cursor (size_left), not by the size of the whole region: bounded-by-left=%s uses-whole-size=%s" % (callee_str(t).split("::")[-1], left, whole), ln=t.get("ln"))
            cx.ob("R4", "R4/Read::%s/from-cursor" % f["item_name"], ("field", "offset") in b.origins(t["args"][1], through_calls=False), f, "the source is read at the cursor", ln=t.get("ln"))


def r5_file_reads_are_positioned(cx):
    """the file cursor behind FileSource is shared mutable state: every read of the file must first seek to
    the absolute offset it was asked for, on every path (no remembered position)"""
    import streams
    F = cx.F
    for m, rd_pat, off in (("read", r"Read>::read$", 2), ("read_exact", r"Read>::read_exact$", 2), ("cut", r"Read>::read_to_end$", None)):
        f = F.one(impl_self="bases::io::file::FileSource", item=m, trait="Source", closure=False)
        b = F.body(f)
        rds = [(i, t) for i, t in b.calls(rd_pat) if "FileSource" not in callee_str(t)]
        sks = [(i, t) for i, t in b.calls(r"Seek>::seek$")]
        ok = len(rds) >= 1 and len(sks) >= 1
        if ok:
            for ri, rt in rds:
                doms = [(si, stt) for si, stt in sks if b.dominates(si, ri)]
                good = False
                for si, stt in doms:
                    v, opnd = streams.seek_variant(b, stt)
                    if v != "Start":
                        continue
                    o = b.origins(opnd)
                    if off is not None:
                        good = good or (("param", off) in o)
                    else:
                        good = good or (("param", 2) in o and any(x[0] == "call" and call_is(b.term(x[1]), r"Range::<.*>::begin$") for x in o))
                # same lock guard: the seek and the read are applied to the guard obtained by ONE lock() call
                lk = [i for i, t in b.calls(r"Mutex::<.*>::lock$", r"FileSource as std::ops::Deref>::deref$") if b.dominates(i, ri)]
                locks_r = {x[1] for x in b.origins(rt["args"][0]) if x[0] == "call" and call_is(b.term(x[1]), r"Mutex::<.*>::lock$")}
                same_guard = False
                for si, stt in doms:
                    locks_s = {x[1] for x in b.origins(stt["args"][0]) if x[0] == "call" and call_is(b.term(x[1]), r"Mutex::<.*>::lock$")}
                    if locks_s and locks_s == locks_r and len(locks_r) == 1:
                        same_guard = True
                # .. and to the locked reader itself, not to a handle taken out of it: a `try_clone()` of the file shares
                # the file offset with the reader everybody else uses under the lock, and outlives the guard
                escaped = sorted({callee_str(b.term(x[1])).split("::")[-1] for opnd_ in [rt["args"][0]] + [stt["args"][0] for _, stt in doms]
                                  for x in b.origins(opnd_) if x[0] == "call" and call_is(b.term(x[1]), r"try_clone$", r"BufReader::<.*>::(get_ref|get_mut|into_inner)$", r"as_raw_fd$", r"as_fd$")})
                ok = ok and good and bool(lk) and same_guard and not escaped
        cx.ob("R5", "R5/FileSource::%s" % m, ok, f, "FileSource::%s seeks to SeekFrom::Start(requested offset) and reads through the guard of one single lock() (one critical section) on every path" % m)
    g = F.one(impl_self="bases::io::file::FileSource", item="get_slice", trait="Source", closure=False)
    gb = F.body(g)
    own = gb.calls(r"FileSource as .*Source>::read_exact$")
    direct = sorted({callee_str(t).split("::<")[0].split("::")[-1] for i, t in gb.calls(r"Read>::(read|read_exact|read_to_end|read_buf|read_vectored)$", r"Seek>::(seek|rewind|seek_relative)$", r"try_clone$", r"BufRead>::(fill_buf|consume)$", r"BufReader::<.*>::(get_ref|get_mut|into_inner|buffer)$", r"FileExt>::read(_exact)?_at$", r"Mutex::<.*>::lock$")
                     if not gb.is_cleanup(i) and "FileSource as" not in callee_str(t)})
    every_path = len(own) == 1 and gb.must_pass_before_return({own[0][0]})
    cx.ob("R5", "R5/FileSource::get_slice", len(own) == 1 and not direct and every_path, g,
          "FileSource::get_slice goes through its own read_exact(region.begin(), ..) on every successful path and touches the file in no other way (direct accesses: %s)" % (direct or "none"))
    # nothing in FileSource takes a second handle on the file: a dup shares the file offset with the locked reader
    dups = []
    for h in F.live_fns:
        if "blocks" in h and re.search(r"bases::io::file::FileSource", h["name"]):
            hb = F.body(h)
            dups += ["%s:%s" % (re.sub(r"<.*?>", "", h["name"]).split("::")[-1], t.get("ln")) for i, t in hb.calls(r"File::try_clone$", r"as_raw_fd$", r"AsFd>::as_fd$", r"from_raw_fd$") if not hb.is_cleanup(i)]
    cx.ob("R5", "R5/FileSource/no-second-handle", not dups, "(impl FileSource)", "no method of FileSource duplicates the file handle or takes its descriptor (%s)" % (dups or "none"))
    st = F.struct("io::file::FileSource")
    names = sorted(fl["name"] for fl in st["fields"])
    cx.ob("R5", "R5/FileSource-has-no-position-state", names == ["len", "path", "source"], "(struct FileSource)", "FileSource keeps no remembered position besides the file itself: fields %s" % names)


def r6_decoder_read_waits_for_what_is_asked(cx):
    """a stream on a compressed content reads through `SeekableDecoder::read`; `Ok(0)` means "end of the content" to every
    reader of a stream (`read_to_end`, `io::copy`). The decoder therefore waits (`decode_to`) for the end of the request
    itself -- `min(offset + buf.len(), total size)` -- and not for some granularity of its own: a bound that does not
    depend on the length asked can stop exactly at the offset, serve nothing and end the stream early."""
    F = cx.F
    f = F.one(impl_self="bases::io::compression::SeekableDecoder", item="read", trait="Source", closure=False)
    # the functions of compression.rs that (transitively) wait on the decoder's Condvar: the call of one of them in `read`
    # (everything else of that file inlined) is where the reader waits, and its usize argument is the bound waited for
    comp = [g for g in F.live_fns if "blocks" in g and re.search(r"^<?bases::io::compression::", g["name"]) and g["id"] != f["id"]]
    waits = set()
    changed = True
    while changed:
        changed = False
        for g in comp:
            if g["id"] in waits:
                continue
            for blk in g["blocks"]:
                t_ = blk["t"]
                if t_["k"] != "call" or blk.get("cleanup"):
                    continue
                c_ = t_.get("callee") or {}
                if call_is(t_, r"Condvar::wait(_while)?(::<.*>)?$") or c_.get("rfn") in waits or c_.get("def_fn") in waits:
                    waits.add(g["id"]); changed = True
                    break
    names = {g["name"] for g in comp if g["id"] in waits}
    b = F.deep_body(f, only=r"^<?bases::io::compression::")
    # deep_body inlines by regex; the waiting functions must stay calls: rebuild with them excluded
    excl = "|".join(re.escape(re.sub(r"<.*?>", "", n).split("::")[-1]) for n in names) or "$^"
    b = F.deep_body(f, only=r"^<?bases::io::compression::(?!.*::(%s)$)" % excl)
    dt = [(i, t) for i, t in b.calls() if ((t.get("callee") or {}).get("rfn") in waits or (t.get("callee") or {}).get("def_fn") in waits)]
    dt = [(i, dict(t, args=[t["args"][0]] + [a for a in t["args"][1:] if op_place(a) is not None and (b.locals[op_place(a)["l"]].get("ty") or "") == "usize"])) for i, t in dt]
    dt = [(i, t) for i, t in dt if len(t["args"]) >= 2]
    if len(dt) != 1:
        raise AnchorLost("SeekableDecoder::read: %d calls that wait for the decoder with a bound" % len(dt))
    o = b.origins(dt[0][1]["args"][1])
    has_len = any(x[0] == "call" and call_is(b.term(x[1]), r"slice::<impl \[u8\]>::len$|::len$") and ("param", 3) in b.origins(b.term(x[1])["args"][0]) for x in o)
    has_off = ("param", 2) in o
    has_total = any(x[0] == "call" and call_is(b.term(x[1]), r"total_size$|::size$") for x in o) or ("field", "total_size") in o
    consts = sorted(x[1] for x in o if x[0] == "const" and isinstance(x[1], int) and not isinstance(x[1], bool) and x[1] not in (0, 1))
    cx.ob("R6", "R6/SeekableDecoder.read/waits-for-the-request", has_len and has_off and has_total and not consts, f,
          "decode_to waits for min(offset + buf.len(), total): depends on the offset (%s), on the length asked (%s), on the total size (%s), on no other constant (%s)" % (has_off, has_len, has_total, consts), ln=dt[0][1].get("ln"))


RULES = [
    ("R6", r6_decoder_read_waits_for_what_is_asked, 1),
    ("R1", r1_cursor, 1),
    ("R2", r2_rebase, 20),
    ("R3", r3_siblings, 8),
    ("R4", r4_stream_read, 7),
    ("R4", r4b_every_read_method_is_capped, 2),
    ("R5", r5_file_reads_are_positioned, 5),
]
