"""Stream-event abstraction over a MIR body: which calls write / seek / hash / read the output
stream, used by the order rules of C04, C09, C12, C14."""
import re
from lib import call_is, callee_str, op_local, op_base_local

WRITE = (r"::ser_write$", r"::ser_callable$", r"Write>::write_all$", r"::write_all$", r"Write>::write$", r"write_serializer$",
         r"WritableTell>::write$", r"WritableTell>::write_data$", r"OutStream>::copy$", r"std::io::copy", r"write_fmt$", r"write_vectored$")
HASH = (r"CheckInfo::new_blake3$",)
SEEK = (r"Seek>::seek$",)
REWIND = (r"Seek>::rewind$",)
TELL = (r"Seek>::stream_position$", r"OutStream>::tell$", r"::tell$")
READ = (r"Read>::read_exact$", r"Read>::read$", r"Read>::read_to_end$")
FLUSH = (r"Write>::flush$", r"BufWriter<.*>::into_inner$", r"BufWriter::<.*>::into_inner$")


def seek_variant(b, t):
    """variant name of the SeekFrom passed to a seek call (Start / End / Current) and the
    operand inside"""
    l = op_local(t["args"][1])
    for d in b.defs().get(l, []):
        if d[0] == "stmt" and d[3]["k"] == "assign" and d[3]["rv"]["k"] == "agg" and d[3]["rv"].get("adt", "").endswith("SeekFrom"):
            rv = d[3]["rv"]
            return rv["variant"], (rv["fields"][0] if rv["fields"] else None)
    return None, None


def classify(b, t):
    if t["k"] != "call":
        return None
    if call_is(t, *HASH):
        return "hash"
    if call_is(t, *REWIND):
        return "seek_start"
    if call_is(t, *SEEK):
        v, _ = seek_variant(b, t)
        return {"Start": "seek_start", "End": "seek_end", "Current": "seek_cur"}.get(v, "seek_unknown")
    if call_is(t, *WRITE):
        return "write"
    if call_is(t, *READ):
        return "read"
    if call_is(t, *FLUSH):
        return "flush"
    if call_is(t, *TELL):
        return "tell"
    return None


def events(b):
    """{bb: kind} for non-cleanup blocks"""
    ev = {}
    for i, blk in enumerate(b.blocks):
        if blk.get("cleanup"):
            continue
        k = classify(b, blk["t"])
        if k:
            ev[i] = k
    return ev


def written_type(b, t):
    """for ser_write(&x): the static type of x (through the unsize coercion to &dyn Serializable)"""
    if len(t["args"]) < 2:
        return None
    seen = set()
    st = [op_base_local(t["args"][1])]
    while st:
        l = st.pop()
        if l is None or l in seen:
            continue
        seen.add(l)
        for d in b.defs().get(l, []):
            if d[0] != "stmt" or d[3]["k"] != "assign":
                continue
            rv = d[3]["rv"]
            if rv["k"] == "cast" and "Unsize" in rv.get("full_ck", ""):
                return rv["from"]
            if rv["k"] in ("use", "cast"):
                st.append(op_base_local(rv["op"]))
            elif rv["k"] == "ref":
                # &local : type of the local
                return "&" + b.locals[rv["pl"]["l"]]["ty"] if not rv["pl"].get("p") else None
    return None
