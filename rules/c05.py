"""C05 — damaged metadata is reported, never silently decoded into different values.
CRC-gate typestate: metadata is only ever parsed from a region whose CRC was verified.
R1 parse sites / constant BlockCheck arguments; R2 sibling matrix over the Source impls;
R3 the check itself (assert_slice_crc + CRC parameters); R4 writer side."""
import re
from lib import *
import ref

PROPERTY = "C05"
EXPLANATION = ("CRC-gate typestate decided from MIR: (R1) every Reader::cut_check site passes the constant BlockCheck::Crc32 except "
               "the one inside parse_block_unchecked_at whose single caller discards the parsed value; CheckReader (the only type "
               "with parse_in) is constructed only in cut_check with in_memory=true; SliceParser::new is fed only by a CheckReader "
               "or by a view cut from verified entry data; the tables/stores loaders cut with Crc32; (R2) for each Source impl x "
               "{cut, get_slice}, assuming block_check = Crc32 (and in_memory = true) every path that returns Ok passes through "
               "assert_slice_crc on the buffer (or is unreachable!()); (R3) assert_slice_crc compares the digest of buf[..len-4] "
               "with the big-endian u32 at the end and returns Err(CorruptedFile) when they differ, CRC parameters equal the "
               "reference; (R4) every Serializer::new passes Crc32 and the checksum is written after the data. Semantic validation "
               "behind a valid CRC (forged files) is outside the property and not decided."
               " (R6) = C04-R2/R3 under this property; (R7) errors reach the caller (= C06-R7, Result-as-iterator adapters included).")
EXPLANATION += ' Batch 11: (R3) every Ok(()) of assert_slice_crc lies behind the digest and its comparison with the stored CRC (no sentinel value, no shortcut).'
ASSUMPTIONS = ["CRC-32C detects the alterations of the quantifier (storage damage, not adversarial re-checksumming)", "64-bit target (move_to_memory is the constant true)",
               "rustc MIR construction and trait resolution"]


def enum_arg(b, op):
    """variant name when the operand is an enum value built by a constant aggregate"""
    seen = set()
    st = [op_base_local(op)]
    out = set()
    while st:
        l = st.pop()
        if l is None or l in seen:
            continue
        seen.add(l)
        if 1 <= l <= b.arg_count:
            out.add("param:%d" % l)
        for d in b.defs().get(l, []):
            if d[0] == "stmt" and d[3]["k"] == "assign":
                rv = d[3]["rv"]
                if rv["k"] == "agg" and rv["ak"] == "adt":
                    out.add(rv["variant"])
                elif rv["k"] in ("use", "cast"):
                    st.append(op_base_local(rv["op"]))
                else:
                    out.add("?")
            else:
                out.add("?")
    c = op_const(op)
    if c is not None:
        out.add("const:%s" % c.get("val"))
    return out


def r1_parse_sites(cx):
    F = cx.F
    n_crc = 0
    for f in F.live_fns:
        if "blocks" not in f:
            continue
        b = None
        for i, blk in enumerate(f["blocks"]):
            t = blk["t"]
            if blk.get("cleanup") or t["k"] != "call":
                continue
            if call_is(t, r"bases::reader::Reader::cut_check$"):
                b = b or F.body(f)
                v = enum_arg(b, t["args"][3])
                inside_unchecked = f["name"].endswith("Reader::parse_block_unchecked_at")
                if inside_unchecked:
                    ok = v == {"None"}
                    msg = "the only unchecked cut (BlockCheck::None) lives in parse_block_unchecked_at: %s" % sorted(v)
                elif f["name"].endswith("Reader::cut_check"):
                    continue
                else:
                    ok = v == {"Crc32"}
                    msg = "cut_check is called with the constant BlockCheck::Crc32 (found %s)" % sorted(v)
                    n_crc += ok
                cx.ob("R1", "R1/cut_check@%s" % f["name"], ok, f, msg, ln=t.get("ln"))
            if call_is(t, r"CheckReader::new_from_parts$"):
                own = F.effective_owner(f)    # a new helper used by cut_check alone builds it on cut_check's behalf
                cx.ob("R1", "R1/CheckReader-built-in@%s" % own["name"], own["name"].endswith("Reader::cut_check"), f,
                      "CheckReader (the only type that can parse_in) is constructed only by Reader::cut_check", ln=t.get("ln"))
            if call_is(t, r"Reader::parse_block_unchecked_at::<"):
                b = b or F.body(f)
                # Ok value discarded: the dest (through `?`) is never read except by drops/discriminant reads
                used = _value_used(b, t["dest"]["l"])
                cx.ob("R1", "R1/unchecked-parse-discarded@%s" % f["name"], f["name"].endswith("open_as_container_pack") and not used, f,
                      "the value parsed without CRC (parse_block_unchecked_at) is used only to surface a version error: its Ok payload is never read", ln=t.get("ln"))
            if call_is(t, r"SliceParser::<'_>::new$|SliceParser::new$"):
                owner = f.get("impl_self", "")
                b = b or F.body(f)
                okk = bool(re.search(r"CheckReader$|ByteRegion$|ByteSlice", owner)) or b.derives_from_call(t["args"][0], r"ValueStoreTrait>::get_data$")
                cx.ob("R1", "R1/SliceParser.new@%s" % f["name"], okk, f, "SliceParser::new is fed by a CheckReader, a ByteRegion/ByteSlice view, or value-store data (loaded through a Crc32 cut) (owner %s)" % owner, ln=t.get("ln"))
            if call_is(t, r"Source>::cut$") and not f.get("impl_trait", "").endswith("Source"):
                # the raw cut of a source is a private matter of the reader layer: called from `Reader`'s own methods only,
                # with block_check = None (plain views) or the caller's own block_check parameter (cut_source / cut_check)
                b = b or F.body(f)
                own = F.effective_owner(f)
                v = enum_arg(b, t["args"][2])
                forwards = bool(v) and all(x.startswith("param:") for x in v)
                in_reader = (own.get("impl_self") or "").endswith("bases::reader::Reader")
                # (what cut_source / cut_check pass on is decided on their callers' feasible paths, see R1/cut_source@.. below)
                okc = in_reader and (bool(re.search(r"::(cut_source|cut_check)$", own["name"])) or v == {"None"})
                cx.ob("R1", "R1/Source.cut-caller@%s" % own["name"], bool(okc), f,
                      "Source::cut is called only by the reader layer (Reader::cut_source or a method of Reader), with None or the forwarded block_check (%s)" % sorted(v), ln=t.get("ln"))
    # what reaches Source::cut from each cutting method of Reader (its private helpers inlined, only the feasible paths):
    # raw cuts ask for no check, cut_check forwards the check it was given and asks for the bytes in memory
    for item in ("create_stream", "cut", "cut_check"):
        f = F.one(impl_self="bases::reader::Reader", item=item, closure=False)
        b = F.deep_body(f, only=r"bases::reader::")
        r, _ = b.explore(avoid=b.error_blocks())
        cuts = [(i, t) for i, t in b.calls(r"Source>::cut$") if i in r]
        if len(cuts) != 1:
            raise AnchorLost("Reader::%s: %d reachable calls of Source::cut" % (item, len(cuts)))
        t = cuts[0][1]
        kinds = ("variant", "param", "call", "const")
        bc = {x for x in b.origins(t["args"][2], through_calls=False, blocks=r) if x[0] in kinds}
        im = {x for x in b.origins(t["args"][3], through_calls=False, blocks=r) if x[0] in kinds}
        none = {("variant", v) for v in ("bases::block::BlockCheck::None",)}
        is_none = bool(bc) and all(x[0] == "variant" and x[1].endswith("BlockCheck::None") for x in bc)
        if item == "cut_check":
            pidx = [l for l in range(1, f["arg_count"] + 1) if (f["locals"][l].get("ty") or "").endswith("BlockCheck")]
            ok = bool(pidx) and bc == {("param", pidx[0])} and im == {("const", True)}
            msg = "cut_check forwards its block_check parameter with in_memory = true (%s, %s)" % (sorted(bc), sorted(im))
        else:
            ok = is_none
            msg = "raw cut (%s) produces a Reader/ByteStream, which cannot parse_in: block_check is the constant None (%s)" % (item, sorted(bc))
        cx.ob("R1", "R1/cut_source@bases::reader::Reader::%s" % item, ok, f, msg, ln=t.get("ln"))
    # get_slice(.., BlockCheck::X) outside Source impls: Crc32 never needed there; None only on verified / raw-content receivers
    for f in F.live_fns:
        if "blocks" not in f or f.get("impl_trait", "").endswith("io::Source"):
            continue
        b = None
        for i, blk in enumerate(f["blocks"]):
            t = blk["t"]
            if blk.get("cleanup") or not call_is(t, r"Source>::get_slice$"):
                continue
            b = b or F.body(f)
            v = enum_arg(b, t["args"][2])
            owner = f.get("impl_self", "")
            ok = v == {"None"} and bool(re.search(r"CheckReader$|ByteRegion$|ByteSlice", owner))
            cx.ob("R1", "R1/get_slice@%s" % f["name"], ok, f, "Source::get_slice(.., None) is used only on a CheckReader (already verified) or a content view (%s, %s)" % (owner, sorted(v)), ln=t.get("ln"))
    # entry bytes: EntryStore::finalize
    f = F.one(impl_self="reader::directory_pack::entry_store::EntryStore", item="finalize", closure=False)
    b = F.body(f)
    cc = b.calls(r"Reader::cut_check$")
    raw = b.calls(r"bases::reader::Reader::cut$")
    ok = len(cc) >= 1 and len(raw) >= 1
    if ok:
        # path-sensitive: with the flag clear only the CRC-checked cut is reachable, the raw cut needs the flag
        r0, _ = b.explore(assume_fields={"is_entry_checked": False}, avoid=b.error_blocks())
        r1, _ = b.explore(assume_fields={"is_entry_checked": True}, avoid=b.error_blocks())
        ok = not any(i in r0 for i, _ in raw) and any(i in r0 for i, _ in cc) and any(i in r1 for i, _ in raw)
    cx.ob("R1", "R1/EntryStore.finalize/whole-data-crc", ok, f, "entry data is cut with Crc32 unless the (CRC-covered) is_entry_checked flag is set")
    if len(raw) == 1:
        cx.ob("R1", "R1/EntryStore.finalize/per-entry-arm", True, f, "informational: the is_entry_checked arm cuts unchecked and no per-entry verification exists; the creator never sets the flag", ln=raw[0][1].get("ln"), info=True)


def _value_used(b, l):
    """is the Ok payload of local l (a Result) read anywhere? through `?` / match"""
    def whole_copies(seed):
        # locals holding the same value: plain moves / copies / borrows of the whole local (not values built from a part of it)
        tl = set(seed)
        changed = True
        while changed:
            changed = False
            for blk in b.blocks:
                for s in blk["s"]:
                    if s["k"] == "assign" and not s["lhs"].get("p") and s["lhs"]["l"] not in tl:
                        rv = s["rv"]
                        src = None
                        if rv["k"] == "use":
                            src = op_place(rv["op"])
                        elif rv["k"] == "ref":
                            src = rv["pl"]
                        if src is not None and src["l"] in tl and not [e for e in src.get("p", []) if e != "*"]:
                            tl.add(s["lhs"]["l"])
                            changed = True
        return tl
    tl = whole_copies({l})
    for i, t in b.calls(r"Try>::branch$"):
        if op_base_local(t["args"][0]) in tl:
            tl |= whole_copies({t["dest"]["l"]})
    for i, blk in enumerate(b.blocks):
        if blk.get("cleanup"):
            continue
        for s in blk["s"]:
            if s["k"] != "assign":
                continue
            rv = s["rv"]
            for o in rv_operands(rv):
                p = op_place(o)
                if p and p["l"] in tl:
                    # reading the Ok/Continue payload
                    downs = [e for e in p.get("p", []) if isinstance(e, dict) and "down" in e]
                    if any(e.get("n") in ("Ok", "Continue") for e in downs):
                        # payload moved somewhere: is that destination used by a call?
                        dst = s["lhs"]["l"]
                        for k, tt in b.calls():
                            if any(op_base_local(a) in b.forward_locals({dst}, through_calls=False) for a in tt["args"]):
                                return True
        t = blk["t"]
    return False


def _eval_bool(b, op, env, depth=0):
    if depth > 12:
        return None
    c = op_const(op)
    if c is not None:
        v = c.get("val")
        return v if isinstance(v, bool) else (bool(v) if isinstance(v, int) else None)
    l = op_local(op)
    if l is None:
        return None
    if l in env:
        return env[l]
    vals = set()
    for d in b.defs().get(l, []):
        if d[0] == "call":
            t = d[2]
            if call_is(t, r"file::move_to_memory$"):
                vals.add(env.get("move_to_memory"))
            else:
                vals.add(None)
        elif d[3]["k"] == "assign":
            rv = d[3]["rv"]
            if rv["k"] == "use":
                vals.add(_eval_bool(b, rv["op"], env, depth + 1))
            elif rv["k"] == "un" and rv["op"] == "Not":
                v = _eval_bool(b, rv["a"], env, depth + 1)
                vals.add(None if v is None else (not v))
            else:
                vals.add(None)
    if len(vals) == 1:
        return next(iter(vals))
    return None


def restricted_succ(b, assume_discr=None, env=None):
    """successor function of the CFG under assumptions: `assume_discr` = {param_local: discriminant}
    (switches on discr(param) follow only that value) and `env` (boolean locals / move_to_memory())"""
    assume_discr = assume_discr or {}
    env = env or {}
    copies = {p: b.forward_locals({p}, through_calls=False) for p in assume_discr}
    succ = []
    for i in range(b.n):
        t = b.term(i)
        ss = list(b.succ[i])
        if t["k"] == "switch":
            l = op_local(t["op"])
            decided = None
            for d in b.defs().get(l, []) if l is not None else []:
                if d[0] == "stmt" and d[3]["k"] == "assign" and d[3]["rv"]["k"] == "discr":
                    base = d[3]["rv"]["pl"]["l"]
                    for p, cs in copies.items():
                        if base in cs:
                            decided = assume_discr[p]
            if decided is not None:
                ss = [t["targets"][t["vals"].index(decided)]] if decided in t["vals"] else [t["otherwise"]]
            else:
                v = _eval_bool(b, t["op"], env)
                if v is not None and t.get("op_ty") == "bool":
                    iv = 1 if v else 0
                    ss = [t["targets"][t["vals"].index(iv)]] if iv in t["vals"] else [t["otherwise"]]
        succ.append(ss)
    return succ


def _reach(succ, start, avoid=()):
    seen = set()
    st = [start]
    while st:
        x = st.pop()
        if x in seen or x in avoid:
            continue
        seen.add(x)
        st.extend(succ[x])
    return seen


def r2_source_matrix(cx):
    F = cx.F
    impls = [i for i in F.impls_of("Source") if i["trait_def"].endswith("io::Source")]
    cx.ob("R2", "R2/impl-count", len(impls) == 3, "(impl table)", "three Source implementations (AsRef<[u8]>, FileSource, SeekableDecoder): found %s" % [i["self"] for i in impls])
    crc = 1  # discriminant of BlockCheck::Crc32
    e = F.enum("block::BlockCheck")
    crc = [v["discr"] for v in e["variants"] if v["name"] == "Crc32"][0]
    for imp in impls:
        who = imp["self"].split("::")[-1]
        for it in imp["items"]:
            if it["name"] not in ("cut", "get_slice") or "fn" not in it:
                continue
            f = F.fns[it["fn"]]
            b = F.body(f)
            bc = 3  # (self, region, block_check[, in_memory])
            env = {"move_to_memory": True}
            if it["name"] == "cut":
                env[4] = True
            err = b.error_blocks() | b.err_return_blocks()
            verif = {i for i, t in b.calls(r"block::assert_slice_crc$")}
            deleg = {i for i, t in b.calls(r"Source>::get_slice$", r"Source>::cut$") if "param:%d" % bc in enum_arg(b, t["args"][2])}
            # path-sensitive constant propagation under: block_check = Crc32, in_memory = true, move_to_memory() = true
            kw = dict(assume_locals=({4: True} if it["name"] == "cut" else {}), assume_discr={r"block::BlockCheck$": crc}, assume_calls={r"file::move_to_memory$": True})
            r_all, _ = b.explore(avoid=err, **kw)
            rets = [x for x in r_all if b.term(x)["k"] == "return"]
            r_wo, _ = b.explore(avoid=err | verif | deleg, **kw)
            bad = [x for x in rets if x in r_wo]
            if not rets:
                msg = "under block_check = Crc32 no Ok return is reachable (the arm is unreachable!()): nothing can be handed out unverified"
                ok = True
            else:
                ok = not bad
                msg = "under block_check = Crc32 (in_memory = true) every path to a normal return passes assert_slice_crc%s; unverified returns at lines %s" % (
                    " or delegates to the sibling with the same block_check" if deleg else "", [b.ln(x) for x in bad])
            cx.ob("R2", "R2/%s::%s" % (who, it["name"]), ok, f, msg)
            # the verified buffer is size + 4 bytes
            if verif and it["name"] == "get_slice" and who == "FileSource":
                pass
    # move_to_memory is the constant true on this target
    mm = [f for f in F.fns if f["name"].endswith("file::move_to_memory")]
    if len(mm) != 1:
        raise AnchorLost("move_to_memory")
    b = F.body(mm[0])
    consts = [op_const_val(s["rv"].get("op")) for blk in b.blocks for s in blk["s"] if s["k"] == "assign" and s["lhs"]["l"] == 0 and s["rv"]["k"] == "use"]
    cx.ob("R2", "R2/move_to_memory-constant", consts == [True] and not b.calls(), mm[0], "move_to_memory is the constant true on 64-bit targets (named exception of the early return in FileSource::cut)")


def r3_the_check(cx):
    F = cx.F
    f = F.fn_named("assert_slice_crc")
    b = F.body(f)
    fin = b.calls(r"crc::Digest<.*>::finalize$")
    upd = b.calls(r"crc::Digest<.*>::update$")
    one_shot = b.calls(r"crc::Crc::<.*>::checksum$|impl crc::Crc<.*>>::checksum$")
    if not fin and not upd and len(one_shot) == 1:
        fin = upd = one_shot      # `CRC.checksum(data)`: digest, update and finalize in one call (data is argument 1 too)
    rd = b.calls(r"BigEndian as .*ByteOrder>::read_u32$|u32::from_be_bytes$")
    ok = len(fin) == 1 and len(upd) == 1 and len(rd) == 1
    cx.ob("R3", "R3/shape", ok, f, "assert_slice_crc: one digest update, one finalize, one BE::read_u32 (found %d/%d/%d)" % (len(upd), len(fin), len(rd)))
    if not ok:
        return
    # comparison
    cmpb = None
    for i, blk in enumerate(b.blocks):
        for s in blk["s"]:
            if s["k"] == "assign" and s["rv"]["k"] == "bin" and s["rv"]["op"] in ("Ne", "Eq"):
                oa, ob = b.origins(s["rv"]["a"]), b.origins(s["rv"]["b"])
                if (("call", fin[0][0]) in oa and ("call", rd[0][0]) in ob) or (("call", fin[0][0]) in ob and ("call", rd[0][0]) in oa):
                    cmpb = (i, s)
    ok = cmpb is not None
    if ok:
        i, s = cmpb
        t = b.term(i)
        ne = s["rv"]["op"] == "Ne"
        if t["k"] != "switch":
            ok = False
        else:
            zero_t = t["targets"][t["vals"].index(0)] if 0 in t["vals"] else None
            other = t["otherwise"]
            differ_arm = other if ne else zero_t
            equal_arm = zero_t if ne else other
            corrupted = [x for x in range(b.n) if any(st["k"] == "assign" and st["rv"]["k"] == "agg" and st["rv"].get("adt", "").endswith("CorruptedFile") for st in b.stmts(x))]
            okret = [x for x in range(b.n) for st in b.stmts(x) if st["k"] == "assign" and st["lhs"]["l"] == 0 and st["rv"]["k"] == "agg" and st["rv"].get("variant") == "Ok"]
            ok = differ_arm is not None and bool(corrupted) and all(c in b.reachable(differ_arm) for c in corrupted) and not any(o in b.reachable(differ_arm) for o in okret) \
                and any(o in b.reachable(equal_arm) for o in okret) and not any(c in b.reachable(equal_arm) for c in corrupted)
    cx.ob("R3", "R3/mismatch-is-an-error", ok, f, "digest != stored CRC returns Err(CorruptedFile); only the equal arm returns Ok(())")
    if cmpb is not None:
        # no way to Ok(()) around the comparison: a stored value that "means unchecked" (zero, all ones), a size below which
        # the block is trusted, a flag -- whatever the shortcut, the block was not verified
        okret = [x for x in range(b.n) for st in b.stmts(x) if st["k"] == "assign" and st["lhs"]["l"] == 0 and st["rv"]["k"] == "agg" and st["rv"].get("variant") == "Ok"]
        early = [b.ln(o) for o in okret if not (b.dominates(cmpb[0], o) and b.dominates(fin[0][0], o))]
        cx.ob("R3", "R3/ok-only-after-the-comparison", bool(okret) and not early, f, "every Ok(()) of assert_slice_crc lies behind the digest and its comparison with the stored CRC (Ok returned without them at lines %s)" % (early or "none"))
    # digest over buf[..len-4], stored crc read from buf[len-4..]
    sub4 = False
    for blk in b.blocks:
        for s in blk["s"]:
            if s["k"] == "assign" and s["rv"]["k"] == "bin" and s["rv"]["op"] in ("Sub", "SubWithOverflow") and (
                    op_const_deep(b, s["rv"]["b"]) == ref.REF["sizes"]["crc"] or b.derives_from_call(s["rv"]["b"], r"block::BlockCheck::size$", through_calls=False)):
                sub4 = True     # `len - 4` or `len - BlockCheck::Crc32.size()` (the size table is checked in C14-R1)
    uo = b.origin_calls(upd[0][1]["args"][1])
    ro = b.origin_calls(rd[0][1]["args"][0])
    rng_to = any(call_is(t, r"RangeTo<usize>") for _, t in uo)
    rng_from = any(call_is(t, r"RangeFrom<usize>") for _, t in ro)
    # `let (data, stored) = buf.split_at(len - 4)`: field 0 of the pair is digested, field 1 holds the stored CRC
    sp = b.calls(r"\[u8\]>::split_at$|::split_at$|::split_last_chunk")
    if sp and not (rng_to or rng_from):
        sd = {("call", sp[0][0])}
        def fld(op, want):
            l = op_base_local(op)
            for d in b.defs().get(l, []) if l is not None else []:
                if d[0] == "stmt" and d[3]["k"] == "assign" and d[3]["rv"]["k"] in ("use", "ref"):
                    pl = op_place(d[3]["rv"]["op"]) if d[3]["rv"]["k"] == "use" else d[3]["rv"]["pl"]
                    fs = [e["f"] for e in (pl or {}).get("p", []) if isinstance(e, dict) and "f" in e]
                    if pl is not None and fs[:1] == [want] and ("call", sp[0][0]) in b.origins({"cp": {"l": pl["l"]}}, through_calls=False):
                        return True
                    if pl is not None and not fs and fld({"cp": pl}, want):
                        return True
            return False
        rng_to = fld(upd[0][1]["args"][1], 0)
        rng_from = fld(rd[0][1]["args"][0], 1)
    cx.ob("R3", "R3/ranges", sub4 and rng_to and rng_from, f, "data = buf[..len-4] is digested, the stored CRC is read from buf[len-4..] (len-4: %s, ..n: %s, n..: %s)" % (sub4, rng_to, rng_from))
    # CRC parameters
    want = ref.REF["crc"]
    ch = [h for h in F.const_hir if h["path"].endswith("block::CUSTOM_ALG")]
    got = {}
    if ch:
        for n in hir_walk(ch[0]["tree"]):
            if n.get("k") == "struct":
                got = {fl["name"]: fl["value"].get("lit") for fl in n["fields"]}
    for k in ("width", "poly", "init", "refin", "refout", "xorout"):
        cx.ob("R3", "R3/crc-param/%s" % k, got.get(k) == want[k], "src/bases/block.rs (CUSTOM_ALG)", "CRC parameter %s = %s equals the reference %s" % (k, got.get(k), want[k]))
    crc_c = [h for h in F.const_hir if h["path"].endswith("block::CRC")]
    uses = crc_c and any("CUSTOM_ALG" in a.get("snip", "") for n in hir_walk(crc_c[0]["tree"]) if n.get("k") == "call" for a in n["args"])
    cx.ob("R3", "R3/crc-uses-alg", bool(uses), "src/bases/block.rs (CRC)", "the CRC object is built from CUSTOM_ALG")


def r4_writer(cx):
    F = cx.F
    n = 0
    for f in F.live_fns:
        if "blocks" not in f:
            continue
        b = None
        for i, blk in enumerate(f["blocks"]):
            t = blk["t"]
            if blk.get("cleanup") or not call_is(t, r"write::private::Serializer::new$"):
                continue
            b = b or F.body(f)
            v = enum_arg(b, t["args"][0])
            cx.ob("R4", "R4/Serializer.new@%s" % f["name"], v == {"Crc32"}, f, "Serializer::new(BlockCheck::Crc32): every block written carries a CRC (found %s)" % sorted(v), ln=t.get("ln"))
            n += 1
    f = F.one(impl_self="write::private::Serializer", item="close", closure=False)
    b = F.body(f)
    e = F.enum("block::BlockCheck")
    crc = [v["discr"] for v in e["variants"] if v["name"] == "Crc32"][0]
    # on the Crc32 arm the returned tuple carries Some(checksum) derived from digest.finalize
    fin = b.calls(r"crc::Digest<.*>::finalize$")
    some = []
    for i, blk in enumerate(b.blocks):
        for s in blk["s"]:
            if s["k"] == "assign" and s["rv"]["k"] == "agg" and s["rv"].get("adt", "").endswith("Option") and s["rv"].get("variant") == "Some":
                some.append((i, s["rv"]["fields"][0]))
    ok = len(fin) >= 1 and len(some) == 1 and any(("call", fi) in b.origins(some[0][1]) for fi, _ in fin)
    upd = b.calls(r"crc::Digest<.*>::update$")
    ok = ok and len(upd) >= 1
    cx.ob("R4", "R4/Serializer.close", ok, f, "Serializer::close returns Some(checksum) where checksum = CRC digest of the whole buffer")
    ws = [g for g in F.fns if g.get("in_trait", "").endswith("OutStream") and g.get("item_name") == "write_serializer"]
    if len(ws) != 1:
        raise AnchorLost("OutStream::write_serializer")
    wb = F.body(ws[0])
    wa = wb.calls(r"Write>::write_all$")
    cl = wb.calls(r"Serializer::close$")
    ok = len(wa) == 2 and len(cl) == 1
    if ok:
        first, second = sorted(wa, key=lambda x: len(wb.dom()[x[0]]))
        ok = wb.dominates(first[0], second[0]) and wb.dominates(cl[0][0], first[0])
        # second write is control dependent on the Option being Some and writes the check
        ok = ok and bool(wb.control_dep_switches(second[0]))
    cx.ob("R4", "R4/write_serializer", ok, ws[0], "write_serializer writes the data then, when present, the checksum")


def r6_integrity_check_covers_content(cx):
    """'only the raw bytes of stored content may differ without an error, and in that case the integrity check
    fails': the container-wide check must reach the Blake3 check of every pack that is present (C04-R2/R3)"""
    import c04
    before = len(cx.obs)
    c04.r3_container_check(cx)
    c04.r2_check_impl(cx)
    for o in cx.obs[before:]:
        o.key = "R6/" + o.rule + "-" + o.key.split("/", 1)[1]
        o.rule = "R6"


def r5_witness(cx):
    """type-level: CheckReader cannot be named (hence constructed) outside the crate"""
    import witness
    for name, ok, detail in witness.run(["c05_check_reader_private"], repo=cx.repo):
        cx.ob("R5", "R5/%s" % name, ok, "/verif/witness/src/lib.rs", detail)


r5_witness.only_configs = ("lib-all3",)

def r_errors_reach_the_caller(cx):
    """an error met while locating, opening or parsing (a detected alteration) is never turned into 'absent' / a
    default: it must reach the caller of check() / of the accessor (= C06-R7, evaluated under this property)"""
    import c06
    before = len(cx.obs)
    c06.r7_errors_not_swallowed(cx)
    for o in cx.obs[before:]:
        o.key = "R7/" + o.key.split("/", 1)[1]
        o.rule = "R7"


RULES = [
    ("R7", r_errors_reach_the_caller, 2),
    ("R1", r1_parse_sites, 22),
    ("R2", r2_source_matrix, 8),
    ("R3", r3_the_check, 10),
    ("R4", r4_writer, 10),
    ("R5", r5_witness, 1),
    ("R6", r6_integrity_check_covers_content, 30),
]
