"""E4 runner: compile-fail witnesses (doc-tests of /verif/witness run with cargo +nightly test --doc)."""
import fcntl, os, re, shutil, subprocess
VERIF = os.path.dirname(os.path.dirname(os.path.abspath(__file__)))
W = os.path.join(VERIF, "witness")
EXPECT = {"c09_close_consumes": 2, "c01_finalize_consumes": 2, "c07_shared_views": 3, "c05_check_reader_private": 2}
_CACHE = {}


def _prune(tdir):
    """a scratch copy of the crate lives at a fresh path: cargo keys its artifacts by path, so they are never reused --
    remove them (the dependencies stay warm)"""
    import glob
    for pat in ("debug/deps/*jubako-*", "debug/deps/*jbkwitness-*", "debug/.fingerprint/jubako-*", "debug/.fingerprint/jbkwitness-*", "debug/incremental"):
        for p in glob.glob(os.path.join(tdir, pat)):
            if os.path.isdir(p):
                shutil.rmtree(p, ignore_errors=True)
            else:
                try:
                    os.remove(p)
                except OSError:
                    pass


def run(names, repo="/repo"):
    """[(name, ok, detail)] — every doc-test of the named witness items must pass and their number must be
    the expected one (a witness that silently disappears is a failure)"""
    repo = repo or "/repo"
    key = repo
    if key not in _CACHE:
        cache = os.environ.get("JBK_CACHE", os.path.join(VERIF, ".cache"))
        os.makedirs(cache, exist_ok=True)
        # parallel self-test workers (VCHECK_SLOT) use a private copy of the witness crate and a private target directory
        slot = os.environ.get("VCHECK_SLOT", "")
        wdir = W
        if slot:
            wdir = os.path.join(cache, "witness" + slot)
            os.makedirs(os.path.join(wdir, "src"), exist_ok=True)
            shutil.copy(os.path.join(W, "src", "lib.rs"), os.path.join(wdir, "src", "lib.rs"))
        with open(os.path.join(cache, "witness%s.lock" % slot), "w") as lk:
            fcntl.flock(lk, fcntl.LOCK_EX)
            with open(os.path.join(wdir, "Cargo.toml"), "w") as f:
                f.write('[package]\nname = "jbkwitness"\nversion = "0.1.0"\nedition = "2021"\n\n[workspace]\n\n[lib]\npath = "src/lib.rs"\n\n[dependencies]\n'
                        'jubako = { path = "%s", default-features = false, features = ["zstd"] }\n' % repo)
            shutil.copy(os.path.join(repo, "Cargo.lock"), os.path.join(wdir, "Cargo.lock"))
            tdir = os.path.join(cache, "target", "witness" + slot)
            env = dict(os.environ, CARGO_NET_OFFLINE="true", CARGO_TARGET_DIR=tdir, CARGO_INCREMENTAL="0")
            r = subprocess.run(["cargo", "+nightly", "test", "--doc", "--offline", "--", "--test-threads", "8"], cwd=wdir, env=env,
                               stdout=subprocess.PIPE, stderr=subprocess.STDOUT, text=True)
            _CACHE[key] = r.stdout
            if os.path.realpath(repo) != "/repo":
                _prune(tdir)
    out = _CACHE[key]
    res = []
    for n in names:
        lines = re.findall(r"^test src/lib\.rs - %s \(line \d+\)(?: - compile(?: fail)?)? \.\.\. (\w+)" % re.escape(n), out, re.M)
        ok = len(lines) == EXPECT[n] and all(x == "ok" for x in lines)
        res.append((n, ok, "%d/%d doc-tests of witness `%s` pass (compile-fail witness + compiling twin): %s%s" % (
            sum(1 for x in lines if x == "ok"), EXPECT[n], n, lines, "" if lines else "; cargo output: " + out[-600:])))
    return res


if __name__ == "__main__":
    for r in run(list(EXPECT)):
        print(r)
