"""C06 — reading a damaged or truncated file returns a value or an error, never crashes.
Declined as a whole (value-range reasoning over file-derived integers and three decompression
libraries); claimed ONLY for these necessary clauses, each anchored in a mechanism the property names:
R1 no abort inside a pool task; R2 the background producer always publishes a terminal state;
R3 bounds-check-before-access matrix over the Source impls and SliceParser; R4 debug-only guards on
reader-reachable regions; R5 the unchecked header parse is panic-free; R6 file-size subtractions are
guarded. Most of today's cells are GENUINE DEFECTS recorded in known_findings.json (exact keys)."""
import re
from lib import *

PROPERTY = "C06"
EXPLANATION = ("Necessary structural clauses of C06 (not the absence of every panic): (R1) nothing reachable from the closure spawned on "
               "the rayon decompression pool unwraps/expects/panics (a panic there aborts the process); (R2) every exit of decode_to_end, "
               "including the `?` exit, publishes a terminal state under the mutex and notifies, and the loop has an exit that does not "
               "depend on the decoder producing total_size bytes; (R3) for every Source impl x {read, read_exact, get_slice, cut} and "
               "SliceParser x {read_slice, read_data, skip}: each direct slice index / copy / raw-parts / mmap / short read is dominated by "
               "a length comparison whose failing arm returns Err, present in both build profiles; (R4) no debug_assert! sits in a "
               "function reachable from the public reader API (in debug builds it is a panic on damaged input, in release it is no "
               "check at all); (R5) everything reachable from the CRC-less header parse contains no explicit panic, unwrap or expect; "
               "(R6) subtractions on file-derived offsets/sizes are dominated by the matching comparison. Cells that fail on the pinned "
               "tree are genuine defects listed one by one in known_findings.json; any other cell failing is a new violation."
               " (R3 cell assert_slice_crc) every slice index on the CRC path, taken also when damage has been detected, is bounded by the length of the slice it indexes; (R5 arith) no unguarded panicking arithmetic on values parsed before any CRC was verified."
               ' Added later: (R8) no statically resolved call cycle in code that reads files; (R9) under block_check = Crc32 every path of Source::cut verifies (= C05-R2); (R10) the error of a block parse ends the operation (no error arm that goes on or spins). (R11) reader code starts no thread of its own. (R7) also the match form of a swallowed error; (R12) no Result<_, Error | io::Error> of the reader is unwrapped or expected, except right-sized in-memory integer reads.')
EXPLANATION += " Batch 12: (R13) the code that builds and converts the library's errors performs no operation that panics on a bound."
ASSUMPTIONS = ["compiler-inserted bounds checks after a successful length check are not counted", "decompression libraries return Err (not panic) on damaged streams",
               "rustc MIR construction and trait resolution; call graph over-approximates dynamic dispatch"]

PANICKY = (r"Result::<.*>::unwrap$", r"Result::<.*>::expect$", r"Option::<.*>::unwrap$", r"Option::<.*>::expect$", r"core::panicking::", r"std::rt::begin_panic", r"Result::<.*>::unwrap_err$")


def _pool_closures(F):
    out = []
    for f in F.live_fns:
        if "blocks" not in f:
            continue
        for i, blk in enumerate(f["blocks"]):
            t = blk["t"]
            if call_is(t, r"rayon.*ThreadPool::spawn::<"):
                b = F.body(f)
                for a in t["args"]:
                    l = op_base_local(a)
                    for d in b.defs().get(l, []) if l is not None else []:
                        if d[0] == "stmt" and d[3]["k"] == "assign" and d[3]["rv"]["k"] == "agg" and "closure_fn" in d[3]["rv"]:
                            out.append(F.fns[d[3]["rv"]["closure_fn"]])
    return out


def _panicky_sites(F, f):
    """[(line, what)] of unwrap/expect/explicit panics directly in f (non-cleanup, not the unreachable!() of
    an exhaustive match on an internal enum is still counted: it is a panic)"""
    out = []
    b = F.body(f)
    for i, t in b.calls(*PANICKY):
        out.append((t.get("ln"), callee_str(t).split("::")[-1] + ("!" + "/".join(t.get("mac", [])[-1:]) if t.get("mac") else "")))
    return out


def r1_pool_task(cx):
    F = cx.F
    cls = _pool_closures(F)
    cx.ob("R1", "R1/pool-closure-found", len(cls) == 1, "(whole crate)", "one closure is spawned on the decompression pool (found %d)" % len(cls))
    for c in cls:
        reach = [F.fns[x] for x in F.reach([c]) if isinstance(x, int) and "blocks" in F.fns[x]]
        for g in sorted(reach, key=lambda x: x["name"]):
            sites = _panicky_sites(F, g)
            # lock poisoning unwraps are not damage-related (LockResult)
            sites = [s for s in sites if not _is_lock_unwrap(F, g, s)]
            # closures are keyed without their index (it shifts when an unrelated closure is added before them)
            cx.ob("R1", "R1/no-abort-in-pool/%s" % re.sub(r"\{closure#\d+\}", "{closure}", g["name"]), not sites, g,
                  "code running on the rayon pool must not unwrap/expect/panic (a panic there aborts the process): %s" % sites)


def _is_lock_unwrap(F, g, site):
    b = F.body(g)
    for i, t in b.calls(r"Result::<.*>::unwrap$"):
        if t.get("ln") == site[0] and re.search(r"MutexGuard|RwLock(Read|Write)Guard|PoisonError", callee_str(t)):
            return True
    return False


def r2_terminal_state(cx):
    F = cx.F
    f = F.fn_named("compression::decode_to_end")
    b = F.body(f)
    err = b.error_blocks()
    stores = [i for i, blk in enumerate(b.blocks) if not blk.get("cleanup") for s in blk["s"]
              if s["k"] == "assign" and "*" in s["lhs"].get("p", []) and b.derives_from_call({"cp": {"l": s["lhs"]["l"]}}, r"MutexGuard<.*> as .*DerefMut>::deref_mut$", through_calls=False)]
    notif = {i for i, t in b.calls(r"Condvar::notify_all$")}
    # error exits: every path entry -> error block must pass a store+notify *after the failing read*: approximate by
    # requiring a notify_all to be reachable on the path from the failing `?` to the return
    bad_err = []
    for e in err:
        r = b.reachable(e)
        if not (notif & r):
            bad_err.append(b.ln(e))
    cx.ob("R2", "R2/error-exit-publishes", not bad_err and bool(err), f,
          "when the decoder fails (`?` exit) readers blocked in wait_while must be woken with a terminal state; error exits that notify nobody at lines %s" % bad_err)
    # an exit that does not depend on producing total_size bytes: a branch on the count returned by read_to_end (== 0)
    rd = b.calls(r"Read>::read_to_end$")
    zero_exit = False
    for s in range(b.n):
        t = b.term(s)
        if t["k"] != "switch" or b.is_cleanup(s):
            continue
        l = op_local(t["op"])
        for d in b.defs().get(l, []) if l is not None else []:
            if d[0] == "stmt" and d[3]["k"] == "assign" and d[3]["rv"]["k"] == "bin" and d[3]["rv"]["op"] in ("Eq", "Ne", "Lt", "Le", "Gt", "Ge"):
                o = b.origins(d[3]["rv"]["a"], through_calls=False) | b.origins(d[3]["rv"]["b"], through_calls=False)
                if rd and ("call", rd[0][0]) in o and not ("field", "total_size") in o and 0 in (op_const_deep(b, d[3]["rv"]["a"]), op_const_deep(b, d[3]["rv"]["b"])):
                    zero_exit = True
    cx.ob("R2", "R2/exit-on-empty-read", zero_exit, f,
          "the loop `while decoded < total_size` must also end when the decoder yields no more bytes (a truncated stream otherwise spins forever / readers never wake)")


def r2b_every_publisher_notifies_on_error(cx):
    """generalisation of R2 to the whole reader: a function that wakes waiters of a Condvar when it succeeds must wake
    them on its error exits too -- a damaged block otherwise leaves the other readers (or the next call) blocked for ever
    instead of getting the error"""
    F = cx.F
    reach, roots = _reader_reach(F)
    n = 0
    for x in sorted(y for y in reach if isinstance(y, int)):
        f = F.fns[x]
        if "blocks" not in f or "creator::" in f["name"] or x in F.absorbed or f["name"].endswith("compression::decode_to_end"):
            continue      # decode_to_end is R2 itself
        b = F.body(f)
        notif = {i for i, t in b.calls(r"Condvar::notify_(all|one)$")}
        if not notif:
            continue
        n += 1
        err = b.error_blocks() | b.err_return_blocks()
        bad = sorted(b.ln(e) for e in err if not (notif & b.reachable(e)))
        cx.ob("R2", "R2/error-exit-publishes@%s" % re.sub(r"\{closure#\d+\}", "{closure}", f["name"]), not bad, f,
              "error exits of a reader function that notifies a Condvar on success must notify too (exits that wake nobody: lines %s)" % bad)
    cx.ob("R2", "R2/publishers-scanned", True, "(reader-reachable functions)", "%d reader-reachable functions besides decode_to_end notify a Condvar" % n, trivial=True)


ACCESS = (r"core::slice::index::<impl .*Index(Mut)?<.*> for \[.*\]>::index(_mut)?$", r"SliceIndex<\[.*\]>>::index(_mut)?$", r"copy_from_slice$", r"slice::from_raw_parts", r"MmapOptions::map$",
          r"Read>::read_to_end$")
LENLIKE = (r"::len$", r"Source>::size$", r"::size$", r"total_size$", r"is_valid$")


def _guards(b, err_only=True):
    """switch blocks whose condition compares something with a length and one arm of which fails (returns Err /
    never reaches the accesses); debug_assert-only guards are excluded"""
    out = []
    for s in range(b.n):
        t = b.term(s)
        if t["k"] != "switch" or b.is_cleanup(s):
            continue
        if any("debug_assert" in m for m in t.get("mac", [])):
            continue
        l = op_local(t["op"])
        is_cmp = False
        for d in b.defs().get(l, []) if l is not None else []:
            if d[0] == "stmt" and d[3]["k"] == "assign":
                if any("debug_assert" in m for m in d[3].get("mac", [])):
                    is_cmp = False
                    break
                rv = d[3]["rv"]
                if rv["k"] == "bin" and rv["op"] in ("Lt", "Le", "Gt", "Ge"):
                    o = b.origins(rv["a"]) | b.origins(rv["b"])
                    if any(x[0] == "call" and call_is(b.term(x[1]), *LENLIKE) for x in o) or ("field", "len") in o:
                        is_cmp = True
                if rv["k"] == "un" and rv["op"] == "Not":
                    o = b.origins(rv["a"])
                    if any(x[0] == "call" and call_is(b.term(x[1]), r"is_valid$", r"PartialOrd.*>::(le|lt|ge|gt)$") for x in o):
                        is_cmp = True
            if d[0] == "call" and call_is(d[2], r"is_valid$", r"PartialOrd.*>::(le|lt|ge|gt)$"):
                if any("debug_assert" in m for m in d[2].get("mac", [])):
                    continue
                is_cmp = True
        if not is_cmp:
            # the checked form of a slice access: `data.get(a..b)` answers None when the range is out of bounds, and the
            # branch on that Option is the guard
            for x in b.origins(t["op"], through_calls=False):
                if x[0] == "call" and call_is(b.term(x[1]), r"slice::<impl \[.*\]>::get(_mut)?::<", r"<impl \[.*\]>::get(_mut)?$"):
                    is_cmp = True
        if not is_cmp and op_place(t["op"]) is not None and op_place(t["op"]).get("p"):
            # the verdict of the comparison travels in a tuple: `match (kind, end.is_valid(size)) { (_, false) => Err.. }`
            for x in b.origins(t["op"], through_calls=False):
                if x[0] == "call" and call_is(b.term(x[1]), r"is_valid$", r"PartialOrd.*>::(le|lt|ge|gt)$") and not any("debug_assert" in m for m in b.term(x[1]).get("mac", [])):
                    is_cmp = True
        if is_cmp:
            out.append(s)
    return out


def _cell(cx, rule, key, f, what):
    F = cx.F
    b = F.body(f)
    acc = [(i, t) for i, t in b.calls(*ACCESS)]
    # explicit `assert!`-style bounds (non-debug) also count as access sites to protect? no: they panic. Keep accesses only.
    if not acc:
        cx.ob(rule, key, True, f, "%s: no direct slice/raw/mmap access in this function (delegates to std / a sibling)" % what, trivial=True)
        return
    gs = _guards(b)
    ok = False
    covering = None
    for g in gs:
        t = b.term(g)
        arms = [a for a in dict.fromkeys(t["targets"] + [t["otherwise"]]) if b.term(a)["k"] != "unreachable"]
        if len(arms) != 2:
            continue
        for good in arms:
            bad = [a for a in arms if a != good][0]
            rb = b.reachable(bad, avoid={g})
            # failing arm: returns an Err (or Ok(0)/short read for `read`) without touching the data
            touches = [i for i, _ in acc if i in rb]
            errs = any(st["k"] == "assign" and st["rv"]["k"] == "agg" and st["rv"].get("variant") == "Err" for x in rb for st in b.stmts(x)) or bool(b.error_blocks() & rb) \
                or any(call_is(b.term(x), r"Error::new$|Into<.*Error>>::into$|FormatError::new") for x in rb)
            short_read = what.endswith("::read") and any(st["k"] == "assign" and st["rv"]["k"] == "agg" and st["rv"].get("variant") == "Ok" and op_const_val(st["rv"]["fields"][0]) == 0 for x in rb for st in b.stmts(x))
            if not touches and (errs or short_read) and (all(b.dominates(g, i) for i, _ in acc) or not ({i for i, _ in acc} & b.explore(avoid={g})[0])):
                # (second form: path-sensitive domination -- no feasible path reaches an access without passing the guard,
                #  e.g. when the guard sits in a first stage that returns a strategy the second stage matches on)
                ok = True
                covering = b.ln(g)
    cx.ob(rule, key, ok, f, "%s: every direct access (%s) is dominated by a length comparison whose failing arm returns an error (guard at line %s; candidate guards %s)" % (
        what, sorted({callee_str(t).split("::")[-1] + "@" + str(t.get("ln")) for _, t in acc}), covering, [b.ln(g) for g in gs]))


def r3_bounds_matrix(cx):
    F = cx.F
    impls = [i for i in F.impls_of("Source") if i["trait_def"].endswith("io::Source")]
    for imp in impls:
        who = imp["self"].split("::")[-1]
        for it in imp["items"]:
            if it["name"] in ("read", "read_exact", "get_slice", "cut") and "fn" in it:
                _cell(cx, "R3", "R3/%s::%s" % (who, it["name"]), F.fns[it["fn"]], "%s::%s" % (who, it["name"]))
    for m in ("read_slice", "read_data", "skip"):
        f = F.one(impl_self="parsing::SliceParser", item=m, trait="Parser", closure=False)
        b = F.body(f)
        gs = _guards(b)
        # SliceParser::skip has no access but must still refuse to move past the end
        if m == "skip":
            ok = bool(gs)
            cx.ob("R3", "R3/SliceParser::skip", ok, f, "SliceParser::skip compares the new position with the slice length and returns an error past the end")
        else:
            _cell(cx, "R3", "R3/SliceParser::%s" % m, f, "SliceParser::%s" % m)


def r3b_crc_check_is_panic_free(cx):
    """assert_slice_crc is on the path of every CRC-protected block, including the path taken when damage HAS been
    detected: its slice indexing must be bounded by the length of the very slice it indexes -- the parameter by
    `buf.len()` and the CRC size only, a derived slice by its own `len()`"""
    F = cx.F
    f = F.one(name="bases::block::assert_slice_crc")
    b = F.body(f)
    idx = b.calls(r"slice::index::<impl std::ops::Index(Mut)?<.*> for \[.*\]>::index(_mut)?$|SliceIndex<\[.*\]>>::index(_mut)?$", r"impl \[.*\]>::split_at(_mut)?$")
    if not idx:
        raise AnchorLost("assert_slice_crc: no slice indexing found")
    idx_blocks = {i for i, _ in idx}
    bad = []
    for i, t in idx:
        base = b.origins(t["args"][0])
        parents = [x[1] for x in base if x[0] == "call" and x[1] in idx_blocks and x[1] != i]
        bo = b.origins(t["args"][1])
        calls = [(x[1], b.term(x[1])) for x in bo if x[0] == "call"]
        lens = [(j, ct) for j, ct in calls if call_is(ct, r"\[.*\]>::len$")]
        other = [callee_str(ct).split("::")[-1] for j, ct in calls if not call_is(ct, r"\[.*\]>::len$", r"block::BlockCheck::size$")]
        consts = {x[1] for x in bo if x[0] == "const" and isinstance(x[1], int)}
        if not parents:
            ok = bool(lens) and not other and consts <= {4} and all(not any(y[0] == "call" and y[1] in idx_blocks for y in b.origins(ct["args"][0])) for j, ct in lens)
        else:
            ok = any(any(y == ("call", pidx) for y in b.origins(ct["args"][0])) for j, ct in lens for pidx in parents)
        if not ok:
            bad.append("line %s (bound from %s, constants %s)" % (t.get("ln"), sorted(set(other + ["len"] * bool(lens))), sorted(consts)))
    cx.ob("R3", "R3/assert_slice_crc", not bad, f, "every slice index in assert_slice_crc (%d) is bounded by the length of the slice it indexes: %s" % (len(idx), bad or "ok"))


READER_API = [dict(impl_self="reader::jubako::Container"), dict(impl_self="reader::content_pack::ContentPack"), dict(impl_self="reader::directory_pack::DirectoryPack"),
              dict(impl_self="reader::manifest_pack::ManifestPack"), dict(impl_self="reader::container_pack::ContainerPack"), dict(impl_self="reader::byte_region::ByteRegion"),
              dict(impl_self="reader::byte_slice::ByteSlice"), dict(impl_self="reader::byte_stream::ByteStream"), dict(name="reader::jubako::open_as_container_pack"),
              dict(impl_self="reader::directory_pack::index::Index"), dict(impl_self="reader::directory_pack::builder::AnyBuilder")]


def _reader_reach(F):
    roots = []
    for loc in READER_API:
        roots += [f for f in F.find(closure=False, **loc)]
    return F.reach(roots), roots


def r4_debug_only_guards(cx):
    F = cx.F
    reach, roots = _reader_reach(F)
    cx.ob("R4", "R4/reader-api-roots", len(roots) >= 40, "(reader API)", "%d public reader entry points, %d functions reachable" % (len(roots), len([x for x in reach if isinstance(x, int)])), trivial=True)
    n = 0
    for x in sorted(y for y in reach if isinstance(y, int)):
        f = F.fns[x]
        if "blocks" not in f or "creator::" in f["name"]:
            continue
        if x in F.absorbed:
            continue  # a helper that did not exist at the pinned commit: its statements are accounted for in its callers
        sites = set()
        for blk in f["blocks"]:
            if blk.get("cleanup"):
                continue
            for s in blk["s"]:
                if any("debug_assert" in m for m in s.get("mac", [])):
                    sites.add(s.get("ln"))
            if any("debug_assert" in m for m in blk["t"].get("mac", [])):
                sites.add(blk["t"].get("ln"))
        if sites:
            n += 1
            cx.ob("R4", "R4/%s" % f["name"], False, f,
                  "debug_assert! in a function reachable from the public reader API (lines %s): a panic on damaged input in debug builds and no check at all in release" % sorted(sites))
    cx.ob("R4", "R4/scanned", True, "(reader-reachable functions)", "%d reader-reachable functions carry a debug_assert" % n, trivial=True)


def r5_unchecked_parse(cx):
    F = cx.F
    roots = [F.one(impl_self="PackHeader", item="parse", trait="Parsable", closure=False)]
    reach = [F.fns[x] for x in F.reach(roots) if isinstance(x, int) and "blocks" in F.fns[x]]
    # keep to the parsing closure (the virtual Parser fan-out reaches SliceParser)
    for g in sorted(reach, key=lambda x: x["name"]):
        if not re.search(r"Parsable>::parse|parsing::|SliceParser|pack_kind|vendor_id|FormatError|error::|offset::|size::", g["name"]):
            continue
        sites = _panicky_sites(F, g)
        cx.ob("R5", "R5/%s" % g["name"], not sites, g, "reachable from the CRC-less PackHeader parse (first bytes of any file): no explicit panic / unwrap / expect: %s" % sites)


ARITH_CALL = r"std::ops::(Sub|Add|Mul|SubAssign|AddAssign|MulAssign)(<.*>)?>::|num::<impl [iu](8|16|32|64|128|size)>::(pow|abs|next_multiple_of|div_ceil|ilog|isqrt)"
PARSED = r"Parsable>::parse(::<.*>)?$|Parser.*::read_|parsing::.*read_"


def r5b_crcless_parse_arithmetic(cx):
    """values parsed before any CRC was verified (PackHeader at offset 0 of any file) are raw file bytes: a parse impl of
    that closure does no panicking arithmetic (checked +,-,*,<<,/ or the Size/Offset operators, which are plain +/-) on
    them unless a comparison of the operands dominates it"""
    F = cx.F
    roots = [F.one(impl_self="PackHeader", item="parse", trait="Parsable", closure=False)]
    reach = [F.fns[x] for x in F.reach(roots) if isinstance(x, int) and "blocks" in F.fns[x]]
    n = 0
    for g in sorted(reach, key=lambda x: x["name"]):
        if not re.search(r"Parsable>::parse$", g["name"]):
            continue
        n += 1
        b = F.body(g)
        sites = []
        for i, blk in enumerate(b.blocks):
            if blk.get("cleanup"):
                continue
            cand = []
            for st in blk["s"]:
                if st["k"] == "assign" and st["rv"]["k"] == "bin" and st["rv"]["op"] in ("AddWithOverflow", "SubWithOverflow", "MulWithOverflow", "Add", "Sub", "Mul", "Shl", "Div", "Rem", "ShlUnchecked"):
                    cand.append(([st["rv"]["a"], st["rv"]["b"]], st["rv"]["op"], st.get("ln")))
            t = blk["t"]
            if t["k"] == "call" and re.search(ARITH_CALL, callee_str(t)):
                cand.append((t["args"], callee_str(t).split(">::")[-1], t.get("ln")))
            for ops, what, ln in cand:
                o = set()
                for x in ops:
                    o |= b.origins(x)
                parsed = [x for x in o if x[0] == "call" and re.search(PARSED, callee_str(b.term(x[1])))]
                if not parsed:
                    continue
                guarded = False
                for gd in _guards(b) + [j for j, tt in b.calls(r"PartialOrd.*>::(le|lt|ge|gt)$")]:
                    if gd != i and b.dominates(gd, i):
                        gt = b.term(gd)
                        go = set()
                        if gt["k"] == "switch":
                            go |= b.origins(gt["op"])
                        else:
                            go = b.origins(gt["args"][0]) | b.origins(gt["args"][1])
                        if all({y for y in b.origins(x) if y[0] == "call"} & go for x in ops if {y for y in b.origins(x) if y[0] == "call"}):
                            guarded = True
                if not guarded:
                    sites.append("%s at line %s" % (what, ln))
        cx.ob("R5", "R5/arith/%s" % g["name"], not sites, g,
              "parse reachable from the CRC-less PackHeader parse: no unguarded panicking arithmetic on just-parsed values: %s" % sites)
    if n < 4:
        raise AnchorLost("CRC-less parse closure: only %d Parsable::parse impls found" % n)


R6_FUNCS = [
    dict(name="reader::jubako::open_as_container_pack"),
    dict(impl_self="reader::content_pack::cluster::Cluster", item="finalize", trait="DataBlockParsable"),
    dict(impl_self="reader::directory_pack::entry_store::EntryStore", item="finalize", trait="DataBlockParsable"),
    dict(impl_self="reader::directory_pack::value_store::ValueStore", item="finalize", trait="DataBlockParsable"),
    dict(impl_self="common::headers::pack::PackHeader", item="check_info_size"),
    dict(impl_self="reader::manifest_pack::PackOffsetsIter", item="new"),
]


def r6_size_arithmetic(cx):
    F = cx.F
    for loc in R6_FUNCS:
        f = F.one(closure=False, **loc)
        b = F.body(f)
        subs = [(i, t, None) for i, t in b.calls(r"std::ops::Sub(<.*>)?>::sub$")]
        for i, blk in enumerate(b.blocks):
            if blk.get("cleanup"):
                continue
            for s in blk["s"]:
                if s["k"] == "assign" and s["rv"]["k"] == "bin" and s["rv"]["op"] in ("Sub", "SubWithOverflow") and op_const_deep(b, s["rv"]["a"]) is None:
                    subs.append((i, None, s))
        gs = _guards(b)
        cmps = [i for i, t in b.calls(r"PartialOrd.*>::(le|lt|ge|gt)$")]
        short = ((f.get("impl_self") or "").split("::")[-1] + "::" if f.get("impl_self") else "") + (f.get("item_name") or f["name"].split("::")[-1])
        if not subs:
            cx.ob("R6", "R6/%s" % short, True, f, "no subtraction on file-derived sizes left in this function", trivial=True)
            continue
        for k, (i, t, s) in enumerate(sorted(subs, key=lambda x: (x[1] or x[2]).get("ln", 0))):
            guarded = False
            for g in gs + [c for c in cmps]:
                if b.dominates(g, i) and g != i:
                    # the guard must involve an operand of the subtraction
                    ops = t["args"] if t else [s["rv"]["a"], s["rv"]["b"]]
                    so = set()
                    for o in ops:
                        so |= _sig(b, o)
                    gt = b.term(g)
                    go = set()
                    if gt["k"] == "switch":
                        for j, ct in b.origin_calls(gt["op"], through_calls=False):
                            for a in ct["args"]:
                                go |= _sig(b, a)
                        go |= _sig(b, gt["op"])
                    else:
                        go = _sig(b, gt["args"][0]) | _sig(b, gt["args"][1])
                    # both operands of the subtraction must appear in the comparison (an operand that is a pure
                    # constant -- literal or named -- must be the constant the other one is compared with)
                    gc = set()
                    if gt["k"] == "switch":
                        for j, ct in b.origin_calls(gt["op"], through_calls=False):
                            for a in ct["args"]:
                                gc |= {x for x in b.origins(a) if x[0] == "const"}
                        gc |= {x for x in b.origins(gt["op"]) if x[0] == "const"}
                    else:
                        gc = {x for a in gt["args"][:2] for x in b.origins(a) if x[0] == "const"}

                    def covered(o):
                        sg = _sig(b, o)
                        if sg:
                            return bool(sg & go)
                        # (a `&CONST` operand of a comparison is a promoted constant, which has no comparable identity:
                        # any constant on the guard's side is accepted -- the value of the bound is not decided here)
                        return bool(gc)
                    if all(covered(o) for o in ops):
                        guarded = True
            ln = (t or s).get("ln")
            ops = t["args"] if t else [s["rv"]["a"], s["rv"]["b"]]
            raw_len = any(x[0] == "call" and call_is(b.term(x[1]), r"bases::reader::Reader::size$") for o in ops for x in b.origins(o))
            if raw_len:
                cx.ob("R6", "R6/%s#%d" % (short, k), guarded, f,
                      "subtraction involving the real file length at line %s must be dominated by a comparison of its operands (debug: overflow panic; release: wrapped offset)" % ln, ln=ln)
            else:
                cx.ob("R6", "R6/%s#%d" % (short, k), guarded, f,
                      "informational: unguarded subtraction at line %s whose operands all come from CRC-verified blocks (header/tail fields): only a re-checksummed file reaches it, which the property excludes" % ln, ln=ln, info=True)


SWALLOW = r"std::result::Result::<.*>::(ok|unwrap_or|unwrap_or_default|unwrap_or_else|is_ok|is_err|err|map_or|map_or_else|iter|iter_mut)$|<std::result::Result<.*> as std::iter::IntoIterator>::into_iter$|Iterator>::(flat_map|flatten)::<std::result::Result<|Iterator>::flat_map::<std::result::Result<"


def r7_errors_not_swallowed(cx):
    """a jubako error (damage detected) must reach the caller: the reader never turns a Result<_, Error>
    into an Option / default (which later code would unwrap or misread as 'missing')"""
    F = cx.F
    control = 0
    n = 0
    for f in F.live_fns:
        if "blocks" not in f or "creator::" in f["name"] or f["name"].startswith("cmd_utils") or "explorable" in f["name"]:
            continue
        for blk in f["blocks"]:
            t = blk["t"]
            if blk.get("cleanup") or not call_is(t, SWALLOW):
                continue
            control += 1
            nm = callee_str(t)
            # (`iter.flat_map(|x| -> Result<..>)` / `.flatten()` over Results iterate the Ok values and drop the Err ones)
            if re.search(r"bases::types::error::Error>::|std::io::Error>::|bases::types::error::Error> as std::iter::IntoIterator|std::io::Error> as std::iter::IntoIterator|flat_map::<std::result::Result<[^{]*(bases::types::error::Error|std::io::Error)>", nm):
                n += 1
                cx.ob("R7", "R7/%s@%s" % (f["name"], nm.split("::")[-1]), False, f,
                      "an error value is discarded by %s: damage reported by a lower layer becomes None/default instead of an Err" % nm, ln=t.get("ln"))
    # the same by hand: `match call() { Ok(v) => .., Err(_) => <go on> }` -- the Err arm of a Result<_, Error> returned by
    # a call reaches a normal return (or the call again) without building an Err value on the way
    m = 0
    for f in F.live_fns:
        if "blocks" not in f or "creator::" in f["name"] or f["name"].startswith("cmd_utils") or "explorable" in f["name"]:
            continue
        b = None
        for i, blk in enumerate(f["blocks"]):
            t = blk["t"]
            if blk.get("cleanup") or t["k"] != "call":
                continue
            ty = (t["func"].get("c") or {}).get("ty", "")
            if not re.search(r"-> std::result::Result<.*(bases::types::error::Error|std::io::Error)>( \{|$)", ty):
                continue
            m += 1
            b = b or F.body(f)
            errs = {x for x in range(b.n) if any(st["k"] == "assign" and st["rv"]["k"] == "agg" and st["rv"].get("variant") == "Err" for st in b.stmts(x))}
            lines = error_arms_that_go_on(b, i, errs)
            if not lines:
                continue
            nm = re.sub(r"<.*?>", "", F.effective_owner(f)["name"]).split("::")[-1]
            if nm in R10_EXEMPT:
                continue
            n += 1
            cx.ob("R7", "R7/%s@match-%s" % (f["name"], re.sub(r"<.*?>", "", callee_str(t)).split("::")[-1]), False, f,
                  "the Err arm of the match on %s (lines %s) goes on to a normal return: the error becomes None/a default instead of an Err" % (callee_str(t).split("::<")[0], lines), ln=t.get("ln"))
    if m < 500:
        raise AnchorLost("fallible calls in the reader: %d" % m)
    cx.ob("R7", "R7/no-swallowed-error", n == 0, "(reader code)", "no Result<_, jubako::Error | io::Error> is converted with ok()/unwrap_or*/is_ok()/err() outside the creator (%d offending sites)" % n)
    cx.ob("R7", "R7/positive-control", control >= 1, "(control)", "the matcher does fire on Result::ok()-style calls (%d sites with other error types)" % control, trivial=True)
    # the directory pack located at open time: an absent pack must not be unwrapped into a panic silently —
    # informational (a missing directory pack is not 'damage')


def _sig(b, op):
    """site-independent description of where an operand comes from: callee names with the roots of their
    arguments, fields, parameters, integer constants"""
    out = set()
    for x in b.origins(op, through_calls=False):
        if x[0] == "call":
            t = b.term(x[1])
            roots = frozenset(y for a in t["args"] for y in b.origins(a) if y[0] in ("param", "field") or (y[0] == "const" and isinstance(y[1], int)))
            out.add(("call", re.sub(r"::<.*", "", callee_str(t)), roots))
        elif x[0] in ("param", "field"):
            out.add(x)
    return out


def r8_no_recursion_on_file_contents(cx):
    """'never crash': the reader walks a file whose bytes it does not control; a function that calls itself (directly or
    through a cycle of statically resolved calls) recurses as deep as the file tells it to -- a damaged header whose
    mirror at the end is intact sends `open(file)` to `open(the same region)` until the stack overflows (SIGABRT, not an
    error). The crate has no such cycle; any that appears in code reachable by the reader is reported."""
    F = cx.F
    import inline
    g = {}
    for f in F.live_fns:
        if "blocks" not in f:
            continue
        outs = set()
        for blk in f["blocks"]:
            t = blk["t"]
            if t["k"] == "call" and not blk.get("cleanup"):
                c = inline._callee_fn(t)
                if c is not None:
                    outs.add(c)
        g[f["id"]] = outs
    # strongly connected components (iterative Tarjan)
    index, low, on, stack, comps = {}, {}, set(), [], []
    counter = [0]
    for root in g:
        if root in index:
            continue
        work = [(root, iter(g.get(root, ())))]
        index[root] = low[root] = counter[0]; counter[0] += 1
        stack.append(root); on.add(root)
        while work:
            v, it = work[-1]
            adv = False
            for w in it:
                if w not in g:
                    continue
                if w not in index:
                    index[w] = low[w] = counter[0]; counter[0] += 1
                    stack.append(w); on.add(w)
                    work.append((w, iter(g.get(w, ()))))
                    adv = True
                    break
                elif w in on:
                    low[v] = min(low[v], index[w])
            if adv:
                continue
            work.pop()
            if work:
                low[work[-1][0]] = min(low[work[-1][0]], low[v])
            if low[v] == index[v]:
                comp = []
                while True:
                    w = stack.pop(); on.discard(w); comp.append(w)
                    if w == v:
                        break
                if len(comp) > 1 or v in g.get(v, ()):
                    comps.append(comp)
    bad = [c for c in comps if any(re.search(r"^<?(reader|bases|common|tools)::| as (reader|bases|common)::", F.fns[x]["name"]) for x in c)]
    for c in bad:
        f = F.fns[sorted(c)[0]]
        cx.ob("R8", "R8/recursion@%s" % re.sub(r"<.*?>", "", f["name"]).split("::")[-1], False, f,
              "statically resolved call cycle in code that reads files: %s" % " -> ".join(F.fns[x]["name"] for x in c))
    cx.ob("R8", "R8/no-recursion-in-the-reader", not bad, "(call graph)", "%d functions, %d statically resolved call cycles, none through reader / bases / common code" % (len(g), len(comps)))


def r9_checked_cuts_verify_on_every_path(cx):
    """a pack header is parsed twice by the blind open: unchecked (to report a version change), then checked. What the
    checked parse receives has gone through the CRC on every path of `Source::cut` under `block_check = Crc32` (= C05-R2 under
    C06): a buffer kept from the unchecked cut and handed back for the checked one lets a damaged size or position through,
    and the arithmetic behind it is guarded for verified values only (debug builds panic in `Region::cut_rel`)."""
    import c05
    orig = cx.ob

    def ob(rule, key, *a, **kw):
        return orig("R9", key.replace("R2/", "R9/", 1), *a, **kw)
    cx.ob = ob
    try:
        c05.r2_source_matrix(cx)
    finally:
        cx.ob = orig


R10_EXEMPT = {
    "open_as_container_pack": "the blind open: a header that does not parse at offset 0 sends it to the mirrored header at the end of the file (C10-R3); every other error is returned",
}


def error_arms_that_go_on(b, i, more_exits=()):
    """lines of the switches on the Result returned by the call ending block `i` whose Err arm can come back to the call
    or reach a normal return without passing an error exit (through `?` the switch is on Try::branch: not counted)"""
    handled = []
    for sw in range(b.n):
        st = b.term(sw)
        if st["k"] != "switch" or b.is_cleanup(sw):
            continue
        o = b.origins(st["op"], through_calls=False)
        if ("call", i) not in o:
            continue       # through `?` the switch is on the result of Try::branch, not on the call itself
        exits = b.error_blocks() | b.err_return_blocks() | b.panic_blocks() | set(more_exits)
        # an arm that can come back to this very call, or reach a normal return, without passing an error exit
        err_arm = st["targets"][st["vals"].index(1)] if 1 in st["vals"] else st["otherwise"]
        r = b.reachable(err_arm, avoid=exits | {sw})
        goes_on = (i in r) or any(b.term(x)["k"] == "return" for x in r)
        if goes_on:
            handled.append(b.ln(sw))
    return handled


def r10_block_errors_end_the_operation(cx):
    """a block that fails its CRC (or does not parse) is reported: in the reader, the error of `parse_block_at /
    parse_block_in / parse_data_block / parse_in` ends the operation it belongs to. Where the result is handled by hand
    instead of `?`, the error arm leads to an error exit -- it does not go on (to the next iteration, to a default): a loop
    that "skips" an unreadable block either never advances (it spins on the same bytes forever) or drops what the block
    described."""
    F = cx.F
    n = 0
    for f in F.live_fns:
        if "blocks" not in f or not re.search(r"^<?reader::| as reader::", f["name"]):
            continue
        b = None
        for i, blk in enumerate(f["blocks"]):
            t = blk["t"]
            if blk.get("cleanup") or not call_is(t, r"Reader::parse_block_at::<", r"Reader::parse_block_in::<", r"Reader::parse_data_block::<", r"CheckReader::parse_in::<"):
                continue
            b = b or F.body(f)
            n += 1
            nm = re.sub(r"<.*?>", "", F.effective_owner(f)["name"]).split("::")[-1]
            handled = error_arms_that_go_on(b, i)
            if nm in R10_EXEMPT:
                cx.ob("R10", "R10/%s/exempt" % nm, True, f, "error of the parse at line %s handled on purpose: %s" % (t.get("ln"), R10_EXEMPT[nm]), ln=t.get("ln"), trivial=True)
                continue
            cx.ob("R10", "R10/%s/block-error-ends-the-operation" % nm, not handled, f,
                  "the error of the block parse at line %s is propagated (`?`) or leads to an error exit (error arms that go on: lines %s)" % (t.get("ln"), handled), ln=t.get("ln"))
    if n < 15:
        raise AnchorLost("block parses in the reader: %d" % n)


def r11_the_reader_starts_no_thread_of_its_own(cx):
    """'never crash': the only concurrency the reader creates is the background decoder of a compressed cluster, whose
    failure modes are accounted for (R1/R2). Opening and checking packs run in the calling thread: a failure there is a
    `Result`. A worker thread started by reader code brings its own ways to die (a `send` on a channel whose receiver
    left at the first bad verdict, a `join`), and a panic in it is re-raised in the caller."""
    F = cx.F
    sites = []
    n = 0
    for f in F.live_fns:
        if "blocks" not in f or not re.search(r"^<?reader::| as reader::", f["name"]):
            continue
        n += 1
        for blk in f["blocks"]:
            t = blk["t"]
            if not blk.get("cleanup") and call_is(t, r"^std::thread::(scope|spawn)(::<.*>)?$", r"thread::Builder::spawn", r"thread::Scope::<.*>::spawn", r"^rayon::(spawn|scope|join)", r"rayon_core::"):
                sites.append((f, t.get("ln"), callee_str(t).split("::<")[0]))
    for f, ln, what in sites:
        cx.ob("R11", "R11/%s/starts-a-thread" % re.sub(r"<.*?>", "", f["name"]).split("::")[-1], False, f, "reader code starts a thread (%s) at line %s" % (what, ln), ln=ln)
    cx.ob("R11", "R11/reader-runs-in-the-calling-thread", not sites and n > 100, "(reader)", "%d reader functions, none starts a thread" % n)


def r12_errors_are_not_unwrapped(cx):
    """'returns a value or an error, never crashes': what the reader's own fallible calls report about damage (a jubako
    `Error`, an `io::Error`) is a value for the caller. `unwrap()` / `expect()` on such a Result turns the detection of
    damage into a panic. The only accepted sites read an integer from an in-memory slice that was cut to the integer's
    size just before (`read_usized` / `read_isized` on a SliceParser): the read cannot be short."""
    F = cx.F
    n = 0
    ok_sites = 0
    bad = []
    for f in F.live_fns:
        if "blocks" not in f or "creator::" in f["name"] or f["name"].startswith(("cmd_utils", "bases::write")) or "explorable" in f["name"]:
            continue
        if re.search(r"SeekableDecoder::new::\{closure", f["name"]):
            continue       # the pool task: R1
        if re.search(r" as graphex::|_serde::Serialize>::|_serde::Deserialize", f["name"]):
            continue       # the `explorable` feature (dump / explore tooling of the jbk binary), like the other rules
        b = None
        for i, blk in enumerate(f["blocks"]):
            t = blk["t"]
            if blk.get("cleanup") or not call_is(t, r"std::result::Result::<.*(bases::types::error::Error|std::io::Error)>::(unwrap|expect|unwrap_unchecked)$"):
                continue
            n += 1
            b = b or F.body(f)
            oc = b.origin_calls(t["args"][0], through_calls=False)
            if oc and all(call_is(ct, r"Parser>::read_(usized|isized)$", r"SliceParser.*::read_(usized|isized)$") for _, ct in oc):
                ok_sites += 1
                continue
            bad.append((f, t.get("ln"), [callee_str(ct).split("::<")[0] for _, ct in oc]))
    for f, ln, what in bad:
        cx.ob("R12", "R12/%s/unwrapped-error" % re.sub(r"::\{closure#\d+\}", "", re.sub(r"<.*?>", "", f["name"])).split("::")[-1], False, f,
              "the Result of %s is unwrapped at line %s: an error about the file becomes a panic" % (what or "a fallible call", ln), ln=ln)
    if ok_sites < 4:
        raise AnchorLost("right-sized integer reads that are unwrapped: %d" % ok_sites)
    cx.ob("R12", "R12/no-error-is-unwrapped", not bad, "(reader)", "%d unwrap/expect of Result<_, Error | io::Error> in reader code, all on right-sized in-memory integer reads" % n)


def r13_reporting_damage_cannot_panic(cx):
    """'returns a value or an error': when a CRC does not match, the bytes of the block travel in the error value
    (`CorruptedFile { buf, found_checksum }` -> `Error`). The code that builds, converts and formats these errors handles
    buffers of *any* length -- blocks of a few bytes exist in every container -- so it performs no operation that panics on
    a bound: no `drain` / `split_off` / `remove` / `split_at` / `copy_from_slice` / range indexing, no checked subtraction
    on a length (`assert_slice_crc` itself is the R3 cell above)."""
    F = cx.F
    fs = [f for f in F.live_fns if "blocks" in f and re.search(r"bases::types::error::", f["name"]) and not re.search(r"as std::fmt::(Debug|Display)>::fmt$", f["name"])]
    if len(fs) < 5:
        raise AnchorLost("functions of bases::types::error: %d" % len(fs))
    bad = []
    for f in fs:
        b = F.body(f)
        for i, t in b.calls(r"Vec::<.*>::(drain|split_off|remove|swap_remove|insert|truncate)(::<.*>)?$", r"impl \[.*\]>::(split_at|split_at_mut|copy_from_slice|copy_within|swap)$",
                            r"ops::Index(Mut)?<std::ops::Range(From|To|Inclusive|ToInclusive)?<usize>>>::index(_mut)?$", r"SliceIndex<\[.*\]>>::index(_mut)?$", r"VecDeque::<.*>::(drain|split_off)"):
            if not b.is_cleanup(i):
                bad.append("%s:%s %s" % (re.sub(r"<.*?>", "", f["name"]).split("::")[-1], t.get("ln"), callee_str(t).split("::<")[0].split("::")[-1]))
        for i in range(b.n):
            t = b.term(i)
            if t["k"] == "assert" and not b.is_cleanup(i) and re.search(r"Overflow|BoundsCheck|DivisionByZero", str(t.get("kind", t.get("msg", "")))):
                if not any("debug_assert" in str(x) for x in (t.get("mb") or [])):
                    bad.append("%s:%s checked arithmetic / bounds check" % (re.sub(r"<.*?>", "", f["name"]).split("::")[-1], t.get("ln")))
    cx.ob("R13", "R13/error-construction/no-panic-on-a-bound", not bad, "src/bases/types/error.rs", "%d functions build and convert the errors of the library; none slices, drains or subtracts on a length (%s)" % (len(fs), bad or "none"))


RULES = [
    ("R13", r13_reporting_damage_cannot_panic, 1),
    ("R12", r12_errors_are_not_unwrapped, 1),
    ("R11", r11_the_reader_starts_no_thread_of_its_own, 1),
    ("R10", r10_block_errors_end_the_operation, 15),
    ("R9", r9_checked_cuts_verify_on_every_path, 1),
    ("R8", r8_no_recursion_on_file_contents, 1),
    ("R1", r1_pool_task, 2),
    ("R2", r2_terminal_state, 2),
    ("R2", r2b_every_publisher_notifies_on_error, 1),
    ("R3", r3_bounds_matrix, 15),
    ("R3", r3b_crc_check_is_panic_free, 1),
    ("R4", r4_debug_only_guards, 6),
    ("R5", r5b_crcless_parse_arithmetic, 4),
    ("R5", r5_unchecked_parse, 7),
    ("R6", r6_size_arithmetic, 2),
    ("R7", r7_errors_not_swallowed, 2),
]
