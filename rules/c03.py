"""C03 — sorted stores follow the reader's order; lookup finds exactly what was written.
Structural clauses only (which comparison is made first, in which direction, what happens on each of the three
answers): the agreement of the two orders on every key set is not decided."""
import re
from lib import *

PROPERTY = "C03"
EXPLANATION = ("Decided from MIR, for the code that orders and searches entries -- every value involved is touched only through "
               "three-way comparisons, so each clause is a statement about a finite table of answers: (R1) EntryStore::finalize sorts with "
               "FullEntryTrait::compare on schema.sort_keys, receiver = first element / argument = second, and no path reaches "
               "Schema::process or the return after a sort unless a `windows(2).all(|w| w[0].compare(keys, w[1]).is_le())` check answered "
               "true (explored by constant propagation with the check assumed false); nothing reverses the entries afterwards; (R2) the "
               "four writer-side array comparisons compare (inline prefix, value id, length) in that order, self against other on the same "
               "field, and an answer Less / Greater of a step is the answer of the function (explored under each assumption); (R3) every "
               "comparison inside creator Value::partial_cmp has its receiver read from self and its argument from other; (R4) "
               "FullEntryTrait::compare walks the sort keys front to back, compares self.value(key) with other.value(key), and returns "
               "Less (Greater) when the first deciding key answers Less (Greater); (R5) RangeTrait::find: in the ordered mode Less moves "
               "the left bound beyond the probe, Greater moves the right bound to it, Equal returns it; in the linear mode every index of "
               "the window is compared and the first equal one returned; both modes compare the entry at offset() + i and answer i; (R6) "
               "the reader compares the stored value (receiver) with the probe (argument) in PropertyCompare::compare_entry and "
               "RawValue::partial_cmp, returns the first non-equal answer unchanged, and reader Array::cmp answers Greater when the probe "
               "is exhausted first, Less when the stored bytes are, Equal when both are; (R7) value ids are assigned in the byte order of "
               "the values, by a sort whose key is the whole value (= C15-R4); (R8) every reordering of the entries is followed by a "
               "re-indexing, and in particular between each sort and the check that follows it (= C15-R1); (R9) no deferred word (an index "
               "offset bound to an entry) is evaluated before the stores are sorted (= C15-R11); (R10) the reader clamps the inline part of a "
               "stored key before narrowing its length (= C02-R14); (R11) Schema::new keeps the list of sort keys as declared; (R12) the creator cuts an array value at one point, "
               "min(inline length of the column, length of the value): first half inline, second half to the value store, the length recorded is "
               "that of the whole value. NOT decided: that the writer's (prefix, value id, length) order and the reader's byte-wise order "
               "agree for every key set, nor the result of a search on any store.")
ASSUMPTIONS = ["rustc MIR construction and trait resolution", "slice / integer Ord::cmp as documented", "rayon par_sort_* sort by the comparator they are given"]

LESS, EQUAL, GREATER = 255, 0, 1
ORD = {LESS: "Less", EQUAL: "Equal", GREATER: "Greater"}
CMP_CALL = (r"cmp::Ord>::cmp$", r"impl std::cmp::Ord for [\w\[\]]+>::cmp$", r"cmp::PartialOrd(<.*>)?>::partial_cmp$",
            r"directory_pack::value::\w+(::<.*>)?::cmp\w*(::<.*>)?$")


def _ret_values(b, reach):
    """what `_0` is given in the blocks of `reach`: variant names, ('call', bb) for the result of a call, 'computed'"""
    out = set()
    for i in sorted(reach):
        if b.is_cleanup(i):
            continue
        for st in b.blocks[i]["s"]:
            if st["k"] == "assign" and st["lhs"]["l"] == 0 and not st["lhs"].get("p"):
                rv = st["rv"]
                if rv["k"] == "agg" and rv.get("variant"):
                    if rv.get("variant") in ("Some", "Ok") and rv["fields"]:
                        for o in b.origins(rv["fields"][0], through_calls=False, blocks=set(reach)):
                            if o[0] == "variant":
                                out.add(o[1].split("::")[-1])
                            elif o[0] == "call":
                                out.add(("call", o[1]))
                    else:
                        out.add(rv["variant"])
                elif rv["k"] == "use":
                    for o in b.origins(rv["op"], through_calls=False, blocks=set(reach)):
                        if o[0] == "variant":
                            out.add(o[1].split("::")[-1])
                        elif o[0] == "call":
                            out.add(("call", o[1]))
                        elif o[0] == "const":
                            out.add("const:%s" % (o[1],))
                else:
                    out.add("computed")
        t = b.term(i)
        if t["k"] == "call" and t["dest"]["l"] == 0 and not t["dest"].get("p"):
            out.add(("call", i))
    return out


def _side(b, op, fields=True):
    """(set of parameters an operand derives from, set of field names read on the way)"""
    o = b.origins(op)
    fields = {x[1] for x in o if x[0] == "field"}
    # fields an accessor called on the way reads inside the callee (`value_id.get()` reads the store): not fields of the operand
    acc = set()
    for x in o:
        if x[0] == "call":
            acc |= set(b.F.ret_fields(b.term(x[1])))
    return {x[1] for x in o if x[0] == "param"}, (fields - acc) or fields


def chain(b, a_param=1, b_param=2):
    """the three-way comparisons of a body in dominance order: [(block, fields read on the receiver side, fields read on
    the argument side, receiver params, argument params)]"""
    cs = [(i, t) for i, t in b.calls(*CMP_CALL) if not b.is_cleanup(i)]
    cs.sort(key=lambda x: sum(1 for j, _ in cs if b.dominates(j, x[0])))
    out = []
    for i, t in cs:
        pa, fa = _side(b, t["args"][0])
        pb, fb = _side(b, t["args"][1])
        out.append((i, fa, fb, pa, pb))
    return out


def decisive(b, steps, k):
    """under `steps[:k]` answering Equal and `steps[k]` answering v (Less, Greater): the values the function can return"""
    res = {}
    for v in (LESS, GREATER):
        ac = {steps[j][0]: ("agg", EQUAL, ()) for j in range(k)}
        ac[steps[k][0]] = ("agg", v, ())
        r, _ = b.explore(assume_calls=ac, avoid=b.panic_blocks())
        later = {steps[j][0] for j in range(k + 1, len(steps))}
        vals = _ret_values(b, r)
        res[v] = (vals, bool(later & r))
    return res


def r2_writer_array_order(cx):
    """the creator orders arrays by (inline prefix bytes, value id, length): value ids are assigned in the byte order of
    the parts kept in the value store (R7), so this is the byte order of the whole arrays -- provided the three steps are
    taken in that order, each compares the same field of self and other, and the first step that is not Equal decides
    with its own sign. Four sibling functions (Array / ArrayS against each other) must all do so."""
    F = cx.F
    fs = [f for f in F.live_fns if "blocks" in f and re.search(r"creator::directory_pack::value::Array(S::<N>)?::cmp(_array|_array_s)?$", f["name"])]
    if len(fs) < 2:
        raise AnchorLost("writer-side array comparisons: %d found" % len(fs))
    want = ["bytes", "value id", "length"]

    def kind(t):
        c = callee_str(t)
        if re.search(r"<(\[u8\]|std::boxed::Box<\[u8\]>|\[u8; \w+\]|&\[u8\]) as std::cmp::Ord>::cmp$|impl std::cmp::Ord for \[u8\]>::cmp$", c):
            return "bytes"
        if re.search(r"ValueIdx as std::cmp::Ord>::cmp$", c):
            return "value id"
        if re.search(r"impl std::cmp::Ord for usize>::cmp$", c):
            return "length"
        return "?"
    for f in fs:
        b = F.body(f)
        steps = chain(b)
        nm = re.sub(r"<.*?>", "", f["name"]).split("value::")[-1]
        seq = [kind(b.term(i)) for i, _, _, _, _ in steps]
        noise = {"0", "1", "pointer"}      # Box / Unique internals met when a boxed slice is dereferenced
        same = all(pa == {1} and pb == {2} and (fa - noise) == (fb - noise) and (fa - noise) for i, fa, fb, pa, pb in steps)
        cx.ob("R2", "R2/%s/order" % nm, seq == want, f, "compares %s in this order (wanted %s)" % (seq, want))
        cx.ob("R2", "R2/%s/same-field-self-vs-other" % nm, same, f, "every step compares a field of self (receiver) with the same field of other (argument): %s" % [(sorted(fa), sorted(fb)) for _, fa, fb, _, _ in steps])
        if seq != want:
            continue
        bad = []
        for k in range(len(steps)):
            d = decisive(b, steps, k)
            for v in (LESS, GREATER):
                vals, goes_on = d[v]
                okv = vals and all(x == ORD[v] or x == ("call", steps[k][0]) for x in vals) and not goes_on
                if not okv:
                    bad.append("%s=%s -> returns %s%s" % (want[k], ORD[v], sorted(map(str, vals)), ", and still compares further" if goes_on else ""))
        cx.ob("R2", "R2/%s/first-difference-decides" % nm, not bad, f, "when a step answers Less / Greater (the earlier ones Equal) that is the answer of the function%s" % ("" if not bad else ": " + "; ".join(bad)))


def _direction(cx, rule, key, f, b, min_calls, what):
    cs = [(i, t) for i, t in b.calls(*CMP_CALL) if not b.is_cleanup(i)]
    bad = []
    for i, t in cs:
        pa, _ = _side(b, t["args"][0])
        pb, _ = _side(b, t["args"][1])
        if not (1 in pa and 2 not in pa and 2 in pb and 1 not in pb):
            bad.append(t.get("ln"))
    if len(cs) < min_calls:
        raise AnchorLost("%s: %d comparisons (expected at least %d)" % (f["name"], len(cs), min_calls))
    rev = [t.get("ln") for i, t in b.calls(r"cmp::Ordering::reverse$", r"cmp::Reverse") if not b.is_cleanup(i)]
    cx.ob(rule, key, not bad and not rev, f, "%s: %d comparisons, each with its receiver read from the first operand and its argument from the second (swapped at lines %s; reversed at %s)" % (what, len(cs), bad or "none", rev or "none"))


def r3_writer_value_direction(cx):
    """creator Value::partial_cmp(self, other) dispatches on the two variants; whatever the pair, the comparison made is
    `self-side . cmp (other-side)`: one swapped arm sorts the entries of that pair of kinds backwards"""
    F = cx.F
    f = F.one(regex=r"creator::directory_pack::value::Value as std::cmp::PartialOrd>::partial_cmp$")
    _direction(cx, "R3", "R3/Value.partial_cmp/self-vs-other", f, F.body(f), 9, "creator Value::partial_cmp")


def _upvar(cb, op, depth=0):
    """index of the captured variable a closure-body operand is read from (through copies, borrows and derefs), or None"""
    pl = op_place(op)
    if pl is None or depth > 8:
        return None
    if pl["l"] == 1:
        fs = [e["f"] for e in pl.get("p", []) if isinstance(e, dict) and "f" in e]
        return fs[0] if fs else None
    ds = cb.defs().get(pl["l"], [])
    if len(ds) != 1:
        return None
    d = ds[0]
    if d[0] == "call":
        return _upvar(cb, d[2]["args"][0], depth + 1) if d[2]["args"] else None
    rv = d[3]["rv"] if d[3]["k"] == "assign" else None
    if rv is None:
        return None
    if rv["k"] in ("use", "cast"):
        return _upvar(cb, rv["op"], depth + 1)
    if rv["k"] == "ref":
        return _upvar(cb, {"cp": rv["pl"]}, depth + 1)
    return None


def _r4_search_form(cx, f, b):
    """the same comparison written as a search: keys.map(|k| self.value(k).partial_cmp(&other.value(k)) ..).find(is_ne).unwrap_or(Equal)"""
    F = cx.F
    mp = b.calls(r"Iterator>::map::<")[0]
    fd = b.calls(r"Iterator>::(find|find_map)::<")[0]

    def closure_of(op):
        l = op_base_local(op)
        for d in b.defs().get(l, []) if l is not None else []:
            if d[0] == "stmt" and d[3]["k"] == "assign" and d[3]["rv"].get("closure_fn") is not None:
                return d[3]["rv"], F.fns[d[3]["rv"]["closure_fn"]]
        return None, None
    agg, c = closure_of(mp[1]["args"][1])
    _, pc = closure_of(fd[1]["args"][1])
    if c is None or "blocks" not in c:
        raise AnchorLost("FullEntryTrait::compare (search form): the closure given to map")
    cb = F.body(c)
    cmps = [(i, t) for i, t in cb.calls(*CMP_CALL) if not cb.is_cleanup(i)]
    if len(cmps) != 1:
        raise AnchorLost("FullEntryTrait::compare (search form): %d comparisons in the mapped closure" % len(cmps))
    ci, ct = cmps[0]

    def side(op):
        ups = set()
        for x in cb.origins(op):
            if x[0] == "call" and call_is(cb.term(x[1]), r"EntryTrait(<.*>)?>::value$|EntryTrait::value$"):
                u = _upvar(cb, cb.term(x[1])["args"][0])
                if u is not None and u < len(agg["fields"]):
                    ups |= {y[1] for y in b.origins(agg["fields"][u]) if y[0] == "param"}
        return ups
    ra, rb_ = side(ct["args"][0]), side(ct["args"][1])
    cx.ob("R4", "R4/compare/self-vs-other", ra == {1} and rb_ == {3}, f, "the value of self is the receiver and the value of other the argument of the comparison (receiver from parameters %s, argument from %s)" % (sorted(ra), sorted(rb_)), ln=ct.get("ln"))
    back = [callee_str(t).split("::<")[0] for i, t in b.calls(r"Iterator>::rev$|DoubleEndedIterator>::(next_back|rfold|rfind|nth_back)|cmp::Ordering::reverse$|Iterator>::(skip|step_by|take)$") if not b.is_cleanup(i)]
    chained = ("call", mp[0]) in b.origins(fd[1]["args"][0]) and any(x[0] == "param" and x[1] == 2 for x in b.origins(mp[1]["args"][0]))
    cx.ob("R4", "R4/compare/keys-front-to-back", not back and chained, f, "the sort keys are mapped to their comparison front to back and searched for the first that decides (%s)" % (back or "no rev / skip / take / reverse"))
    revc = [1 for i, t in cb.calls(r"Ordering::reverse$|cmp::Reverse") if not cb.is_cleanup(i)]
    from_cmp = ("call", ci) in cb.origins(0)
    pred = [callee_str(t).split("::")[-1] for i, t in (F.body(pc).calls(r"cmp::Ordering::is_(eq|ne|lt|gt|le|ge)$") if pc is not None and "blocks" in pc else [])]
    cx.ob("R4", "R4/compare/sign-kept", from_cmp and not revc and pred == ["is_ne"], f, "the mapped closure answers with the comparison itself and the search stops at the first answer that is not Equal (predicate: %s)" % (pred or "?"))


def r4_entry_compare(cx):
    """FullEntryTrait::compare(self, keys, other): keys front to back; self.value(k) against other.value(k); the first key
    that does not answer Equal decides, with its own sign (ties: C02-R13)"""
    F = cx.F
    fs = [f for f in F.live_fns if re.search(r"creator::directory_pack::FullEntryTrait::compare$", f["name"]) and "blocks" in f]
    if len(fs) != 1:
        raise AnchorLost("FullEntryTrait::compare: %d bodies" % len(fs))
    f = fs[0]
    b = F.body(f)
    cs = [(i, t) for i, t in b.calls(*CMP_CALL) if not b.is_cleanup(i)]
    vals = b.calls(r"EntryTrait::value$|EntryTrait<.*>>::value$")
    if not cs and b.calls(r"Iterator>::map::<") and b.calls(r"Iterator>::(find|find_map)::<"):
        return _r4_search_form(cx, f, b)
    if not cs or len(vals) < 2:
        raise AnchorLost("FullEntryTrait::compare: %d comparisons, %d value() calls" % (len(cs), len(vals)))
    bad = []
    for i, t in cs:
        ra = {x[1] for x in b.origins(t["args"][0]) if x[0] == "param"}
        rb = {x[1] for x in b.origins(t["args"][1]) if x[0] == "param"}
        # parameters: 1 = self, 2 = sort_keys, 3 = other
        if not (1 in ra and 3 not in ra and 3 in rb and 1 not in rb):
            bad.append(t.get("ln"))
    cx.ob("R4", "R4/compare/self-vs-other", not bad, f, "the value of self is the receiver and the value of other the argument of the comparison (swapped at %s)" % (bad or "none"))
    back = [callee_str(t).split("::<")[0] for i, t in b.calls(r"Iterator>::rev$|DoubleEndedIterator>::(next_back|rfold|rfind|nth_back)|cmp::Ordering::reverse$|Iterator>::(skip|step_by|take)$") if not b.is_cleanup(i)]
    cx.ob("R4", "R4/compare/keys-front-to-back", not back, f, "the sort keys are walked front to back, all of them, and no answer is reversed (%s)" % (back or "no rev / skip / take / reverse"))
    bad = []
    for v in (LESS, GREATER):
        r, _ = b.explore(assume_discr={r"cmp::Ordering$": v, r"Option<std::cmp::Ordering>$": 1}, avoid=b.panic_blocks())
        got = _ret_values(b, r)
        # Equal is the answer for an empty list of keys (no comparison made): reachable under any assumption
        got2 = {x for x in got if x != "Equal"}
        if not got2 or not all(x == ORD[v] or (isinstance(x, tuple) and x[1] in {i for i, _ in cs}) for x in got2):
            bad.append("%s -> %s" % (ORD[v], sorted(map(str, got))))
    cx.ob("R4", "R4/compare/sign-kept", not bad, f, "a key that answers Less (Greater) makes the function answer Less (Greater)%s" % ("" if not bad else ": " + "; ".join(bad)))


def _base_local(b, op, depth=0):
    """the local an operand is a (reference to a) copy of, through single definitions `x = &y` / `x = y`"""
    pl = op_place(op)
    if pl is None:
        return None
    l = pl["l"]
    if [e for e in pl.get("p", []) if e != "*"]:
        return l
    ds = b.defs().get(l, [])
    if depth < 6 and len(ds) == 1 and ds[0][0] == "stmt" and ds[0][3]["k"] == "assign" and ds[0][3]["rv"]["k"] in ("ref", "use"):
        rv = ds[0][3]["rv"]
        inner = rv["pl"] if rv["k"] == "ref" else op_place(rv["op"])
        if inner is not None and not [e for e in inner.get("p", []) if e != "*"]:
            return _base_local(b, {"cp": inner}, depth + 1)
    return l


def _assigned(b, blocks):
    """{local: [operand or ('call', bb)]} for the whole-local assignments made in `blocks`"""
    out = {}
    for i in blocks:
        if b.is_cleanup(i):
            continue
        for st in b.blocks[i]["s"]:
            if st["k"] == "assign" and not st["lhs"].get("p"):
                out.setdefault(st["lhs"]["l"], []).append(st["rv"])
        t = b.term(i)
        if t["k"] == "call" and not t["dest"].get("p"):
            out.setdefault(t["dest"]["l"], []).append({"k": "callres", "bb": i})
    return out


def _answers(b, cmp_local_blocks, v):
    """assumptions that make every test of an Ordering value made in this body see the answer v: discriminants read
    from it, and `x == Ordering::V` / `x != Ordering::V` / is_eq .. calls"""
    ac = {}
    for blk, name, is_ne in b.variant_comparisons(r"cmp::Ordering$"):
        ac[blk] = (name == ORD[v]) != is_ne
    tests = {"is_eq": v == EQUAL, "is_ne": v != EQUAL, "is_lt": v == LESS, "is_gt": v == GREATER, "is_le": v != GREATER, "is_ge": v != LESS}
    for i, t in b.calls(r"cmp::Ordering::is_(eq|ne|lt|gt|le|ge)$"):
        ac[i] = tests[callee_str(t).split("::")[-1]]
    return ac


def r5_find(cx):
    """RangeTrait::find(comparator): `compare_entry(i)` answers how the entry at i compares with the probe. Ordered mode:
    Less -> the probe is further right (left = mid + 1), Greater -> further left (right = mid), Equal -> found (mid).
    Linear mode: every index of the window, first Equal wins. Both modes look at offset() + i and answer i, so they agree
    whenever the window is sorted."""
    F = cx.F
    f = F.one(regex=r"reader::directory_pack::range::RangeTrait::find$")
    b = F.body(f)
    oc = b.calls(r"CompareTrait>::ordered$")
    ces = b.calls(r"CompareTrait>::compare_entry$")
    if len(oc) != 1 or len(ces) < 2:
        raise AnchorLost("RangeTrait::find: %d ordered() / %d compare_entry() calls" % (len(oc), len(ces)))
    pan = b.panic_blocks()
    rb, _ = b.explore(assume_calls={oc[0][0]: True}, avoid=pan)
    rl, _ = b.explore(assume_calls={oc[0][0]: False}, avoid=pan)
    ce_bin = [(i, t) for i, t in ces if i in rb and i not in rl]
    ce_lin = [(i, t) for i, t in ces if i in rl and i not in rb]
    cx.ob("R5", "R5/find/two-modes", len(ce_bin) == 1 and len(ce_lin) == 1, f, "one compare_entry per mode, selected by comparator.ordered() (ordered: %d, linear: %d)" % (len(ce_bin), len(ce_lin)))
    if len(ce_bin) != 1 or len(ce_lin) != 1:
        return
    # -- both modes: the entry looked at is offset() + i, the answer is i
    for mode, (ci, ct), reach in (("ordered", ce_bin[0], rb), ("linear", ce_lin[0], rl)):
        o = b.origins(ct["args"][1])
        uses_offset = any(x[0] == "call" and call_is(b.term(x[1]), r"RangeTrait>::offset$") for x in o)
        somes = []
        for i in sorted(reach):
            for st in b.blocks[i]["s"]:
                if st["k"] == "assign" and st["rv"]["k"] == "agg" and st["rv"].get("variant") == "Some" and st["rv"]["fields"]:
                    somes.append((i, st["rv"]["fields"][0]))
        idx_locals = {x[1] for x in b.origins(ct["args"][1], through_calls=True) if x[0] == "call" and not call_is(b.term(x[1]), r"RangeTrait>::offset$", r"ops::Add")}
        ok = uses_offset and bool(somes)
        why = []
        for i, op in somes:
            so = b.origins(op)
            if any(x[0] == "call" and call_is(b.term(x[1]), r"RangeTrait>::offset$") for x in so):
                ok = False; why.append("the index returned at line %s includes offset()" % b.ln(i))
            if any(x[0] == "const" for x in so if x[1] not in (0, 1, 2)) and False:
                ok = False
            # the index answered is the one compared: both derive from the same calls (the iterator / the midpoint)
            sc = {x[1] for x in so if x[0] == "call"}
            if not (sc & idx_locals):
                ok = False; why.append("the index returned at line %s is not the index compared" % b.ln(i))
        cx.ob("R5", "R5/find/%s/looks-at-offset-plus-i-answers-i" % mode, ok, f, "the %s mode compares the entry at offset() + i and answers Some(i)%s" % (mode, "" if ok else ": " + "; ".join(why or ["offset() not added / no Some"])), ln=ct.get("ln"))
    # -- ordered mode: what each answer does to the bounds
    ci, ct = ce_bin[0]
    guards = [(i, t) for i, t in b.calls(r"cmp::PartialOrd(<.*>)?>::(lt|gt|le|ge)$") if i in rb and i not in rl and ci in b.reach_after(i) and i in b.reach_after(ci)]
    if len(guards) != 1 or not callee_str(guards[0][1]).endswith("::lt"):
        raise AnchorLost("RangeTrait::find: the loop of the ordered mode is not guarded by one `left < right` (%d guards)" % len(guards))
    gi, gt = guards[0]
    L, R = _base_local(b, gt["args"][0]), _base_local(b, gt["args"][1])
    mid = _base_local(b, ct["args"][1])
    mid_src = {x[1] for x in b.origins(ct["args"][1]) if x[0] == "call" and not call_is(b.term(x[1]), r"RangeTrait>::offset$")}
    start = b.succ[ci][0]
    res = {}
    for v in (LESS, GREATER, EQUAL):
        ac = _answers(b, None, v)
        ad = {r"cmp::Ordering$": v}
        r, _ = b.explore(assume_calls=ac, assume_discr=ad, start=start, avoid=pan | {gi} | b.error_blocks())
        asg = _assigned(b, r)
        def from_mid(rvs, want_plus_one):
            for rv in rvs:
                if rv["k"] == "callres":
                    o = b.origins({"cp": {"l": b.term(rv["bb"])["dest"]["l"]}})
                else:
                    o = set()
                    for x in rv_operands(rv):
                        o |= b.origins(x)
                calls = {x[1] for x in o if x[0] == "call"}
                consts = {x[1] for x in o if x[0] == "const"}
                if not (calls & mid_src):
                    return False
                if want_plus_one and 1 not in consts:
                    return False
            return True
        rets = any(b.term(x)["k"] == "return" for x in r) or any(st["k"] == "assign" and st["lhs"]["l"] == 0 for x in r for st in b.blocks[x]["s"])
        res[v] = (L in asg, R in asg, rets, asg)
    lL, lR, lret, lasg = res[LESS]
    cx.ob("R5", "R5/find/ordered/less-moves-left-beyond-mid", lL and not lR and not lret and from_mid(lasg.get(L, []), True), f,
          "entry < probe: only the left bound moves, to mid + 1 (left assigned: %s, right assigned: %s, returns: %s)" % (lL, lR, lret), ln=ct.get("ln"))
    gL, gR, gret, gasg = res[GREATER]
    cx.ob("R5", "R5/find/ordered/greater-moves-right-to-mid", gR and not gL and not gret and from_mid(gasg.get(R, []), False), f,
          "entry > probe: only the right bound moves, to mid (left assigned: %s, right assigned: %s, returns: %s)" % (gL, gR, gret), ln=ct.get("ln"))
    eL, eR, eret, _ = res[EQUAL]
    cx.ob("R5", "R5/find/ordered/equal-returns", eret and not eL and not eR, f, "entry = probe: the search returns (bounds untouched: %s)" % (not eL and not eR), ln=ct.get("ln"))
    # midpoint between the bounds: derives from the left bound and a halved size
    mo = b.origins(ct["args"][1])
    halves = any(x[0] == "call" and call_is(b.term(x[1]), r"ops::Div<.*>>::div$|ops::Shr") for x in mo) and ("const", 2) in mo or ("const", 1) in mo
    cx.ob("R5", "R5/find/ordered/midpoint", bool(halves), f, "the index compared is left + size / 2", ln=ct.get("ln"))
    # -- linear mode: every index of the window
    li, lt_ = ce_lin[0]
    skips = [callee_str(t).split("::<")[0] for i, t in b.calls(r"Iterator>::(skip|step_by|take|rev|skip_while|take_while|filter)$") if i in rl and i not in rb]
    src = b.origins(lt_["args"][1])
    whole = any(x[0] == "call" and call_is(b.term(x[1]), r"RangeTrait>::count$") for x in src)
    cx.ob("R5", "R5/find/linear/every-index", whole and not skips, f, "the linear mode walks 0 .. count() without skipping (%s)" % (skips or "no skip / step / take / rev"), ln=lt_.get("ln"))
    r_eq, _ = b.explore(assume_calls=_answers(b, None, EQUAL), assume_discr={r"cmp::Ordering$": EQUAL}, start=b.succ[li][0], avoid=pan | b.error_blocks())
    r_ne, _ = b.explore(assume_calls=_answers(b, None, LESS), assume_discr={r"cmp::Ordering$": LESS}, start=b.succ[li][0], avoid=pan | b.error_blocks() | {li})
    some_eq = any(st["k"] == "assign" and st["rv"]["k"] == "agg" and st["rv"].get("variant") == "Some" for x in r_eq for st in b.blocks[x]["s"])
    loops_eq = li in b.reachable(b.succ[li][0], avoid=set(range(b.n)) - r_eq) and False
    some_ne = any(st["k"] == "assign" and st["rv"]["k"] == "agg" and st["rv"].get("variant") == "Some" for x in r_ne for st in b.blocks[x]["s"])
    cx.ob("R5", "R5/find/linear/first-equal-wins", some_eq and not some_ne, f, "an entry equal to the probe is returned at once, any other entry is passed over (Some on equal: %s, Some on a different entry: %s)" % (some_eq, some_ne), ln=lt_.get("ln"))


def r1_sort_protocol(cx):
    """EntryStore::finalize: sort with FullEntryTrait::compare on the schema's sort keys, then *check* that every pair of
    neighbours is in non-decreasing order, and sort again as long as it is not (the comparator reads positions that move
    while sorting); only a store that passed the check goes on"""
    F = cx.F
    f = F.one(regex=r"entry_store::EntryStore<.*> as creator::directory_pack::entry_store::EntryStoreTrait>::finalize$")
    b = F.deep_body(f, only=r"entry_store::EntryStore", closures=True)
    sorts = [(i, t) for i, t in b.calls(r"::(par_)?sort(_unstable)?_by(_key|_cached_key)?::<", r"::(par_)?sort(_unstable)?(::<.*>)?$") if not b.is_cleanup(i)]
    if not sorts:
        raise AnchorLost("EntryStore::finalize sorts nothing")
    clos = {c["id"]: c for c in F.closures_of(f)}

    def closure_of(op):
        for x in b.origins(op, through_calls=False):
            pass
        l = _base_local(b, op)
        for d in b.defs().get(l, []):
            if d[0] == "stmt" and d[3]["k"] == "assign" and d[3]["rv"]["k"] == "agg" and d[3]["rv"].get("ak") == "closure":
                cid = d[3]["rv"].get("closure_fn")
                return F.fns[cid] if cid is not None and cid < len(F.fns) else None
        return None

    def compare_in(c):
        """(body, block, receiver operand, keys operand or None, other operand) of the one FullEntryTrait::compare call made
        by closure c -- directly, or through a captured closure that forwards its two arguments to it unchanged"""
        if c is None or "blocks" not in c:
            return None
        cb = F.body(c)
        cs = cb.calls(r"FullEntryTrait(<.*>)?>::compare(::<.*>)?$|FullEntryTrait::compare")
        if len(cs) == 1:
            t = cs[0][1]
            return cb, cs[0][0], t["args"][0], t["args"][1], t["args"][2]
        if cs:
            return None
        for i, t in cb.calls(r"ops::Fn(Mut|Once)?<.*>>::call(_mut|_once)?$"):
            g = (t.get("callee") or {}).get("rfn")
            g = F.fns[g] if g is not None and g < len(F.fns) else None
            if g is None or g.get("kind") != "closure" or "blocks" not in g or len(t["args"]) != 2:
                continue
            gb = F.body(g)
            gs = gb.calls(r"FullEntryTrait(<.*>)?>::compare(::<.*>)?$|FullEntryTrait::compare")
            if len(gs) != 1:
                continue
            gt = gs[0][1]
            pa = {x[1] for x in gb.origins(gt["args"][0]) if x[0] == "param"}
            po = {x[1] for x in gb.origins(gt["args"][2]) if x[0] == "param"}
            if pa != {2} or po != {3}:
                return None
            tl = op_place(t["args"][1])
            for d in cb.defs().get(tl["l"], []) if tl else []:
                if d[0] == "stmt" and d[3]["k"] == "assign" and d[3]["rv"]["k"] == "agg" and d[3]["rv"].get("ak") == "tuple" and len(d[3]["rv"]["fields"]) == 2:
                    return cb, i, d[3]["rv"]["fields"][0], None, d[3]["rv"]["fields"][1]
        return None

    bad = []
    n = 0
    for i, t in sorts:
        if len(t["args"]) < 2:
            bad.append("line %s sorts without the comparator" % t.get("ln")); continue
        if "by_key" in callee_str(t) or "cached_key" in callee_str(t):
            bad.append("line %s sorts by a key, not with FullEntryTrait::compare" % t.get("ln")); continue
        r = compare_in(closure_of(t["args"][1]))
        if r is None:
            bad.append("line %s: the comparator does not call FullEntryTrait::compare once" % t.get("ln")); continue
        cb, ci, a_op, k_op, o_op = r
        n += 1
        pa = {x[1] for x in cb.origins(a_op) if x[0] == "param"}
        pk = cb.origins(k_op) if k_op is not None else {("param", 1)}
        po = {x[1] for x in cb.origins(o_op) if x[0] == "param"}
        # closure parameters: 1 = captured environment, 2 = a, 3 = b
        if not (pa == {2} and po == {3}):
            bad.append("line %s: compare(a, b) is called as compare(%s, %s)" % (t.get("ln"), sorted(pa), sorted(po)))
        if any(call_is(cb.term(x), r"Ordering::reverse$") for x in range(cb.n) if cb.term(x)["k"] == "call"):
            bad.append("line %s: the comparator reverses the answer" % t.get("ln"))
        if not ({x[1] for x in pk if x[0] == "param"} == {1}):
            bad.append("line %s: the keys are not the captured sort keys" % t.get("ln"))
        so = b.origins(t["args"][0])
        if ("field", "entries") not in so:
            bad.append("line %s does not sort self.entries" % t.get("ln"))
    cx.ob("R1", "R1/finalize/sorted-with-compare", not bad and n >= 1, f, "%d sort(s) of self.entries, each with |a, b| a.compare(keys, b)%s" % (n, "" if not bad else ": " + "; ".join(bad)))
    keys_ok = any(("field", "sort_keys") in b.origins(t["args"][1]) for _, t in sorts if len(t["args"]) > 1)
    cx.ob("R1", "R1/finalize/keys-are-the-schema-sort-keys", keys_ok, f, "the comparator captures schema.sort_keys")
    # the check
    checks = []
    for i, t in b.calls(r"Iterator>::all::<", r"::is_sorted_by::<"):
        if b.is_cleanup(i) or len(t["args"]) < 2:
            continue
        r = compare_in(closure_of(t["args"][1]))
        if r is None:
            continue
        checks.append((i, t, r))
    if not checks:
        cx.ob("R1", "R1/finalize/order-is-checked", False, f, "no `all(|w| w[0].compare(keys, &w[1]) ..)` / is_sorted_by check of the sorted entries")
        return
    bad = []
    for i, t, (cb, ci, a_op, k_op, o_op) in checks:
        # receiver = element 0 of the window, other = element 1
        def elem(op):
            out = set()
            seen = set()
            work = [op_place(op)["l"]] if op_place(op) else []
            while work:
                l = work.pop()
                if l in seen:
                    continue
                seen.add(l)
                for d in cb.defs().get(l, []):
                    if d[0] == "call":
                        tt = d[2]
                        if call_is(tt, r"ops::Index<usize>>::index$|SliceIndex") and len(tt["args"]) > 1:
                            c = op_const_deep(cb, tt["args"][1])
                            out.add(c)
                        for a in tt["args"][:1]:
                            if op_place(a):
                                work.append(op_place(a)["l"])
                    elif d[3]["k"] == "assign":
                        rv = d[3]["rv"]
                        if rv["k"] in ("ref", "use"):
                            pl = rv["pl"] if rv["k"] == "ref" else op_place(rv["op"])
                            if pl is not None:
                                for e in pl.get("p", []):
                                    if isinstance(e, dict) and "cidx" in e:
                                        out.add(e["cidx"])
                                    if isinstance(e, dict) and "idx" in e:
                                        c = op_const_deep(cb, {"cp": {"l": e["idx"]}})
                                        out.add(c)
                                work.append(pl["l"])
            return out
        ea, eo = elem(a_op), elem(o_op)
        if callee_str(t).split("::<")[0].endswith("is_sorted_by"):
            pa = {x[1] for x in cb.origins(a_op) if x[0] == "param"}
            po = {x[1] for x in cb.origins(o_op) if x[0] == "param"}
            if not (pa == {2} and po == {3}):
                bad.append("is_sorted_by compares (%s, %s)" % (sorted(pa), sorted(po)))
        elif not (ea == {0} and eo == {1}):
            bad.append("the check compares window element %s with element %s (wanted 0 with 1)" % (sorted(map(str, ea)), sorted(map(str, eo))))
        preds = [callee_str(tt).split("::")[-1] for x, tt in cb.calls(r"cmp::Ordering::is_(eq|ne|lt|gt|le|ge)$") if ("call", ci) in cb.origins(tt["args"][0], through_calls=False)]
        vcs = [(name, is_ne) for blk, name, is_ne in cb.variant_comparisons(r"cmp::Ordering$")]
        if preds == ["is_le"] or vcs == [("Greater", True)]:
            pass
        else:
            bad.append("the check accepts a pair on %s (wanted is_le: non-decreasing)" % (preds or vcs or "an unrecognised test"))
        w = [tt for x, tt in b.calls(r"::windows$|::array_windows") if ("call", x) in b.origins(t["args"][0])]
        if callee_str(t).split("::<")[0].endswith("::all") and (not w or op_const_deep(b, w[0]["args"][1]) != 2):
            bad.append("the check does not walk windows(2)")
    cx.ob("R1", "R1/finalize/check-compares-neighbours-non-decreasing", not bad, f, "the check compares each entry with its successor, same comparison, accepted on is_le%s" % ("" if not bad else ": " + "; ".join(bad)))
    # no way past the check when it answers false
    proc = [i for i, t in b.calls(r"schema::Schema::<.*>::(process|finalize)$|Schema<.*>::(process|finalize)$")]
    if not proc:
        raise AnchorLost("EntryStore::finalize no longer hands the entries to the schema")
    pan = b.panic_blocks()
    ac = {i: False for i, _, _ in checks}
    r, _ = b.explore(assume_calls=ac, start=sorts[0][0], avoid=pan)
    through = [b.ln(x) for x in proc if x in r]
    cx.ob("R1", "R1/finalize/unsorted-never-goes-on", not through, f, "with the check answering false, the schema is not reached from the first sort (reached at lines %s)" % (through or "none"))
    last_not_checked = [t.get("ln") for i, t in sorts if not any(ck in b.reach_after(i) for ck, _, _ in checks)]
    cx.ob("R1", "R1/finalize/every-sort-is-followed-by-the-check", not last_not_checked, f, "every sort is followed by the check (not followed: lines %s)" % (last_not_checked or "none"))
    # the comparator reads the positions of entries (a sort key may be a deferred word bound to an entry index): after each
    # sort the entries are given their new positions *before* the order is checked, otherwise the check looks at stale keys
    renum = {i for i, t in b.calls(r"entry_store::set_entry_idx(::<.*>)?$")}
    stale = []
    for si, st_ in sorts:
        for ck, _, _ in checks:
            if ck in b.reach_after(si) and ck in b.reachable(b.succ[si][0], avoid=renum | pan):
                stale.append(st_.get("ln"))
    cx.ob("R1", "R1/finalize/renumbered-before-the-check", bool(renum) and not stale, f, "between every sort and the check that follows it the entries are renumbered (set_entry_idx); sorts followed by a check on stale positions: lines %s" % (sorted(set(stale)) or "none"))
    rev = [t.get("ln") for i, t in b.calls(r"::reverse$|Iterator>::rev$|::swap$|::rotate_(left|right)$|::shuffle") if not b.is_cleanup(i) and t["args"] and ("field", "entries") in b.origins(t["args"][0])]
    cx.ob("R1", "R1/finalize/nothing-reorders-afterwards", not rev, f, "no reverse / swap / rotate of the entries in finalize (lines %s)" % (rev or "none"))


def r6_reader_compare(cx):
    """the reader compares the *stored* value (receiver) with the probe (argument); the first property that differs
    answers, unchanged; a stored array that is a strict prefix of the probe is Less, a probe that is a strict prefix of
    the stored array makes it Greater"""
    F = cx.F
    f = F.one(regex=r"property_compare::PropertyCompare<'_> as reader::directory_pack::range::CompareTrait>::compare_entry$|PropertyCompare.*CompareTrait>::compare_entry$")
    b = F.deep_body(f, only=r"property_compare::", closures=True)
    pc = b.calls(r"RawValue::partial_cmp$")
    if len(pc) != 1:
        raise AnchorLost("PropertyCompare::compare_entry: %d partial_cmp calls" % len(pc))
    i, t = pc[0]
    ra = b.origins(t["args"][0])
    rb_ = b.origins(t["args"][1])
    stored = any(x[0] == "call" and call_is(b.term(x[1]), r"EntryTrait>::get_value|::get_value") for x in ra)
    probe = ("param", 1) in rb_ and not any(x[0] == "call" and call_is(b.term(x[1]), r"::get_value|create_entry") for x in rb_)
    cx.ob("R6", "R6/compare_entry/stored-vs-probe", stored and probe, f, "entry.get_value(name) is the receiver, the probe value kept by the comparator the argument", ln=t.get("ln"))
    rev = [tt.get("ln") for x, tt in b.calls(r"Ordering::reverse$|Iterator>::rev$") if not b.is_cleanup(x)]
    bad = []
    for v in (LESS, GREATER):
        r, _ = b.explore(assume_calls=_answers(b, None, v), assume_discr={r"cmp::Ordering$": v}, avoid=b.panic_blocks() | b.error_blocks())
        got = {x for x in _ret_values(b, r) if x not in ("Err", "Equal")}
        if not got or not all(x == ORD[v] or (isinstance(x, tuple) and x[0] == "call") for x in got):
            bad.append("%s -> %s" % (ORD[v], sorted(map(str, got))))
    cx.ob("R6", "R6/compare_entry/first-difference-answers-unchanged", not bad and not rev, f, "the first property that does not compare Equal is the answer, as it is%s" % ("" if not bad else ": " + "; ".join(bad)))
    g = F.one(regex=r"reader::directory_pack::raw_value::RawValue::partial_cmp$")
    gb = F.body(g)
    cs = [(i, t) for i, t in gb.calls(*CMP_CALL, r"raw_value::Array::cmp$") if not gb.is_cleanup(i)]
    if len(cs) < 1:
        raise AnchorLost("RawValue::partial_cmp: %d comparisons" % len(cs))
    bad = []
    for i, t in cs:
        pa = {x[1] for x in gb.origins(t["args"][0]) if x[0] == "param"}
        pb = {x[1] for x in gb.origins(t["args"][1]) if x[0] == "param"}
        if not (1 in pa and 2 not in pa and 2 in pb and 1 not in pb):
            bad.append(t.get("ln"))
    rev = [t.get("ln") for i, t in gb.calls(r"Ordering::reverse$") if not gb.is_cleanup(i)]
    cx.ob("R6", "R6/RawValue.partial_cmp/self-vs-other", not bad and not rev, g, "%d comparisons, each `stored . cmp (probe)` (swapped at lines %s)" % (len(cs), bad or "none"))
    # reader Array::cmp(&self, other: &[u8])
    h = F.one(regex=r"reader::directory_pack::raw_value::Array::cmp$")
    hb = F.body(h)
    ours = [(i, t) for i, t in hb.calls(r"ArrayIter<'_> as std::iter::Iterator>::next$|ArrayIter.*Iterator>::next$")]
    theirs = [(i, t) for i, t in hb.calls(r"slice::Iter<'_, u8> as std::iter::Iterator>::next$")]
    byte = [(i, t) for i, t in hb.calls(r"impl std::cmp::Ord for u8>::cmp$")]
    if len(ours) != 1 or not (1 <= len(theirs) <= 2) or len(byte) != 1:
        raise AnchorLost("reader Array::cmp: %d stored-byte reads, %d probe-byte reads, %d byte comparisons (wanted 1, 1 or 2, 1)" % (len(ours), len(theirs), len(byte)))
    oi = ours[0][0]
    pan = hb.panic_blocks()
    SOME, NONE = ("agg", 1, (None,)), ("agg", 0, ())
    # `next().transpose()?` on the stored side: the Result<Option<u8>> it makes out of the assumed Option
    tr = [i for i, t in hb.calls(r"Option::<std::result::Result<.*>>::transpose$") if ("call", oi) in hb.origins(t["args"][0], through_calls=False)]

    def rets(mine, yours, extra=None):
        ac = {oi: mine}
        for i in tr:
            ac[i] = ("agg", 0, (mine,))
        for i, _ in theirs:
            ac[i] = yours
        ac.update(extra or {})
        r, _ = hb.explore(assume_calls=ac, avoid=pan | hb.error_blocks())
        return {x for x in _ret_values(hb, r) if x != "Err"}
    bi, bt = byte[0]
    pa = hb.origins(bt["args"][0]); pb = hb.origins(bt["args"][1])
    tset = {("call", i) for i, _ in theirs}
    dirok = ("call", oi) in pa and not (tset & pa) and bool(tset & pb) and ("call", oi) not in pb
    cx.ob("R6", "R6/Array.cmp/stored-byte-vs-probe-byte", dirok, h, "each stored byte is the receiver, the probe's byte the argument of the byte comparison", ln=bt.get("ln"))
    g1 = rets(SOME, NONE)
    cx.ob("R6", "R6/Array.cmp/probe-exhausted-first-is-greater", g1 == {"Greater"}, h, "stored bytes left, probe exhausted -> Greater (returns %s)" % sorted(map(str, g1)))
    g2 = rets(NONE, SOME)
    cx.ob("R6", "R6/Array.cmp/stored-exhausted-first-is-less", g2 == {"Less"}, h, "stored bytes exhausted, probe has more -> Less (returns %s)" % sorted(map(str, g2)))
    g3 = rets(NONE, NONE)
    cx.ob("R6", "R6/Array.cmp/both-exhausted-is-equal", g3 == {"Equal"}, h, "both exhausted -> Equal (returns %s)" % sorted(map(str, g3)))
    bad = []
    for v in (LESS, GREATER):
        extra = {bi: ("agg", v, ())}
        extra.update(_answers(hb, None, v))
        g4 = rets(SOME, SOME, extra)
        if not g4 or not all(x == ORD[v] or x == ("call", bi) for x in g4):
            bad.append("%s -> %s" % (ORD[v], sorted(map(str, g4))))
    cx.ob("R6", "R6/Array.cmp/first-different-byte-answers", not bad, h, "a byte that compares Less / Greater is the answer%s" % ("" if not bad else ": " + "; ".join(bad)))


def r7_value_ids_in_byte_order(cx):
    """the second step of the writer's array order (R2) compares value ids: they are assigned in the byte order of the
    stored parts (= C15-R4)"""
    import c15
    class Sub:
        pass
    obs0 = len(cx.obs)
    c15.r4_value_ids(cx)
    for o in cx.obs[obs0:]:
        o.rule = "R7"
        o.key = "R7" + o.key[2:] if o.key.startswith("R4") else o.key


def r9_windows_resolved_on_final_positions(cx):
    """= C15-R11 under C03 ('all index windows'): the offset of an index may be a deferred word bound to an entry; it is not
    evaluated before the stores are sorted"""
    import c15
    c15.r11_no_deferred_word_is_read_before_the_stores_are_final(cx, rule="R9")


def r10_key_lengths_are_compared_before_they_are_narrowed(cx):
    """= C02-R14 under C03: the reader clamps the inline part of a stored key with `min(len, prefix) as u8`, never
    `min(len as u8, prefix)` -- a key of 256 bytes or more would be rebuilt from the wrong pieces and compare as another key"""
    import c02
    reuse(cx, c02.r14_sizes_are_compared_before_they_are_narrowed, "R14", "R10")


def r11_sort_keys_are_kept_as_declared(cx):
    """'stored in non-decreasing order of those properties': *in the order they were declared*. Schema::new stores the list
    of sort keys it is given, whole -- it is not rebuilt (filtered, deduplicated, reordered in schema order)"""
    F = cx.F
    f = F.one(impl_self="schema::Schema", item="new", closure=False)
    b = F.deep_body(f, only=r"schema::Schema", closures=True)
    st = F.struct("creator::directory_pack::schema::Schema")
    names = [fl["name"] for fl in (st or {}).get("fields", [])]
    if "sort_keys" not in names:
        raise AnchorLost("Schema.sort_keys")
    k = names.index("sort_keys")
    params = [i for i in range(1, b.arg_count + 1) if re.search(r"Option<std::vec::Vec<PN>>", b.f["locals"][i].get("ty", ""))]
    aggs = [(i, s_) for i, blk in enumerate(b.blocks) if not blk.get("cleanup") for s_ in blk["s"] if s_["k"] == "assign" and s_["rv"]["k"] == "agg" and s_["rv"].get("adt", "").endswith("schema::Schema") and len(s_["rv"]["fields"]) == len(names)]
    if len(params) != 1 or not aggs:
        raise AnchorLost("Schema::new: %d sort-key parameters, %d constructions" % (len(params), len(aggs)))
    bad = []
    for i, s_ in aggs:
        l = op_base_local(s_["rv"]["fields"][k])
        if l not in b.whole_copies({params[0]}) | {params[0]}:
            o = b.origins(s_["rv"]["fields"][k])
            bad.append("line %s: built from %s" % (s_.get("ln"), sorted({callee_str(b.term(x[1])).split("::<")[0][-40:] for x in o if x[0] == "call"}) or "something else"))
    cx.ob("R11", "R11/Schema.new/sort-keys-as-declared", not bad, f, "the sort_keys of the schema are the list given to Schema::new, unchanged (%s)" % (bad or "whole copy"))


def r12_key_split(cx, rule="R12"):
    """the writer orders array keys by (inline part, id of the stored part, length) and the reader rebuilds a key as inline
    part + stored part: both rest on the creator cutting each value at ONE point, `min(inline length of the column, length of
    the value)` -- the bytes before it go inline, the bytes after it go to the value store, the length recorded is the
    length of the whole value. (ValueTransformer::next, the only place where an array value is taken apart.)"""
    F = cx.F
    f = F.one(regex=r"creator::directory_pack::ValueTransformer<.*> as std::iter::Iterator>::next$")
    b = F.deep_body(f, only=r"creator::directory_pack::ValueTransformer", closures=True)
    sp = [(i, t) for i, t in b.calls(r"impl \[.*\]>::split_at(_checked)?$|::split_at(_checked)?$") if not b.is_cleanup(i)]
    if len(sp) != 1:
        raise AnchorLost("ValueTransformer::next: %d split_at (one cut per array value expected)" % len(sp))
    si, st_ = sp[0]
    o = b.origins(st_["args"][1])
    mins = [x[1] for x in o if x[0] == "call" and call_is(b.term(x[1]), r"cmp::min(::<.*>)?$|cmp::Ord>::min$")]
    lens = [x[1] for x in o if x[0] == "call" and call_is(b.term(x[1]), r"\]>::len$|Vec::<u8>::len$|SmallVec.*::len$")]
    consts = sorted(x[1] for x in o if x[0] == "const" and isinstance(x[1], int) and not isinstance(x[1], bool))
    cx.ob(rule, rule + "/ValueTransformer.next/cut-at-min-of-inline-length-and-length", bool(mins) and bool(lens) and ("field", "fixed_array_len") in o and not consts, f,
          "the value is cut at min(fixed_array_len of the column, its own length), nothing else (min: %s, len: %s, constants: %s)" % (bool(mins), bool(lens), consts or "none"), ln=st_.get("ln"))
    av = [(i, t) for i, t in b.calls(r"StoreHandle::add_value(::<.*>)?$") if ("call", si) in b.origins(t["args"][1])]
    stored_ok = len(av) == 1 and tuple_field_of_call(b, av[0][1]["args"][1], si) == 1
    cx.ob(rule, rule + "/ValueTransformer.next/stored-part-is-what-follows-the-cut", stored_ok, f, "the part handed to the value store is the second half of the cut (field 1 of split_at)", ln=(av[0][1].get("ln") if av else None))
    n = 0
    bad = []
    for i, blk in enumerate(b.blocks):
        if blk.get("cleanup"):
            continue
        for s_ in blk["s"]:
            rv = s_.get("rv") or {}
            if s_["k"] == "assign" and rv.get("k") == "agg" and re.search(r"directory_pack::value::ArrayS?$", rv.get("adt", "")) and rv.get("fnames"):
                n += 1
                fields = dict(zip(rv["fnames"], rv["fields"]))
                d_ok = "data" in fields and tuple_field_of_call(b, fields["data"], si) == 0
                v_ok = "value_id" in fields and av and ("call", av[0][0]) in b.origins(fields["value_id"], through_calls=False)
                so = b.origins(fields["size"], through_calls=False) if "size" in fields else set()
                s_ok = any(x[0] == "call" and call_is(b.term(x[1]), r"::len$") and ("call", si) not in b.origins(b.term(x[1])["args"][0]) for x in so)
                if not (d_ok and v_ok and s_ok):
                    bad.append("line %s (inline part: %s, value id: %s, whole length: %s)" % (s_.get("ln"), d_ok, bool(v_ok), s_ok))
    if n < 2:
        raise AnchorLost("ValueTransformer::next builds %d array values" % n)
    cx.ob(rule, rule + "/ValueTransformer.next/inline-part-id-and-whole-length", not bad, f, "each of the %d array values built carries the first half of the cut, the id the store gave for the second half, and the length of the whole value (%s)" % (n, bad or "ok"))


def r8_reindexed_after_every_sort(cx):
    """= C15-R1 under C03: every reordering of the entries is followed by a re-indexing before anything consumes the order"""
    import c15
    c15.r1_reindex(cx, rule="R8")


RULES = [
    ("R12", r12_key_split, 3),
    ("R11", r11_sort_keys_are_kept_as_declared, 1),
    ("R10", r10_key_lengths_are_compared_before_they_are_narrowed, 1),
    ("R9", r9_windows_resolved_on_final_positions, 1),
    ("R8", r8_reindexed_after_every_sort, 7),
    ("R1", r1_sort_protocol, 7),
    ("R2", r2_writer_array_order, 12),
    ("R3", r3_writer_value_direction, 1),
    ("R4", r4_entry_compare, 3),
    ("R5", r5_find, 9),
    ("R6", r6_reader_compare, 8),
    ("R7", r7_value_ids_in_byte_order, 5),
]
