"""E2 primitives over the jbkfacts JSON: function lookup, CFG, dominance, reachability,
provenance slices, call-graph summaries, HIR tree helpers."""
import json, os, re, sys
from collections import defaultdict


class AnchorLost(Exception):
    """An anchor (function, call site, constant) the rule is written about was not found.
    The check fails closed."""
    pass


def reuse(cx, fn, old, new, only=None):
    """evaluate rule function `fn` of another property under this one: its obligations are relabelled old -> new
    (only those whose key contains `only`, when given; the others are dropped)"""
    n = len(cx.obs)
    fn(cx)
    kept = []
    for o in cx.obs[n:]:
        if only is not None and not any(x in o.key for x in ([only] if isinstance(only, str) else only)):
            continue
        if o.rule == old:
            o.rule = new
        if o.key.startswith(old + "/"):
            o.key = new + o.key[len(old):]
        kept.append(o)
    cx.obs[n:] = kept


def short(s, n=160):
    s = str(s)
    return s if len(s) <= n else s[: n - 1] + "…"


# ------------------------------------------------------------------------------------
# facts
# ------------------------------------------------------------------------------------
class Facts:
    def __init__(self, path, config=""):
        with open(path) as f:
            d = json.load(f)
        self.path = path
        self.config = config
        self.crate = d["crate"]
        self.fns = d["fns"]
        self.hir = d["hir"]
        self.const_hir = d.get("const_hir", [])
        self.inst = d["inst"]
        self.consts = d["consts"]
        self.enums = d["enums"]
        self.structs = d["structs"]
        self.impls = d["impls"]
        self.traits = d["traits"]
        # a baseline function that was merely renamed keeps its identity (renames.py); identity on the pinned tree
        import renames
        self.renamed = renames.apply(self.fns, self.hir)
        # functions that do not exist at the pinned commit are transparent (see inline.py); identity on the pinned tree
        import inline
        self.inlined, self.transparent = inline.apply(self.fns)
        # helpers that did not exist at the pinned commit and were inlined into their callers: whole-crate
        # enumerations skip them (their statements are accounted for, once per caller, in the callers)
        absorbed_names = {n for v in self.inlined.values() for n in v}
        self.absorbed = {f["id"] for f in self.fns if f["id"] in self.transparent and f["name"] in absorbed_names}
        self.live_fns = [f for f in self.fns if f["id"] not in self.absorbed]
        self._bodies = {}
        self._by_name = defaultdict(list)
        for f in self.fns:
            self._by_name[f["name"]].append(f)
        # closures by parent
        self.children = defaultdict(list)
        for f in self.fns:
            if "parent" in f:
                self.children[f["parent"]].append(f["id"])
        self._defgraph = None
        self._trait_impl_index = None

    def deep_body(self, f, only=None, closures=False):
        """Body of f with its direct calls to crate-local functions inlined (inline.py, depth 3) -- for rules about the
        shape of an expression, which must not depend on whether a sub-expression sits behind an accessor.
        `only`: regex restricting which callees are inlined. `closures`: the direct calls of closures built in this very
        body (`let rebase = |x| ..; rebase(a)`) are inlined too."""
        import inline, copy
        key = ("deep", f["id"], only, closures)
        if key not in self._bodies:
            g = copy.deepcopy(f)
            ids = {x["id"] for x in self.fns if "blocks" in x and x.get("kind") != "closure" and x["id"] != f["id"] and (only is None or re.search(only, x["name"]))}
            if closures:
                inline.transparent_hosts.add(g["id"])
            try:
                inline.inline_into(self.fns, g, ids)
            finally:
                inline.transparent_hosts.discard(g["id"])
            self._bodies[key] = Body(self, g)
        return self._bodies[key]

    def effective_owner(self, f):
        """a function that did not exist at the pinned commit and is used (called, or passed by name to a combinator such
        as `Result::map`) by exactly one function of the pinned tree acts on behalf of that function: return it (else f)"""
        if f["id"] not in self.transparent:
            return f
        if not hasattr(self, "_users"):
            users = defaultdict(set)
            by_name = {re.sub(r"<.*?>", "", g["name"]): g["id"] for g in self.fns}
            for g in self.fns:
                gid = g["id"]
                while self.fns[gid].get("kind") == "closure" and "parent" in self.fns[gid]:
                    gid = self.fns[gid]["parent"]
                for blk in g.get("blocks", []):
                    t = blk["t"]
                    if t["k"] != "call":
                        continue
                    c = t.get("callee") or {}
                    for x in (c.get("rfn"), c.get("def_fn")):
                        if x is not None:
                            users[x].add(gid)
                    for a in t["args"]:
                        cc = a.get("c") if isinstance(a, dict) else None
                        if cc and cc.get("fn"):
                            x = by_name.get(re.sub(r"<.*?>", "", cc["fn"]))
                            if x is not None:
                                users[x].add(gid)
            self._users = users
        seen = set()
        cur = f
        for _ in range(4):
            us = {u for u in self._users.get(cur["id"], ()) if u != cur["id"]}
            if len(us) != 1:
                return f if cur is f else cur
            cur = self.fns[next(iter(us))]
            if cur["id"] not in self.transparent or cur["id"] in seen:
                return cur
            seen.add(cur["id"])
        return cur

    def ret_fields(self, t, _depth=0):
        """names of the fields the result of a call to a crate-local function is read from (summary of the callee's
        return value, two levels deep): lets a provenance rule see through an accessor such as `self.data_size()`"""
        c = t.get("callee") or {}
        gid = c.get("rfn") if c.get("rkind") == "item" and c.get("rfn") is not None else (c.get("def_fn") if "trait" not in c else None)
        if gid is None:
            return ()
        if not hasattr(self, "_ret_fields"):
            self._ret_fields = {}
        if gid in self._ret_fields:
            return self._ret_fields[gid] or ()
        self._ret_fields[gid] = None  # in progress (recursion guard)
        g = self.fns[gid]
        out = ()
        if "blocks" in g and len(g["blocks"]) <= 60:
            try:
                o = self.body(g).origins(0)
                out = tuple(sorted({x[1] for x in o if x[0] == "field"}))
            except AnchorLost:
                out = ()
        self._ret_fields[gid] = out
        return out

    # ---- lookup -------------------------------------------------------------------
    def find(self, name=None, impl_self=None, item=None, trait=None, closure=None, kind=None, regex=None):
        """All functions matching. `name` = exact def path; `impl_self` = suffix match on the
        impl self type (generic args stripped unless given); `item` = method name;
        `trait` = suffix of implemented trait path ('' = inherent only)."""
        out = []
        for f in self.fns:
            if name is not None and f["name"] != name:
                continue
            if regex is not None and not re.search(regex, f["name"]):
                continue
            if kind is not None and f["kind"] != kind:
                continue
            if closure is False and f["kind"] == "closure":
                continue
            if item is not None and f.get("item_name") != item:
                continue
            if impl_self is not None:
                s = f.get("impl_self")
                if s is None:
                    continue
                if not _ty_match(s, impl_self):
                    continue
            if trait is not None:
                t = f.get("impl_trait")
                if trait == "":
                    if t is not None:
                        continue
                else:
                    if t is None or not _ty_match(t, trait):
                        continue
            out.append(f)
        return out

    def _absorbed_into(self, kw):
        """a function of the baseline that no longer exists and had exactly one caller in the baseline has most likely been
        merged into that caller (the inverse of extracting a helper): the rules that were anchored on it look at the
        caller instead. Returns the caller, or None."""
        import renames, json as _json
        try:
            with open(renames.BASELINE) as fh:
                base = _json.load(fh)
        except OSError:
            return None
        recs = base.get("records") or {}
        present = {f["name"] for f in self.fns}
        cands = []
        for nm, r in recs.items():
            if nm in present:
                continue
            ident = dict(r["ident"])
            ident.setdefault("kind", "fn")
            probe = Facts.__new__(Facts)
            probe.fns = [ident]
            if Facts.find(probe, **kw):
                cands.append(nm)
        if len(cands) != 1:
            return None
        key = "call:" + re.sub(r"<.*?>", "", cands[0])
        callers = [nm for nm, r in recs.items() if any(k == key for k, _ in r["fp"])]
        if len(callers) != 1 or callers[0] not in present:
            return None
        got = [f for f in self.fns if f["name"] == callers[0] and "blocks" in f]
        return got[0] if len(got) == 1 else None

    def one(self, **kw):
        r = self.find(**kw)
        if not r:
            a = self._absorbed_into(kw)
            if a is not None:
                return a
        if len(r) != 1:
            raise AnchorLost("expected exactly one function for %r, found %d: %s" % (kw, len(r), [f["name"] for f in r][:6]))
        return r[0]

    def method(self, impl_self, item, trait=None):
        """unique non-closure method `item` of impl for type `impl_self`"""
        kw = dict(impl_self=impl_self, item=item, closure=False)
        if trait is not None:
            kw["trait"] = trait
        return self.one(**kw)

    def fn_named(self, suffix):
        r = [f for f in self.fns if f["name"] == suffix or f["name"].endswith("::" + suffix)]
        r = [f for f in r if f["kind"] != "closure"]
        if len(r) != 1:
            raise AnchorLost("expected exactly one function named …%s, found %d" % (suffix, len(r)))
        return r[0]

    def closures_of(self, f, recursive=True):
        out = []
        st = list(self.children.get(f["id"], []))
        while st:
            c = st.pop()
            out.append(self.fns[c])
            if recursive:
                st.extend(self.children.get(c, []))
        return sorted(out, key=lambda x: x["id"])

    def body(self, f):
        if isinstance(f, int):
            f = self.fns[f]
        b = self._bodies.get(f["id"])
        if b is None:
            b = Body(self, f)
            self._bodies[f["id"]] = b
        return b

    def tree(self, f):
        if isinstance(f, int):
            f = self.fns[f]
        return self.hir[f["id"]]["tree"]

    def loc(self, f, ln=None):
        if isinstance(f, int):
            f = self.fns[f]
        return "%s:%s" % (f["file"], ln if ln is not None else f["line"])

    def const(self, path_suffix):
        r = [c for c in self.consts if c["path"] == path_suffix or c["path"].endswith("::" + path_suffix)]
        if len(r) != 1:
            raise AnchorLost("expected one const %s, found %d" % (path_suffix, len(r)))
        return r[0]

    def enum(self, suffix):
        r = [e for e in self.enums if e["path"] == suffix or e["path"].endswith("::" + suffix)]
        if len(r) != 1:
            raise AnchorLost("expected one enum %s, found %d" % (suffix, len(r)))
        return r[0]

    def struct(self, suffix):
        r = [e for e in self.structs if e["path"] == suffix or e["path"].endswith("::" + suffix)]
        if len(r) != 1:
            raise AnchorLost("expected one struct %s, found %d" % (suffix, len(r)))
        return r[0]

    def impls_of(self, trait_suffix):
        return [i for i in self.impls if i.get("trait_def") and (i["trait_def"] == trait_suffix or i["trait_def"].endswith("::" + trait_suffix))]

    # ---- def-level call graph (projection of the instance graph) --------------------
    def defgraph(self):
        """fn id -> set of (fn id | 'ext:<path>') it may call (calls, closures created,
        fn refs, provided-method bridges, Into->From bridges; virtual/unresolved trait calls
        fan out to every local impl of that trait method)."""
        if self._defgraph is not None:
            return self._defgraph
        nodes = self.inst["nodes"]
        g = defaultdict(set)
        ti = self.trait_impl_index()
        for e in self.inst["edges"]:
            a = nodes[e["a"]].get("fn")
            if a is None:
                continue
            if "b" in e:
                b = nodes[e["b"]].get("fn")
                if b is not None:
                    g[a].add(b)
            elif e["k"] in ("virtual", "unresolved"):
                for t in ti.get(e.get("trait_item"), ()):
                    g[a].add(t)
                g[a].add("ext:" + str(e.get("trait_item")))
            elif "ext_def" in e:
                g[a].add("ext:" + e["ext_def"])
            elif "ext" in e:
                g[a].add("ext:" + e["ext"])
        self._defgraph = g
        return g

    def trait_impl_index(self):
        """trait item def path -> [local fn ids implementing it] (+ the provided body)"""
        if self._trait_impl_index is None:
            ti = defaultdict(list)
            for i in self.impls:
                for it in i["items"]:
                    if "trait_item" in it and "fn" in it:
                        ti[it["trait_item"]].append(it["fn"])
            for t in self.traits:
                for it in t["items"]:
                    if "fn" in it:
                        ti[it["path"]].append(it["fn"])
            self._trait_impl_index = ti
        return self._trait_impl_index

    def reach(self, roots, stop=lambda x: False):
        """transitive closure over the def-level graph from fn ids `roots`; returns the set of
        reached items (fn ids and 'ext:…' strings)."""
        g = self.defgraph()
        seen = set()
        st = [r["id"] if isinstance(r, dict) else r for r in roots]
        while st:
            x = st.pop()
            if x in seen:
                continue
            seen.add(x)
            if isinstance(x, str) or stop(x):
                continue
            st.extend(g.get(x, ()))
        return seen

    def callers_of(self, fid):
        g = self.defgraph()
        return sorted(a for a, bs in g.items() if fid in bs)

    # ---- instance graph -----------------------------------------------------------
    def inst_nodes(self, pred):
        return [n for n in self.inst["nodes"] if pred(n)]

    def inst_reach(self, root_ids):
        adj = defaultdict(list)
        for e in self.inst["edges"]:
            if "b" in e:
                adj[e["a"]].append((e["b"], e))
        seen = {}
        st = [(r, None) for r in root_ids]
        while st:
            x, via = st.pop()
            if x in seen:
                continue
            seen[x] = via
            for b, e in adj.get(x, ()):
                if b not in seen:
                    st.append((b, x))
        return seen


def _strip_generics(s):
    out = []
    depth = 0
    for ch in s:
        if ch == "<":
            depth += 1
        elif ch == ">":
            depth -= 1
        elif depth == 0:
            out.append(ch)
    return "".join(out)


def _ty_match(actual, want):
    """suffix match on path segments; if `want` has no '<', generic args of actual are ignored"""
    if "<" not in want:
        actual = _strip_generics(actual)
    actual = actual.lstrip("&").replace("mut ", "")
    return actual == want or actual.endswith("::" + want)


# ------------------------------------------------------------------------------------
# operand / place helpers
# ------------------------------------------------------------------------------------
def op_place(op):
    if op is None:
        return None
    return op.get("cp") or op.get("mv")


def op_local(op):
    """local index if the operand is a bare local (no projection)"""
    p = op_place(op)
    if p is not None and not p.get("p"):
        return p["l"]
    return None


def op_base_local(op):
    p = op_place(op)
    return None if p is None else p["l"]


def rv_operands(rv):
    """operand dicts of an rvalue (the 'op' key of bin/un rvalues is the operator name)"""
    out = []
    for k in ("op", "a", "b"):
        v = rv.get(k)
        if isinstance(v, dict):
            out.append(v)
    out += rv.get("fields", [])
    return out


def op_const(op):
    return op.get("c") if op else None


def op_const_val(op):
    c = op_const(op)
    if c is None:
        return None
    return c.get("val")


def op_const_deep(b, op, depth=0):
    """constant value of an operand, looking through single-definition copies, int casts and arithmetic on
    constants (`1 + MAX_LEN as usize`, `SIZE - 4`): a literal and a named constant expression of the same value
    are the same thing to a rule"""
    v = op_const_val(op)
    if v is not None or depth > 8:
        return v
    pl = op_place(op)
    if pl is None:
        return None
    proj = pl.get("p") or []
    ds = b.defs().get(pl["l"], [])
    if len(ds) != 1 or ds[0][0] != "stmt" or ds[0][3]["k"] != "assign" or ds[0][3]["lhs"].get("p"):
        return None
    rv = ds[0][3]["rv"]
    if proj:
        # (a op b).0 of a checked operation
        if len(proj) == 1 and isinstance(proj[0], dict) and proj[0].get("f") == 0 and rv["k"] == "bin" and rv["op"].endswith("WithOverflow"):
            return _fold(rv["op"][:-len("WithOverflow")], op_const_deep(b, rv["a"], depth + 1), op_const_deep(b, rv["b"], depth + 1))
        return None
    if rv["k"] in ("use", "cast"):
        return op_const_deep(b, rv["op"], depth + 1)
    if rv["k"] == "bin" and not rv["op"].endswith("WithOverflow"):
        return _fold(rv["op"], op_const_deep(b, rv["a"], depth + 1), op_const_deep(b, rv["b"], depth + 1))
    return None


def _fold(op, x, y):
    if not isinstance(x, int) or not isinstance(y, int) or isinstance(x, bool) or isinstance(y, bool):
        return None
    try:
        return {"Add": x + y, "Sub": x - y, "Mul": x * y, "Shl": x << y, "Shr": x >> y, "BitAnd": x & y, "BitOr": x | y,
                "BitXor": x ^ y, "AddUnchecked": x + y, "SubUnchecked": x - y, "MulUnchecked": x * y}.get(op) if y < 256 or op not in ("Shl", "Shr") else None
    except (ValueError, OverflowError):
        return None


def upper_bound_guards(b, target, srcs):
    """the upper bounds a dominating comparison with a constant puts on a value before block `target` runs: for every
    switch that dominates `target`, tests `v < C` / `v <= C` / `C > v` / `C >= v` (or the negation on the arm that
    leaves) where the origins of v meet `srcs`, and whose other arm does not reach `target`, the largest v let
    through. Returns [(switch block, bound)]."""
    out = []
    for s in range(b.n):
        t = b.term(s)
        if t["k"] != "switch" or s == target or b.is_cleanup(s) or not b.dominates(s, target):
            continue
        l = op_local(t["op"])
        if l is None or 0 not in t["vals"]:
            continue
        false_arm = t["targets"][t["vals"].index(0)]
        true_arm = t["otherwise"]
        from_true = target in b.reachable(true_arm, avoid={s}) or true_arm == target
        from_false = target in b.reachable(false_arm, avoid={s}) or false_arm == target
        if from_true == from_false:
            continue
        for d in b.defs().get(l, []):
            if d[0] != "stmt" or d[3]["k"] != "assign" or d[3]["rv"]["k"] != "bin":
                continue
            rv = d[3]["rv"]
            op = rv["op"]
            if op not in ("Lt", "Le", "Gt", "Ge"):
                continue
            ca, cb = op_const_deep(b, rv["a"]), op_const_deep(b, rv["b"])
            if (ca is None) == (cb is None):
                continue
            v_op, c = (rv["a"], cb) if cb is not None else (rv["b"], ca)
            if not (b.origins(v_op) & srcs):
                continue
            if ca is not None:  # C op v  ==  v op' C
                op = {"Lt": "Gt", "Le": "Ge", "Gt": "Lt", "Ge": "Le"}[op]
            if not from_true:  # the target runs when the test is false
                op = {"Lt": "Ge", "Le": "Gt", "Gt": "Le", "Ge": "Lt"}[op]
            if op == "Lt":
                out.append((s, c - 1))
            elif op == "Le":
                out.append((s, c))
    return out


def tuple_field_of_call(b, op, call_blk, depth=0):
    """which field (0, 1, ..) of the tuple returned by the call ending block `call_blk` an operand is a copy / borrow /
    conversion of (`let (a, c) = x.split_at(n)`); None when it is not one of them"""
    pl = op_place(op)
    if pl is None or depth > 8:
        return None
    fs = [e["f"] for e in pl.get("p", []) if isinstance(e, dict) and "f" in e]
    dest = b.term(call_blk)["dest"]["l"]
    if pl["l"] == dest:
        return fs[0] if fs else None
    for d in b.defs().get(pl["l"], []):
        if d[0] == "stmt" and d[3]["k"] == "assign" and not d[3]["lhs"].get("p"):
            rv = d[3]["rv"]
            inner = rv["op"] if rv["k"] in ("use", "cast") else ({"cp": rv["pl"]} if rv["k"] == "ref" else None)
            if inner is not None:
                r = tuple_field_of_call(b, inner, call_blk, depth + 1)
                if r is not None:
                    return r
        elif d[0] == "call" and d[2]["args"] and call_is(d[2], r"convert::(Into|TryInto|From|TryFrom|AsRef)<.*>>::(into|try_into|from|try_from|as_ref)$", r"Result::<.*>::(unwrap|expect)$", r"ops::Deref>::deref$", r"Try>::branch$"):
            r = tuple_field_of_call(b, d[2]["args"][0], call_blk, depth + 1)
            if r is not None:
                return r
    return None


def ok_payloads(b, call_blk):
    """locals that hold the Ok value of the Result returned by the call ending block `call_blk` (through `?`, unwrap, expect)"""
    copies = b.whole_copies({b.term(call_blk)["dest"]["l"]})
    out = set()
    for i, t in b.calls(r"Try>::branch$", r"Result::<.*>::(unwrap|expect)$"):
        if not t["args"] or op_local(t["args"][0]) not in copies or t["args"][0].get("mv", t["args"][0].get("cp", {})).get("p"):
            continue
        y = t["dest"]["l"]
        if call_is(t, r"Try>::branch$"):
            for blk in b.blocks:
                for st in blk["s"]:
                    if st["k"] == "assign" and st["rv"]["k"] == "use":
                        pl = op_place(st["rv"]["op"])
                        if pl is not None and pl["l"] == y and any(isinstance(e, dict) and e.get("n") == "Continue" for e in pl.get("p", [])) and not st["lhs"].get("p"):
                            out.add(st["lhs"]["l"])
        else:
            out.add(y)
    return b.whole_copies(out) if out else out


def place_fields(pl):
    """list of field names in a place projection"""
    return [e.get("n") for e in pl.get("p", []) if isinstance(e, dict) and "f" in e]


def callee_str(t):
    c = t.get("callee") or {}
    return c.get("rpath") or c.get("path") or c.get("def") or c.get("indirect") or "?"


def callee_names(t):
    """all names under which a call terminator's callee can be matched"""
    c = t.get("callee") or {}
    return [c[k] for k in ("rpath", "rdef", "path", "def") if k in c]


def call_is(t, *pats):
    """t is a call terminator whose callee matches any of pats (regex search over
    def / path / resolved def / resolved path)"""
    if t.get("k") != "call":
        return False
    names = callee_names(t)
    for p in pats:
        for n in names:
            if re.search(p, n):
                return True
    return False


# ------------------------------------------------------------------------------------
# body: CFG, dominance, provenance
# ------------------------------------------------------------------------------------
class Body:
    def __init__(self, facts, f):
        self.F = facts
        self.f = f
        if "blocks" not in f:
            raise AnchorLost("no MIR for %s" % f["name"])
        self.blocks = f["blocks"]
        self.n = len(self.blocks)
        self.locals = f["locals"]
        self.arg_count = f["arg_count"]
        self.succ = [self._succ(b["t"], False) for b in self.blocks]
        self.succ_unwind = [self._succ(b["t"], True) for b in self.blocks]
        self.pred = [[] for _ in range(self.n)]
        for i, ss in enumerate(self.succ):
            for s in ss:
                self.pred[s].append(i)
        self._dom = None
        self._pdom = None
        self._defs = None
        self.name_of = {i: l.get("name") for i, l in enumerate(self.locals)}

    @staticmethod
    def _succ(t, unwind):
        k = t["k"]
        out = []
        if k == "goto":
            out = [t["t"]]
        elif k == "switch":
            out = list(dict.fromkeys(t["targets"] + [t["otherwise"]]))
        elif k in ("call", "drop", "assert"):
            if t.get("t") is not None:
                out = [t["t"]]
            if unwind and "unwind" in t:
                out = out + [t["unwind"]]
        return out

    def term(self, bb):
        return self.blocks[bb]["t"]

    def stmts(self, bb):
        return self.blocks[bb]["s"]

    def is_cleanup(self, bb):
        return self.blocks[bb].get("cleanup", False)

    # ---- enumeration --------------------------------------------------------------
    def calls(self, *pats, pred=None):
        """[(bb, term)] of call terminators (non-cleanup) matching any regex in pats"""
        out = []
        for i, b in enumerate(self.blocks):
            if b.get("cleanup"):
                continue
            t = b["t"]
            if t["k"] != "call":
                continue
            if pats and not call_is(t, *pats):
                continue
            if pred and not pred(t):
                continue
            out.append((i, t))
        return out

    def one_call(self, *pats, pred=None):
        r = self.calls(*pats, pred=pred)
        if len(r) != 1:
            raise AnchorLost("%s: expected exactly one call matching %s, found %d" % (self.f["name"], pats, len(r)))
        return r[0]

    def returns(self):
        return [i for i, b in enumerate(self.blocks) if b["t"]["k"] == "return"]

    def error_blocks(self):
        """blocks on the error arm of `?`: the block calling FromResidual::from_residual"""
        return {i for i, t in self.calls(r"FromResidual.*::from_residual|from_residual")}

    def err_return_blocks(self):
        """blocks that build the function's own `Err(..)` result (explicit `return Err(..)` / tail `Err(..)`)"""
        out = set()
        for i, b in enumerate(self.blocks):
            if b.get("cleanup"):
                continue
            for s in b["s"]:
                if s["k"] == "assign" and s["lhs"]["l"] == 0 and not s["lhs"].get("p") and s["rv"]["k"] == "agg" and s["rv"].get("variant") == "Err" and s["rv"].get("adt", "").endswith("Result"):
                    out.add(i)
        return out

    def panic_blocks(self):
        """blocks that diverge by an explicit panic call (no target)"""
        out = set()
        for i, b in enumerate(self.blocks):
            t = b["t"]
            if t["k"] == "call" and t.get("t") is None and not b.get("cleanup"):
                out.add(i)
        return out

    # ---- reachability / dominance -------------------------------------------------
    def reachable(self, start, avoid=(), unwind=False):
        avoid = set(avoid)
        succ = self.succ_unwind if unwind else self.succ
        seen = set()
        st = [start] if not isinstance(start, (list, set, tuple)) else list(start)
        while st:
            x = st.pop()
            if x in seen or x in avoid:
                continue
            seen.add(x)
            st.extend(succ[x])
        return seen

    def reach_after(self, bb, avoid=(), unwind=False):
        """blocks reachable from the successors of bb (bb itself only if on a cycle)"""
        succ = self.succ_unwind if unwind else self.succ
        return self.reachable(list(succ[bb]), avoid=avoid, unwind=unwind)

    def dom(self):
        if self._dom is None:
            self._dom = _dominators(self.n, 0, self.succ)
        return self._dom

    def dominates(self, a, b):
        """a dominates b (every path entry->b passes a)"""
        return a in self.dom().get(b, set())

    def set_dominates(self, S, b, start=0, avoid=()):
        """every path start->b crosses a block of S"""
        S = set(S)
        if b in S:
            return True
        return b not in self.reachable(start, avoid=S | set(avoid))

    def must_pass_before_return(self, S, start=0, avoid=(), success_only=True):
        """every path from start to a return passes through S (error arms of `?` ignored
        when success_only)"""
        av = set(avoid)
        if success_only:
            av |= self.error_blocks()
        r = self.reachable(start, avoid=set(S) | av)
        return not any(self.blocks[x]["t"]["k"] == "return" for x in r)

    def control_dep_switches(self, bb):
        """switch blocks on which bb is control dependent (approx: switch blocks that
        dominate bb and have some successor from which bb is not reachable)"""
        out = []
        for s in range(self.n):
            t = self.blocks[s]["t"]
            if t["k"] != "switch" or not self.dominates(s, bb) or s == bb:
                continue
            tg = self.succ[s]
            r = [bb in self.reachable(x, avoid={s}) for x in tg]
            if any(r) and not all(r):
                out.append(s)
        return out

    # ---- provenance ---------------------------------------------------------------
    def defs(self):
        """local -> list of defining sites: ('stmt', bb, idx, stmt) | ('call', bb, term)"""
        if self._defs is None:
            d = defaultdict(list)
            for i, b in enumerate(self.blocks):
                for j, s in enumerate(b["s"]):
                    if s["k"] in ("assign", "setdiscr"):
                        if "*" in s["lhs"].get("p", []):
                            continue  # store through a pointer: not a definition of the pointer
                        d[s["lhs"]["l"]].append(("stmt", i, j, s))
                t = b["t"]
                if t["k"] == "call":
                    d[t["dest"]["l"]].append(("call", i, t))
            self._defs = d
        return self._defs

    def origins(self, op_or_local, through_calls=True, max_nodes=4000, stop_call=None, mut_ref_args=False, blocks=None):
        """Flow-insensitive backward slice (field-sensitive for values destructured from a tuple /
        struct aggregate: `_t = (a, b); x = _t.1` follows only `b`). Returns a set of origin tuples:
             ('param', i)        function parameter i (1-based local index)
             ('const', repr)     constant (val or cdef)
             ('call', bb)        result of the call in block bb
             ('field', name)     a field projection read on the way (informational)
             ('local', l)        a local with no definition (e.g. upvar/arg)
           With through_calls the slice continues through call arguments.
           With mut_ref_args, a local whose `&mut` is passed to a call also derives from that call.
           With blocks, only definitions located in those blocks are considered."""
        out = set()
        seen = set()
        st = []

        def field_path(p):
            """the field indices of a place's projections, outermost first (derefs and downcasts do not count)"""
            return tuple(e["f"] for e in p.get("p", []) if isinstance(e, dict) and "f" in e)

        def push_place(p, rest=(), okp=False):
            fp = field_path(p)
            st.append((p["l"], fp + tuple(rest), okp and not fp))
            for e in p.get("p", []):
                if isinstance(e, dict) and "f" in e and e.get("n"):
                    out.add(("field", e["n"]))
                if isinstance(e, dict) and "idx" in e:
                    st.append((e["idx"], (), False))

        def push_op(op, rest=(), okp=False):
            p = op_place(op)
            if p is not None:
                push_place(p, rest, okp)
            else:
                c = op_const(op)
                if c is not None:
                    if "val" in c:
                        out.add(("const", c["val"]))
                    elif "cdef" in c:
                        out.add(("const", c["cdef"]))
                    elif "fn" in c:
                        out.add(("const", "fn:" + c["fn"]))
                    else:
                        out.add(("const", c.get("ty")))

        if isinstance(op_or_local, int):
            st.append((op_or_local, (), False))
        else:
            push_op(op_or_local)
        defs = self.defs()
        mutref = self._mutref_calls() if mut_ref_args else {}
        while st and len(seen) < max_nodes:
            # okp: the value read is the payload of the Ok / Some that a `?` let through -- a definition that builds the
            # residual (from_residual, an Err / None / Break aggregate) is not where it comes from
            l, path, okp = st.pop()
            path = path[:4]
            if (l, path, okp) in seen:
                continue
            seen.add((l, path, okp))
            if 1 <= l <= self.arg_count:
                out.add(("param", l))
            ds = defs.get(l, [])
            if blocks is not None:
                ds = [d for d in ds if d[1] in blocks]
            if not ds and not (1 <= l <= self.arg_count):
                out.add(("local", l))
            for d in ds:
                if d[0] == "call":
                    _, bb, t = d
                    if okp and call_is(t, r"FromResidual<.*>>::from_residual$"):
                        continue
                    out.add(("call", bb))
                    if through_calls and not (stop_call and stop_call(t)):
                        # `x?`: the payload of Continue(v) is the payload of the Ok(v) / Some(v) that was branched on
                        keep = path if (path and t["args"] and call_is(t, r"Try>::branch$")) else ()
                        for a in t["args"]:
                            push_op(a, keep, bool(keep))
                        # accessor summaries: fields of the receiver that the (crate-local) callee's result is read from
                        for n in self.F.ret_fields(t):
                            out.add(("field", n))
                else:
                    _, bb, j, s = d
                    if s["k"] != "assign":
                        continue
                    lp = field_path(s["lhs"])
                    rest = path
                    if lp:
                        # assignment to a part of this local: relevant when it is the part read, or contains / is contained in it
                        n = min(len(lp), len(path))
                        if lp[:n] != path[:n]:
                            continue
                        rest = path[len(lp):]
                    rv = s["rv"]
                    k = rv["k"]
                    if k == "agg":
                        if okp and not lp and rv.get("variant") in ("Err", "None", "Break"):
                            continue
                        if rv.get("ak") == "adt" and not rv["fields"] and rv.get("variant") and not rest:
                            out.add(("variant", "%s::%s" % (rv.get("adt"), rv["variant"])))
                        if rest and rest[0] < len(rv["fields"]) and rv["ak"] in ("tuple", "adt", "closure"):
                            push_op(rv["fields"][rest[0]], rest[1:])
                        elif rest and rv["ak"] in ("tuple", "adt"):
                            pass    # the variant built here has no such field: not the value read
                        else:
                            for fop in rv["fields"]:
                                push_op(fop)
                    elif k in ("use", "cast"):
                        for o in rv_operands(rv):
                            push_op(o, rest if k == "use" else (), okp and k == "use" and not lp)
                    elif k in ("un", "repeat", "bin"):
                        for o in rv_operands(rv):
                            push_op(o)
                    elif k in ("ref", "rawptr"):
                        push_place(rv["pl"], rest, okp and not lp)
                    elif k == "discr":
                        push_place(rv["pl"])
            for bb in mutref.get(l, ()):
                out.add(("call", bb))
                if through_calls:
                    for a in self.blocks[bb]["t"]["args"]:
                        push_op(a)
        return out

    def F_enum_variants(self, rv):
        """variants of the ADT built by an aggregate rvalue (1 for structs)"""
        for e in self.F.enums:
            if e["path"] == rv.get("adt"):
                return e["variants"]
        return [None]

    def _mutref_calls(self):
        """local -> [bb of calls that receive a &mut to it (through one temp)]"""
        if hasattr(self, "_mr"):
            return self._mr
        reft = {}
        for i, b in enumerate(self.blocks):
            for s in b["s"]:
                if s["k"] == "assign" and s["rv"]["k"] == "ref" and s["rv"]["bk"] == "mut" and not s["lhs"].get("p"):
                    reft.setdefault(s["lhs"]["l"], set()).add(s["rv"]["pl"]["l"])
        # reborrows of reborrows
        changed = True
        while changed:
            changed = False
            for i, b in enumerate(self.blocks):
                for s in b["s"]:
                    if s["k"] == "assign" and s["rv"]["k"] == "ref" and s["rv"]["bk"] == "mut" and not s["lhs"].get("p"):
                        src = s["rv"]["pl"]["l"]
                        if src in reft:
                            before = len(reft.setdefault(s["lhs"]["l"], set()))
                            reft[s["lhs"]["l"]] |= reft[src]
                            if len(reft[s["lhs"]["l"]]) != before:
                                changed = True
        mr = defaultdict(set)
        for i, b in enumerate(self.blocks):
            t = b["t"]
            if t["k"] == "call":
                for a in t["args"]:
                    l = op_local(a)
                    if l is not None and l in reft:
                        for tgt in reft[l]:
                            mr[tgt].add(i)
        self._mr = mr
        return mr

    def origin_calls(self, op_or_local, **kw):
        """[(bb, term)] of the calls the operand derives from"""
        return [(o[1], self.blocks[o[1]]["t"]) for o in sorted(x for x in self.origins(op_or_local, **kw) if x[0] == "call")]

    def derives_from_call(self, op_or_local, *pats, **kw):
        return any(call_is(t, *pats) for _, t in self.origin_calls(op_or_local, **kw))

    def uses_of(self, local):
        """sites reading `local`: [('stmt'|'term', bb, idx|None)]"""
        out = []

        def has(op):
            p = op_place(op)
            return p is not None and (p["l"] == local or any(isinstance(e, dict) and e.get("idx") == local for e in p.get("p", [])))

        for i, b in enumerate(self.blocks):
            for j, s in enumerate(b["s"]):
                if s["k"] != "assign":
                    continue
                rv = s["rv"]
                ops = rv_operands(rv)
                hit = any(has(o) for o in ops)
                if "pl" in rv and rv["pl"]["l"] == local:
                    hit = True
                if hit:
                    out.append(("stmt", i, j))
            t = b["t"]
            ops = []
            if t["k"] == "call":
                ops = list(t["args"]) + [t["func"]]
            elif t["k"] == "switch":
                ops = [t["op"]]
            elif t["k"] == "assert":
                ops = [t["cond"]]
            if any(has(o) for o in ops):
                out.append(("term", i, None))
            if t["k"] == "drop" and t["pl"]["l"] == local:
                out.append(("drop", i, None))
        return out

    def forward_locals(self, start_locals, through_calls=True):
        """flow-insensitive forward taint: set of locals that may carry data derived from
        start_locals (assignments, refs, aggregates, call results when an arg is tainted)."""
        taint = set(start_locals)
        changed = True
        while changed:
            changed = False
            for i, b in enumerate(self.blocks):
                for s in b["s"]:
                    if s["k"] != "assign":
                        continue
                    rv = s["rv"]
                    srcs = []
                    for o in rv_operands(rv):
                        bl = op_base_local(o)
                        if bl is not None:
                            srcs.append(bl)
                    if "pl" in rv:
                        srcs.append(rv["pl"]["l"])
                    if any(x in taint for x in srcs) and s["lhs"]["l"] not in taint:
                        taint.add(s["lhs"]["l"])
                        changed = True
                t = b["t"]
                if t["k"] == "call" and through_calls:
                    if any(op_base_local(a) in taint for a in t["args"]) and t["dest"]["l"] not in taint:
                        taint.add(t["dest"]["l"])
                        changed = True
        return taint

    def switch_on(self, bb):
        """for a switch block: (origins of the discriminant, vals, targets, otherwise)"""
        t = self.blocks[bb]["t"]
        return (self.origins(t["op"]), t["vals"], t["targets"], t["otherwise"])

    # ---- conditional constant propagation ---------------------------------------------
    def explore(self, assume_locals=None, assume_discr=None, assume_calls=None, start=0, avoid=(), max_states=60000, assume_fields=None, watch=None):
        """Path-sensitive conditional constant propagation under assumptions (a classic dataflow analysis, made
        path-sensitive by keeping one abstract environment per path instead of joining): returns (blocks reachable,
        edges taken). `assume_locals` {local: bool|int} fixes parameters; `assume_discr` {regex on the enum path:
        discriminant} fixes every `discriminant(place)` of that enum type; `assume_calls` {regex on the callee:
        value} fixes the result of such calls. Only scalar locals assigned from constants, copies, `!`, comparisons
        and `&`/`|` of known values are tracked; anything else is unknown (both arms are followed). A local whose
        address is taken mutably is never tracked. Falls back to plain reachability beyond max_states."""
        assume_locals = dict(assume_locals or {})
        assume_discr = assume_discr or {}
        assume_calls = assume_calls or {}
        assume_fields = assume_fields or {}     # {field name: value}: every read of a place ending in that field
        escaped = set()
        for blk in self.blocks:
            for st in blk["s"]:
                if st["k"] == "assign" and st["rv"]["k"] in ("ref", "addr_of", "rawptr") and st["rv"].get("bk", "mut") != "shared" and not st["rv"]["pl"].get("p"):
                    escaped.add(st["rv"]["pl"]["l"])
        avoid = set(avoid)
        # only the locals that can influence a branch are tracked (backward slice of the switch operands through
        # copies, operators, aggregates, projections and `?`): keeps the number of distinct environments small
        relevant = set()
        work_l = []
        for blk in self.blocks:
            if blk["t"]["k"] == "switch":
                pl = op_place(blk["t"]["op"])
                if pl is not None:
                    work_l.append(pl["l"])
        dd = self.defs()
        while work_l:
            l = work_l.pop()
            if l in relevant:
                continue
            relevant.add(l)
            for d in dd.get(l, []):
                if d[0] == "stmt" and d[3]["k"] == "assign":
                    rv = d[3]["rv"]
                    ops = list(rv_operands(rv)) + list(rv.get("fields", []) if rv["k"] == "agg" else [])
                    for o in ops:
                        pl = op_place(o) if isinstance(o, dict) else None
                        if pl is not None:
                            work_l.append(pl["l"])
                    if rv["k"] in ("discr", "ref") and "pl" in rv:
                        work_l.append(rv["pl"]["l"])
                elif d[0] == "call" and call_is(d[2], r"Try>::branch$") and d[2]["args"]:
                    pl = op_place(d[2]["args"][0])
                    if pl is not None:
                        work_l.append(pl["l"])

        def val(op, env):
            c = op_const(op)
            if c is not None:
                v = c.get("val")
                return v if isinstance(v, (bool, int)) else None
            pl = op_place(op)
            if pl is None:
                return None
            if assume_fields and pl.get("p"):
                last = pl["p"][-1]
                if isinstance(last, dict) and last.get("n") in assume_fields:
                    return assume_fields[last["n"]]
            v = env.get(pl["l"])
            for e in pl.get("p") or []:
                # payload of a known aggregate: (x as Variant).i / x.i
                if isinstance(e, dict) and "down" in e:
                    if not (isinstance(v, tuple) and v[0] == "agg" and v[1] == e["down"]):
                        return None
                    continue
                if isinstance(e, dict) and "f" in e and isinstance(v, tuple) and v[0] == "agg" and e["f"] < len(v[2]):
                    v = v[2][e["f"]]
                    continue
                return None
            return v

        def ev(rv, env):
            k = rv["k"]
            if k == "use":
                return val(rv["op"], env)
            if k == "cast":
                v = val(rv["op"], env)
                return int(v) if isinstance(v, (bool, int)) and not isinstance(v, bool) else (int(v) if isinstance(v, bool) else None)
            if k == "un":
                v = val(rv["a"], env)
                if rv.get("op") == "Not" and isinstance(v, bool):
                    return not v
                return None
            if k == "bin":
                a, b_ = val(rv["a"], env), val(rv["b"], env)
                op = rv["op"]
                if a is None or b_ is None:
                    # short circuits of & and |
                    for x in (a, b_):
                        if op == "BitAnd" and x is False:
                            return False
                        if op == "BitOr" and x is True:
                            return True
                    return None
                if op.endswith("WithOverflow") and isinstance(a, int) and isinstance(b_, int) and not isinstance(a, bool):
                    r = {"Add": a + b_, "Sub": a - b_, "Mul": a * b_}.get(op[:-len("WithOverflow")])
                    return ("agg", 0, (r, r is not None and r < 0)) if r is not None else None
                if op in ("Add", "Sub", "Mul", "AddUnchecked", "SubUnchecked") and isinstance(a, int) and isinstance(b_, int) and not isinstance(a, bool):
                    return {"Add": a + b_, "Sub": a - b_, "Mul": a * b_, "AddUnchecked": a + b_, "SubUnchecked": a - b_}[op]
                try:
                    return {"Eq": a == b_, "Ne": a != b_, "Lt": a < b_, "Le": a <= b_, "Gt": a > b_, "Ge": a >= b_,
                            "BitAnd": (a and b_) if isinstance(a, bool) else (a & b_), "BitOr": (a or b_) if isinstance(a, bool) else (a | b_),
                            "BitXor": (a != b_) if isinstance(a, bool) else (a ^ b_)}.get(op)
                except TypeError:
                    return None
            if k == "discr":
                of = rv.get("of", "")
                for pat, v in assume_discr.items():
                    if re.search(pat, of):
                        return v
                v = val({"cp": rv["pl"]}, env)
                if isinstance(v, tuple) and v[0] == "agg":
                    return v[1]
                return None
            if k == "agg" and rv.get("ak") == "adt" and "variant_idx" in rv:
                # Result / Option / ControlFlow and the crate's own enums (a route or a strategy chosen in one place
                # and matched on in another); `discriminant(x)` of such a value is its declared discriminant
                return ("agg", self._discr_of(rv), tuple(val(f, env) for f in rv["fields"]))
            if k == "agg" and rv.get("ak") == "tuple":
                return ("agg", 0, tuple(val(f, env) for f in rv["fields"]))
            return None

        seen = set()
        reach, edges = set(), set()
        self.watched = {}
        if watch:
            for wb, k_ in watch.items():
                pl = op_place(self.blocks[wb]["t"]["args"][k_]) if k_ < len(self.blocks[wb]["t"].get("args", [])) else None
                if pl is not None:
                    work_l.append(pl["l"])
            while work_l:
                l = work_l.pop()
                if l in relevant:
                    continue
                relevant.add(l)
                for d in dd.get(l, []):
                    if d[0] == "stmt" and d[3]["k"] == "assign":
                        rv = d[3]["rv"]
                        for o in list(rv_operands(rv)) + list(rv.get("fields", []) if rv["k"] == "agg" else []):
                            pl = op_place(o) if isinstance(o, dict) else None
                            if pl is not None:
                                work_l.append(pl["l"])
                    elif d[0] == "call":
                        for o in d[2]["args"]:
                            pl = op_place(o)
                            if pl is not None:
                                work_l.append(pl["l"])
        relevant |= set(assume_locals)
        work = [(start, tuple(sorted((l, v) for l, v in assume_locals.items() if l not in escaped)))]
        while work:
            if len(seen) > max_states:
                r = self.reachable(start, avoid=avoid)
                return r, {(x, y) for x in r for y in self.succ[x] if y in r}
            bb, envt = work.pop()
            if (bb, envt) in seen or bb in avoid:
                continue
            seen.add((bb, envt))
            reach.add(bb)
            env = dict(envt)
            blk = self.blocks[bb]
            for st in blk["s"]:
                if st["k"] not in ("assign", "setdiscr"):
                    continue
                l = st["lhs"]["l"]
                if st["lhs"].get("p") or st["k"] == "setdiscr" or l in escaped:
                    if not (st["lhs"].get("p") and "*" in st["lhs"]["p"]):
                        env.pop(l, None)
                    continue
                v = ev(st["rv"], env) if l in relevant else None
                if v is None:
                    env.pop(l, None)
                else:
                    env[l] = v
            t = blk["t"]
            k = t["k"]
            nxt = []
            if k == "switch":
                v = val(t["op"], env)
                if v is not None:
                    iv = int(v)
                    nxt = [t["targets"][t["vals"].index(iv)]] if iv in t["vals"] else [t["otherwise"]]
                else:
                    nxt = list(self.succ[bb])
            elif k == "call":
                d = t["dest"]
                env0 = dict(env)
                if watch and bb in watch and watch[bb] < len(t["args"]):
                    # the values an argument of this call takes on the explored paths (None = not a known constant)
                    self.watched.setdefault(bb, set()).add(val(t["args"][watch[bb]], env0))
                if not d.get("p"):
                    env.pop(d["l"], None)
                    for pat, v in assume_calls.items():
                        if ((pat == bb) if isinstance(pat, int) else call_is(t, pat)) and d["l"] not in escaped:
                            env[d["l"]] = v
                    # `?` on a known Result / Option: Ok(v) | Some(v) -> Continue(v), Err | None -> Break
                    if call_is(t, r"Try>::branch$") and len(t["args"]) == 1 and d["l"] not in escaped:
                        a = val(t["args"][0], env0)
                        if isinstance(a, tuple) and a[0] == "agg":
                            is_res = "Result<" in callee_str(t).split(" as ")[0]
                            good = (a[1] == 0) if is_res else (a[1] == 1)
                            env[d["l"]] = ("agg", 0, (a[2][0] if a[2] else None,)) if good else ("agg", 1, (None,))
                nxt = list(self.succ[bb])
            else:
                nxt = list(self.succ[bb])
            e2 = tuple(sorted(env.items()))
            for y in nxt:
                edges.add((bb, y))
                work.append((y, e2))
        return reach, edges

    def variant_comparisons(self, enum_re):
        """[(block, variant name, is_ne)] for the calls `<E as PartialEq>::eq/ne(&x, &E::Variant)` of this body, E matching
        enum_re: the constant side is a promoted constant in MIR, its variant is read from the source expression
        (`x != E::Variant`) at the same line"""
        out = []
        nodes = None
        for i, t in self.calls(r"cmp::PartialEq>::(eq|ne)$"):
            c = t.get("callee") or {}
            if not re.search(enum_re, str(c.get("self_ty") or "")):
                continue
            if nodes is None:
                nodes = [n for n in hir_walk(self.F.tree(self.f)) if n.get("k") == "binop" and n.get("op") in ("Eq", "Ne")]
                for nm in self.F.inlined.get(self.f["name"], []):
                    for g in self.F.fns:
                        if g["name"] == nm:
                            nodes += [n for n in hir_walk(self.F.tree(g)) if n.get("k") == "binop" and n.get("op") in ("Eq", "Ne")]
            for n in nodes:
                if n.get("ln") != t.get("ln") or not re.search(enum_re, str((n.get("callee") or {}).get("self_ty") or "")):
                    continue
                for side in (n.get("b") or {}, n.get("a") or {}):
                    m = re.search(r"(?:^|::)([A-Z]\w*)::([A-Z]\w*)$", side.get("nx") or "")
                    if m:
                        out.append((i, m.group(2), n["op"] == "Ne"))
                        break
                else:
                    continue
                break
        return out

    def whole_copies(self, seed):
        """locals holding the same value as the seeds: plain moves / copies / borrows of the WHOLE local (a value built
        from a part of it -- a payload, a field -- is another value)"""
        tl = set(seed)
        changed = True
        while changed:
            changed = False
            for blk in self.blocks:
                for s in blk["s"]:
                    if s["k"] == "assign" and not s["lhs"].get("p") and s["lhs"]["l"] not in tl:
                        rv = s["rv"]
                        src = op_place(rv["op"]) if rv["k"] == "use" else (rv["pl"] if rv["k"] == "ref" else None)
                        if src is not None and src["l"] in tl and not [e for e in src.get("p", []) if e != "*"]:
                            tl.add(s["lhs"]["l"])
                            changed = True
        return tl

    def _discr_of(self, rv):
        """declared discriminant of the variant built by an aggregate rvalue (variant index when not an enum of the crate)"""
        for e in self.F.enums:
            if e["path"] == rv.get("adt"):
                for v in e["variants"]:
                    if v["name"] == rv.get("variant"):
                        return v["discr"]
        return rv["variant_idx"]

    def local_named(self, name):
        r = [i for i, l in enumerate(self.locals) if l.get("name") == name]
        return r

    def ln(self, bb):
        return self.blocks[bb]["t"].get("ln")


def _dominators(n, entry, succ):
    pred = [[] for _ in range(n)]
    for i, ss in enumerate(succ):
        for s in ss:
            pred[s].append(i)
    # reachable set
    seen = set()
    st = [entry]
    order = []
    while st:
        x = st.pop()
        if x in seen:
            continue
        seen.add(x)
        order.append(x)
        st.extend(succ[x])
    allb = set(seen)
    dom = {x: set(allb) for x in seen}
    dom[entry] = {entry}
    changed = True
    while changed:
        changed = False
        for x in order:
            if x == entry:
                continue
            ps = [p for p in pred[x] if p in seen]
            if not ps:
                continue
            new = set.intersection(*(dom[p] for p in ps)) | {x}
            if new != dom[x]:
                dom[x] = new
                changed = True
    return dom


# ------------------------------------------------------------------------------------
# HIR tree helpers
# ------------------------------------------------------------------------------------
def hir_walk(nodes, enter_closures=True):
    """pre-order generator over all nodes of a HIR call tree in evaluation order
    (children before the call that consumes them)."""
    for n in nodes:
        k = n.get("k")
        if k == "call":
            yield from hir_walk(n.get("sub", []), enter_closures)
            yield n
        elif k == "match":
            yield from hir_walk(n.get("pre", []), enter_closures)
            yield n
            for a in n["arms"]:
                yield from hir_walk(a.get("guard", []), enter_closures)
                yield from hir_walk(a["body"], enter_closures)
        elif k == "if":
            yield from hir_walk(n.get("pre", []), enter_closures)
            yield n
            yield from hir_walk(n["then"], enter_closures)
            yield from hir_walk(n["else"], enter_closures)
        elif k == "loop":
            yield from hir_walk(n.get("pre", []), enter_closures)
            yield n
            yield from hir_walk(n["body"], enter_closures)
        elif k == "closure":
            yield n
            if enter_closures:
                yield from hir_walk(n["body"], enter_closures)
        else:
            yield from hir_walk(n.get("sub", []), enter_closures)
            yield n


def hir_calls(nodes, *pats, enter_closures=True):
    out = []
    for n in hir_walk(nodes, enter_closures):
        if n.get("k") == "call" and hcall_is(n, *pats):
            out.append(n)
    return out


def hcall_names(n):
    c = n.get("callee") or {}
    return [c[k] for k in ("rpath", "rdef", "path", "def", "ctor", "local", "expr") if k in c]


def hcall_is(n, *pats):
    if n.get("k") != "call":
        return False
    if not pats:
        return True
    for p in pats:
        for nm in hcall_names(n):
            if re.search(p, nm):
                return True
    return False


def hcall_str(n):
    c = n.get("callee") or {}
    return c.get("rpath") or c.get("path") or c.get("ctor") or c.get("local") or c.get("expr") or "?"
