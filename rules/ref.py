"""E3 — the frozen v0.2 on-disk format reference (/verif/format/reference_v0_2.json) and the
table that says which writer/reader functions implement each structure."""
import json, os
import layout
from lib import AnchorLost

VERIF = os.path.dirname(os.path.dirname(os.path.abspath(__file__)))
with open(os.path.join(VERIF, "format", "reference_v0_2.json")) as _f:
    REF = json.load(_f)


def _m(impl_self, item, trait):
    return dict(impl_self=impl_self, item=item, trait=trait, closure=False)


def S(t):
    return _m(t, "serialize", "Serializable")


def P(t):
    return _m(t, "parse", "Parsable")


# structure name -> (writer locator | None, reader locator | None)
STRUCTS = {
    "PackHeader": (S("PackHeader"), P("PackHeader")),
    "FullPackKind": (S("FullPackKind"), P("FullPackKind")),
    "PackKind": (S("PackKind"), P("PackKind")),
    "ContainerPackHeader": (S("ContainerPackHeader"), P("ContainerPackHeader")),
    "ContentPackHeader": (S("ContentPackHeader"), P("ContentPackHeader")),
    "DirectoryPackHeader": (S("DirectoryPackHeader"), P("DirectoryPackHeader")),
    "ManifestPackHeader": (S("ManifestPackHeader"), P("ManifestPackHeader")),
    "ClusterHeader": (S("ClusterHeader"), P("ClusterHeader")),
    "PackInfo": (S("PackInfo"), P("PackInfo")),
    "PackLocator": (S("PackLocator"), P("PackLocator")),
    "ContentInfo": (S("ContentInfo"), P("ContentInfo")),
    "SizedOffset": (S("SizedOffset"), P("SizedOffset")),
    "CheckInfo": (S("CheckInfo"), P("CheckInfo")),
    "CheckKind": (S("CheckKind"), P("CheckKind")),
    "Size": (S("Size"), P("Size")),
    "Offset": (S("Offset"), P("Offset")),
    "Count<u8>": (S("Count<u8>"), P("Count<u8>")),
    "Count<u16>": (S("Count<u16>"), P("Count<u16>")),
    "Count<u32>": (S("Count<u32>"), P("Count<u32>")),
    "Count<u64>": (S("Count<u64>"), P("Count<u64>")),
    "Idx<u8>": (S("Idx<u8>"), P("Idx<u8>")),
    "Idx<u16>": (None, P("Idx<u16>")),
    "Idx<u32>": (S("Idx<u32>"), P("Idx<u32>")),
    "Idx<u64>": (None, P("Idx<u64>")),
    "Id<u8>": (S("Id<u8>"), P("Id<u8>")),
    "Id<u16>": (S("Id<u16>"), P("Id<u16>")),
    "Id<u32>": (S("Id<u32>"), None),
    "ByteSize": (S("ByteSize"), P("ByteSize")),
    "FreeData": (S("FreeData"), P("FreeData")),
    "VendorId": (S("VendorId"), P("VendorId")),
    "Uuid": (S("uuid::Uuid"), P("uuid::Uuid")),
    "CompressionType": (S("CompressionType"), P("CompressionType")),
    "Blake3Hash": (None, P("blake3::Hash")),
    "PString": (dict(impl_self="PArray", item="serialize_string", closure=False), P("PArray<std::string::String>")),
    "PBytes": (None, P("PArray<bases::types::small_bytes::SmallBytes>")),
    "ClusterTail": (dict(regex=r"clusterwriter::serialize_cluster_tail$"), P("ClusterBuilder")),
    "IndexTail": (_m("creator::directory_pack::Index", "serialize_tail", "WritableTell"), P("IndexHeader")),
    "EntryStoreTail": (_m("FinalEntryStore", "serialize_tail", "WritableTell"), P("EntryStoreBuilder")),
    "EntryLayout": (S("layout::entry::Entry"), P("reader::directory_pack::layout::Layout")),
    "PropertyDef": (S("layout::property::Property"), P("RawProperty")),
    "PlainValueStoreTail": (_m("PlainValueStore", "serialize_tail", "WritableTell"), None),
    "IndexedValueStoreTail": (_m("IndexedValueStore", "serialize_tail", "WritableTell"), None),
    "EntryEncode": (dict(impl_self="layout::properties::Properties", item="serialize_entry", closure=False), None),
    "ArrayDecode": (None, _m("builder::property::ArrayProperty", "create", "PropertyBuilderTrait")),
    "ContentDecode": (None, _m("builder::property::ContentProperty", "create", "PropertyBuilderTrait")),
    "IntDecode": (None, _m("builder::property::IntProperty", "create", "PropertyBuilderTrait")),
    "SignedDecode": (None, _m("builder::property::SignedProperty", "create", "PropertyBuilderTrait")),
    "VariantIdDecode": (None, _m("builder::property::VariantIdProperty", "create", "PropertyBuilderTrait")),
    "ValueStoreTail": (_m("creator::directory_pack::value_store::ValueStore", "serialize_tail", "WritableTell"), P("ValueStoreBuilder")),
}


def locate(F, loc):
    return F.one(**loc)


def extracted(F, name):
    """(writer canonical layout | None, reader canonical layout | None, writer fn, reader fn)"""
    w, r = STRUCTS[name]
    wf = locate(F, w) if w else None
    rf = locate(F, r) if r else None
    wl = layout.fn_layout(F, wf) if wf else None
    rl = layout.fn_layout(F, rf) if rf else None
    return wl, rl, wf, rf


def ref_layout(name, side):
    e = REF["structures"].get(name)
    if e is None or e.get(side) is None:
        return None
    return layout.subsume(layout.from_json(e[side]))
