"""G5 — on-disk layout extraction from the HIR call trees.

A layout is a *set of paths*; a path is a tuple of atoms in write/read order:
   ("u", n)            fixed little-endian unsigned of n bytes (write_uN / read_uN)
   ("usized", k)       low k bytes of a u64, k a variable key
   ("isized", k)       two's complement in k bytes
   ("bytes", n|k)      raw bytes (write_data / read_data / read_slice / skip), fixed or variable
   ("pstr_padded", n)  length byte + n bytes holding the string, zero padded (idiom)
   ("loop", frozenset(paths))
   ("dyn", what)       call through a trait object / type parameter that could not be resolved
Variable keys are renamed $1, $2… in order of first appearance so that two layouts agree iff
they use *the same variable in the same places*, whatever its name.
Every local callee is inlined (memoised), so helper functions, wrappers and closures are
transparent; error paths (`Err(..)` / `?` failing arm) are not layouts and are dropped."""
import re
from lib import AnchorLost, hcall_is, hcall_str, hir_walk

MAX_PATHS = 6000

W_FIXED = {"write_u8": 1, "write_u16": 2, "write_u32": 4, "write_u64": 8}
R_FIXED = {"read_u8": 1, "read_u16": 2, "read_u32": 4, "read_u64": 8,
           "read_i8": 1, "read_i16": 2, "read_i32": 4, "read_i64": 8}


def _norm_key(s):
    s = re.sub(r"\s+", "", s or "")
    for _ in range(4):
        s = re.sub(r"^(&mut|&|\*)", "", s)
        s = re.sub(r"^\((.*)\)$", r"\1", s) if s.count("(") == 1 and s.endswith(")") and s.startswith("(") else s
        s = re.sub(r"(asusize|asu64|asu8|asu16|asu32|\.into\(\))$", "", s)
    return s


def _x(arg):
    """the expression of an argument in canonical form (constants folded, immutable lets substituted, casts and
    borrows dropped: driver `nx`), else its source text"""
    return arg.get("nx") or arg.get("snip", "")


def _bytes_len(arg, node):
    """length of a byte-slice argument: int when the type says so, else a variable key"""
    for ty in (arg.get("ty0", ""), arg.get("ty", "")):
        m = re.search(r"\[u8; (\w+)\]", ty)
        if m:
            return int(m.group(1)) if m.group(1).isdigit() else m.group(1)
    snip = arg.get("snip", "")
    # x.as_slice() / as_mut_slice() / as_ref() / as_bytes(): look at the receiver of the last sub call
    for sub in reversed(node.get("sub", [])):
        if sub.get("k") == "call" and sub.get("recv") and re.search(r"as_(mut_)?slice|as_ref|as_bytes|deref", hcall_str(sub)):
            m = re.search(r"\[u8; (\w+)\]", sub["recv"].get("ty", ""))
            if m and sub["recv"].get("snip", "") in snip:
                return int(m.group(1)) if m.group(1).isdigit() else m.group(1)
            break
    m = re.search(r"\[\.\.(.+)\]$", re.sub(r"\s+", "", snip))
    if m:
        return "var:" + _norm_key(m.group(1))
    return "var:" + _norm_key(_x(arg))


class Lay:
    def __init__(self, F):
        self.F = F
        self.memo = {}
        self.stack = []

    # -------- path algebra
    @staticmethod
    def _seq(cur, nxt):
        out = set()
        for (s, t) in cur:
            if t:
                out.add((s, t))
                continue
            for (s2, t2) in nxt:
                out.add((s + s2, t2))
        if len(out) > MAX_PATHS:
            raise AnchorLost("layout extraction: more than %d paths (unsupported construct)" % MAX_PATHS)
        return out

    def nodes(self, ns, env):
        cur = {((), None)}
        for n in ns:
            cur = self._seq(cur, self.node(n, env))
        return cur

    def node(self, n, env):
        k = n.get("k")
        if k == "call":
            c = n.get("callee") or {}
            if re.search(r"^std::iter::Iterator::(map|for_each|try_for_each|filter_map|flat_map|map_while|inspect|fold|try_fold|find_map|any|all|scan)$", c.get("def", "")):
                # `iter.map(|x| BODY)…`: the closure runs once per element -- a loop over BODY, like `for x in iter { BODY }`
                cur = {((), None)}
                for sn in n.get("sub", []):
                    if sn.get("k") == "closure":
                        body = self.nodes(sn["body"], env)
                        seqs = {s_ for (s_, t_) in body if t_ != "abort"}
                        if any(seqs - {()}):
                            cur = self._seq(cur, {((("loop", frozenset(seqs - {()})),), None)})
                    else:
                        cur = self._seq(cur, self.node(sn, env))
                return cur
            if re.search(r"^std::option::Option::<.*>::(map|and_then|map_or|map_or_else|inspect|filter|is_some_and|is_none_or)$|^std::option::Option::<T>::(map|and_then|map_or|map_or_else|inspect|filter)$", c.get("def", "")):
                # `opt.map(|x| BODY)`: BODY runs when the option is Some, not at all when it is None -- like `if let Some(x) = opt { BODY }`
                cur = {((), None)}
                for sn in n.get("sub", []):
                    if sn.get("k") == "closure":
                        body = self.nodes(sn["body"], env)
                        cur = self._seq(cur, body | {((), None)})
                    else:
                        cur = self._seq(cur, self.node(sn, env))
                return cur
            self._consumed = False
            callp = self.call(n, env)
            consumed = self._consumed
            self._consumed = False
            # a closure handed to a local helper that calls it (`write_key_type(.., |ser, d| ..)`) runs inside the helper, where
            # the helper calls it -- not at the point where it is written
            subs = [sn for sn in n.get("sub", []) if not (consumed and sn.get("k") == "closure")]
            cur = self.nodes(subs, env)
            return self._seq(cur, callp)
        if k == "match":
            cur = self.nodes(n.get("pre", []), env)
            alts = set()
            for a in n["arms"]:
                alts |= self._seq(self.nodes(a.get("guard", []), env), self.nodes(a["body"], env))
            return self._seq(cur, alts or {((), None)})
        if k == "if":
            cur = self.nodes(n.get("pre", []), env)
            alts = self.nodes(n["then"], env) | self.nodes(n["else"], env)
            return self._seq(cur, alts)
        if k == "loop":
            cur = self.nodes(n.get("pre", []), env)
            body = self.nodes(n["body"], env)
            seqs = {s for (s, t) in body if t != "abort"}
            if any(seqs - {()}):
                seqs = seqs - {()}
                return self._seq(cur, {((("loop", frozenset(seqs)),), None)})
            return cur
        if k == "closure":
            return self.nodes(n["body"], env)
        if k == "ret":
            cur = self.nodes(n.get("sub", []), env)
            v = (n.get("value") or {}).get("snip", "")
            term = "abort" if v.startswith("Err") else "ret"
            return {(s, t or term) for (s, t) in cur}
        if k in ("break", "continue"):
            return {((), k)}
        if k == "try":
            return {((), None)}
        return self.nodes(n.get("sub", []), env)

    def call(self, n, env):
        c = n.get("callee") or {}
        name = c.get("method") or (c.get("def") or "").split("::")[-1]
        d = c.get("def", "")
        args = n.get("args", [])
        # ---- writer leaves (inherent methods of Serializer)
        if (c.get("impl_self", "").endswith("Serializer") or "Serializer::" in c.get("path", "")) and c.get("krate") == "jubako":
            if name in W_FIXED:
                return {((("u", W_FIXED[name]),), None)}
            if name == "write_usized":
                return {((("usized", "var:" + _norm_key(_x(args[1]))),), None)}
            if name == "write_isized":
                return {((("isized", "var:" + _norm_key(_x(args[1]))),), None)}
            if name == "write_data":
                return {((("bytes", _bytes_len(args[0], n)),), None)}
            if name in ("new", "close", "len"):
                return {((), None)}
        # ---- reader leaves (Parser trait methods)
        if c.get("trait", "").endswith("parsing::Parser") or c.get("trait", "").endswith("parsing::RandomParser"):
            rnd = c.get("trait", "").endswith("RandomParser")
            a = args[1:] if rnd else args
            if name in R_FIXED:
                return {((("i" if name.startswith("read_i") else "u", R_FIXED[name]),), None)}
            if name == "read_usized":
                return {((("usized", "var:" + _norm_key(_x(a[0]))),), None)}
            if name == "read_isized":
                return {((("isized", "var:" + _norm_key(_x(a[0]))),), None)}
            if name == "read_data":
                return {((("bytes", _bytes_len(a[0], n)),), None)}
            if name in ("read_slice", "skip"):
                ad = a[0]
                if "lit" in ad and isinstance(ad["lit"], int):
                    return {((("bytes", ad["lit"]),), None)}
                return {((("bytes", "var:" + _norm_key(_x(ad))),), None)}
            if name in ("global_offset", "tell", "create_parser"):
                return {((), None)}
        # ---- Err(..) constructor: this path is an error path
        if re.search(r"(^|::)Err$", c.get("ctor", "")):
            return {((), "abort")}
        # ---- idiom kept opaque: padded pstring
        if name == "serialize_string_padded" and c.get("krate") == "jubako":
            sz = args[1]
            v = sz.get("lit") if "lit" in sz else "var:" + _norm_key(_x(sz))
            return {((("pstr_padded", v),), None)}
        # ---- a call of a parameter / local holding a closure (`f(ser)` inside a helper generic over F: FnOnce):
        #      placeholder, replaced at the call site of the helper by the paths of the closure it was given
        if c.get("local") and "rfn" not in c:
            return {((("callparam", c["local"]),), None)}
        # ---- local callee: inline
        if "rfn" in c:
            callee_paths = self.flat_fn(c["rfn"])
            if not any(s for s in callee_paths):
                return {((), None)}
            sub = self._subst_map(n, c)
            out = {(tuple(_subst_atom(a, sub) for a in s), None) for s in callee_paths}
            if any(a[0] == "callparam" for s, _ in out for a in s):
                out = self._expand_callparams(out, n, c, env)
                self._consumed = True
            return out
        # ---- unresolved serialize / parse through dyn or a type parameter
        if c.get("rkind") in ("unresolved", "virtual") and re.search(r"Serializable::serialize$|Parsable::parse$|RandomParsable::rparse$|WritableTell::(serialize_tail|write_data)$", d):
            return {((("dyn", d.split("::")[-2] + "::" + d.split("::")[-1] + "<" + str(c.get("self_ty")) + ">"),), None)}
        return {((), None)}

    def _expand_callparams(self, paths, n, c, env):
        """replace ("callparam", p) atoms by the layouts of the closure passed for parameter p at this call site"""
        F = self.F
        params = [re.sub(r"^(&mut |&|mut )+", "", p).split(":")[0].strip() for p in F.hir[c["rfn"]]["params"]]
        actual = ([n["recv"]] if n.get("recv") is not None else []) + n.get("args", [])
        closures = [sn for sn in n.get("sub", []) if sn.get("k") == "closure"]
        given = {}
        k = 0
        for p, a in zip(params, actual):
            if re.match(r"^\s*(move\s*)?\|", a.get("snip", "")) or a.get("ty", "").startswith("{closure"):
                if k < len(closures):
                    body = self.nodes(closures[k]["body"], env)
                    given[p] = {s_ for (s_, t_) in body if t_ != "abort"} or {()}
                    k += 1
        out = set()
        for s_, t_ in paths:
            alts = [()]
            for a in s_:
                if a[0] == "callparam" and a[1] in given:
                    alts = [x + y for x in alts for y in given[a[1]]]
                elif a[0] == "callparam":
                    alts = [x for x in alts]      # unknown callable: contributes nothing
                else:
                    alts = [x + (a,) for x in alts]
                if len(alts) > MAX_PATHS:
                    raise AnchorLost("layout extraction: too many paths through closure parameters")
            for x in alts:
                out.add((x, t_))
        return out

    def _subst_map(self, n, c):
        """callee parameter name -> caller argument key; callee generic -> resolved arg"""
        F = self.F
        params = [re.sub(r"^(&mut |&|mut )+", "", p).split(":")[0].strip() for p in F.hir[c["rfn"]]["params"]]
        actual = []
        if n.get("recv") is not None:
            actual.append(n["recv"])
        actual += n.get("args", [])
        m = {}
        for p, a in zip(params, actual):
            if re.match(r"^\w+$", p):
                if "lit" in a and isinstance(a["lit"], int) and not isinstance(a["lit"], bool):
                    m[p] = str(a["lit"])
                else:
                    m[p] = _norm_key(_x(a))
                    # the argument is the value returned by a first stage (`let header = Header::parse(parser)?;`): when
                    # that stage ends with `Ok(Self { field: expr, .. })`, `p.field` in the callee is that expression
                    lit = self._returned_struct(a, self.stack[-1] if self.stack else getattr(self, "root", None))
                    if lit is not None:
                        m[p] = lit
                # a byte array of known size handed over as a slice: the callee writes `p` whole, i.e. that many bytes
                for ty in (a.get("ty0", ""), a.get("ty", "")):
                    mm = re.search(r"\[u8; (\d+)\]", ty)
                    if mm:
                        m["len:" + p] = int(mm.group(1))
                        break
        gens = F.fns[c["rfn"]].get("generics", [])
        for g, v in zip(gens, c.get("rargs", [])):
            if re.match(r"^\d+$", v):
                m[g] = v
        return m

    def _returned_struct(self, a, caller_node_fn):
        """the struct literal a first stage returned: the argument `a` is a local of a crate struct type T, and a
        function called by the same caller ends with `Ok(T { field: expr, .. })` (or `T { .. }`): `#S{field:expr,..}`"""
        T = a.get("ty0") or ""
        if not a.get("local") or "::" not in T or T.startswith(("std::", "core::", "alloc::", "&")):
            return None
        if not hasattr(self, "_ret_struct"):
            self._ret_struct = {}
        key = (T, caller_node_fn)
        if key in self._ret_struct:
            return self._ret_struct[key]
        res = None
        lits = set()
        if caller_node_fn is not None:
            for n in hir_walk(self.F.tree(caller_node_fn)):
                c = n.get("callee") or {}
                if n.get("k") != "call" or "rfn" not in c:
                    continue
                for m_ in hir_walk(self.F.tree(c["rfn"])):
                    for arg in (m_.get("args") or []) if m_.get("k") == "call" else []:
                        if arg.get("ty0") == T and re.match(r"^[\w:]+\{.*\}$", arg.get("nx") or ""):
                            lits.add(arg["nx"])
        if len(lits) == 1:
            body = next(iter(lits))
            body = body[body.index("{") + 1:-1]
            parts, depth, cur = [], 0, ""
            for ch in body:
                if ch in "{([":
                    depth += 1
                elif ch in "})]":
                    depth -= 1
                if ch == "," and depth == 0:
                    parts.append(cur); cur = ""
                else:
                    cur += ch
            parts.append(cur)
            fields = []
            for p_ in parts:
                p_ = p_.strip()
                if not p_ or p_.startswith(".."):
                    continue
                if ":" in p_ and re.match(r"^\w+:", p_):
                    k_, v_ = p_.split(":", 1)
                else:
                    k_, v_ = p_, p_
                fields.append("%s:%s" % (k_.strip(), v_.strip()))
            res = "#S{" + ",".join(fields) + "}"
        self._ret_struct[key] = res
        return res

    def flat_fn(self, fid):
        if fid in self.memo:
            return self.memo[fid]
        if fid in self.stack:
            return frozenset()  # recursion: contributes nothing new
        self.stack.append(fid)
        try:
            ps = self.nodes(self.F.tree(fid), {})
        finally:
            self.stack.pop()
        res = frozenset(s for (s, t) in ps if t != "abort")
        self.memo[fid] = res
        return res


def _struct_field(s, field):
    """value of `field` in a rendering `#S{a:x,b:y}` (top-level split)"""
    if not (s.startswith("#S{") and s.endswith("}")):
        return None
    inner = s[3:-1]
    depth, start, parts = 0, 0, []
    for i, c in enumerate(inner):
        if c in "{([":
            depth += 1
        elif c in "})]":
            depth -= 1
        elif c == "," and depth == 0:
            parts.append(inner[start:i])
            start = i + 1
    parts.append(inner[start:])
    for p in parts:
        if ":" in p:
            k, v = p.split(":", 1)
            if k == field:
                return v
    return None


def _subst_key(k, sub):
    if not isinstance(k, str):
        return k
    pre = ""
    body = k
    if k.startswith("var:"):
        pre, body = "var:", k[4:]
    for p, a in sub.items():
        if a.startswith("#S{"):
            # the argument is a struct literal (rendered by the driver): `p.field` is that field's expression
            def fld(m, a=a):
                v = _struct_field(a, m.group(1))
                return v if v is not None else m.group(0)
            body = re.sub(r"(?<![\w.])%s\.(\w+)" % re.escape(p), fld, body)
        body = re.sub(r"(?<![\w.])%s\b" % re.escape(p), a.replace("\\", "\\\\"), body)
    if re.match(r"^\d+$", body):
        return int(body)
    return pre + body


def _subst_atom(a, sub):
    if a[0] == "loop":
        return ("loop", frozenset(tuple(_subst_atom(x, sub) for x in s) for s in a[1]))
    if a[0] == "bytes" and isinstance(a[1], str) and a[1].startswith("var:") and ("len:" + a[1][4:]) in sub:
        return (a[0], sub["len:" + a[1][4:]])
    if a[0] in ("usized", "isized", "bytes", "pstr_padded"):
        return (a[0], _subst_key(a[1], {k: v for k, v in sub.items() if not k.startswith("len:")}))
    return a


# ---------------------------------------------------------------------------------------
# canonical form
# ---------------------------------------------------------------------------------------
def _idiom(seq):
    """reader idiom: pstring parse followed by skip(N - x.len())  ==> pstr_padded(N)"""
    out = []
    i = 0
    seq = list(seq)
    while i < len(seq):
        a = seq[i]
        if (a == ("u", 1) and i + 2 < len(seq) and seq[i + 1][0] == "bytes" and isinstance(seq[i + 1][1], str)
                and seq[i + 2][0] == "bytes" and isinstance(seq[i + 2][1], str)):
            m = re.match(r"^var:(\d+)-[\w.]+\.len\(\)$", seq[i + 2][1])
            if m:
                out.append(("pstr_padded", int(m.group(1))))
                i += 3
                continue
        if a[0] == "loop":
            a = ("loop", frozenset(_idiom(s) for s in a[1]))
        out.append(a)
        i += 1
    return tuple(out)


def _rename(seq, names):
    out = []
    for a in seq:
        if a[0] == "loop":
            # deterministic order for renaming inside the loop body
            inner = sorted(a[1], key=lambda s: repr(_shape(s)))
            out.append(("loop", frozenset(_rename(s, names) for s in inner)))
        elif len(a) > 1 and isinstance(a[1], str) and (a[1].startswith("var:") or not a[1].startswith("$")) and a[0] in ("usized", "isized", "bytes", "pstr_padded"):
            k = a[1]
            if k not in names:
                names[k] = "$%d" % (len(names) + 1)
            out.append((a[0], names[k]))
        else:
            out.append(a)
    return tuple(out)


def _shape(seq):
    return tuple((a[0], a[1] if not isinstance(a[1], (str, frozenset)) else "?") if a[0] != "loop" else ("loop",) for a in seq)


def subsume(paths):
    """a path that is another path of the set with one loop left out is that path with zero iterations (`if let
    Some((first, rest)) = xs.split_first() { .. for x in rest {..} }` versus `for x in xs {..}`): it adds nothing"""
    def without_one_loop(p):
        for i, a in enumerate(p):
            if a[0] == "loop":
                yield p[:i] + p[i + 1:]
    paths = set(paths)
    sub = {p for p in paths if any(q == p for o in paths if o != p for q in without_one_loop(o))}
    return frozenset(paths - sub)


def canon(paths, keep_names=False):
    """canonical, comparable form: set of renamed paths; also returns the binding used per path"""
    out = set()
    bindings = {}
    for s in paths:
        s = _idiom(s)
        names = {}
        r = _rename(s, names)
        out.add(r)
        bindings[r] = {v: k for k, v in names.items()}
    out = set(subsume(out))
    return (frozenset(out), bindings) if keep_names else frozenset(out)


def to_json(paths):
    def atom(a):
        if a[0] == "loop":
            return {"loop": sorted([[atom(x) for x in s] for s in a[1]], key=repr)}
        return [a[0], a[1]]
    return sorted([[atom(a) for a in s] for s in paths], key=repr)


def from_json(j):
    def atom(a):
        if isinstance(a, dict):
            return ("loop", frozenset(tuple(atom(x) for x in s) for s in a["loop"]))
        return (a[0], a[1])
    return frozenset(tuple(atom(a) for a in s) for s in j)


def fixed_total(paths):
    """total byte length when the layout is a single fixed-size path, else None"""
    if len(paths) != 1:
        return None
    tot = 0
    for a in next(iter(paths)):
        if a[0] in ("u", "i") and isinstance(a[1], int):
            tot += a[1]
        elif a[0] == "bytes" and isinstance(a[1], int):
            tot += a[1]
        elif a[0] == "pstr_padded" and isinstance(a[1], int):
            tot += a[1] + 1
        else:
            return None
    return tot


_LAY = {}


def lay_for(F):
    l = _LAY.get(id(F))
    if l is None:
        l = Lay(F)
        _LAY[id(F)] = l
    return l


def fn_layout(F, f):
    """canonical layout of function f (dict or id)"""
    fid = f["id"] if isinstance(f, dict) else f
    return canon(lay_for(F).flat_fn(fid))


def find_ser(F, type_suffix):
    return F.one(impl_self=type_suffix, item="serialize", trait="Serializable", closure=False)


def find_parse(F, type_suffix):
    return F.one(impl_self=type_suffix, item="parse", trait="Parsable", closure=False)


def flat_layout(F, type_suffix, side):
    f = find_ser(F, type_suffix) if side == "ser" else find_parse(F, type_suffix)
    return fn_layout(F, f)
