"""Rule engine: runs the rule modules of one property over the extracted facts of every
configuration of the tier, applies known findings, prints verdicts, writes evidence."""
import importlib, json, os, sys, time, traceback

HERE = os.path.dirname(os.path.abspath(__file__))
VERIF = os.path.dirname(HERE)
sys.path.insert(0, HERE)

import extract
from lib import Facts, AnchorLost, short


class Ob:
    """one evaluated rule instance (an obligation)"""
    __slots__ = ("rule", "key", "ok", "where", "msg", "info", "config", "trivial")

    def __init__(self, rule, key, ok, where, msg, info=False, trivial=False):
        self.rule = rule
        self.key = key
        self.ok = bool(ok)
        self.where = where
        self.msg = msg
        self.info = info
        self.trivial = trivial
        self.config = None

    def as_json(self):
        return {"rule": self.rule, "key": self.key, "verdict": "holds" if self.ok else ("info" if self.info else "VIOLATED"),
                "where": self.where, "obligation": self.msg, "config": self.config}


class Ctx:
    def __init__(self, facts, config, tier, bin_facts=None, repo=None):
        self.repo = repo or extract.REPO
        self.F = facts
        self.config = config
        self.tier = tier
        self.B = bin_facts  # facts of the jbk binary crate when the config has it
        self.obs = []

    def ob(self, rule, key, ok, f_or_where, msg, ln=None, info=False, trivial=False):
        if isinstance(f_or_where, dict):
            where = "%s:%s (%s)" % (f_or_where["file"], ln if ln is not None else f_or_where["line"], f_or_where["name"])
        else:
            where = str(f_or_where)
        o = Ob(rule, key, ok, where, msg, info=info, trivial=trivial)
        o.config = self.config
        self.obs.append(o)
        return o


_FACTS = {}


def _facts(path, cfg):
    """the facts of one extraction are shared by the properties evaluated in this process (read-only for the rules);
    only the most recent extractions are kept"""
    key = (path, cfg)
    if key not in _FACTS:
        while len(_FACTS) >= 3:
            _FACTS.pop(next(iter(_FACTS)))
            import gc
            gc.collect()
        _FACTS[key] = Facts(path, cfg)
    return _FACTS[key]


def _last_selftest():
    p = os.path.join(VERIF, "selftest", "last_run.json")
    try:
        with open(p) as f:
            return json.load(f)
    except (OSError, ValueError):
        return None


def load_known():
    p = os.path.join(VERIF, "known_findings.json")
    if not os.path.exists(p):
        return {"findings": [], "fixed": []}
    with open(p) as f:
        return json.load(f)


def run_property(pid, tier, seed=0, only_rule=None, quiet=False, repo=None, write_evidence=True):
    t0 = time.time()
    mod = importlib.import_module(pid.lower())
    configs = list(getattr(mod, "CONFIGS_" + tier.upper(), None) or (extract.QUICK if tier == "quick" else extract.THOROUGH))
    all_obs = []
    floors_report = {}
    anchor_failures = []
    fn_count = {}
    call_sites = {}
    facts_sha = None
    for cfg in configs:
        out, sha = extract.facts_path(cfg, repo=repo)
        facts_sha = sha
        F = _facts(os.path.join(out, "jubako.lib.json"), cfg)
        B = None
        bp = os.path.join(out, "jbk.bin.json")
        if os.path.exists(bp):
            B = _facts(bp, cfg)
        fn_count[cfg] = len(F.fns) + (len(B.fns) if B else 0)
        call_sites[cfg] = sum(1 for f in F.fns for b in f.get("blocks", []) if b["t"]["k"] == "call")
        for rule_id, fn, floor in mod.RULES:
            if only_rule and rule_id != only_rule:
                continue
            if getattr(fn, "needs_bin", False) and B is None:
                continue
            if getattr(fn, "only_configs", None) and cfg not in fn.only_configs:
                continue
            ctx = Ctx(F, cfg, tier, B, repo=repo)
            try:
                fn(ctx)
            except AnchorLost as e:
                anchor_failures.append((rule_id, cfg, str(e)))
                ctx.ob(rule_id, "%s/anchor-lost" % rule_id, False, "(anchor)", "anchor lost: %s" % e)
            except Exception as e:  # a crash of a rule is a failure of the check, fail closed
                tb = traceback.format_exc()
                anchor_failures.append((rule_id, cfg, "rule crashed: %r" % e))
                ctx.ob(rule_id, "%s/rule-crashed" % rule_id, False, "(engine)", "rule crashed: %s" % short(tb, 1500))
            n = sum(1 for o in ctx.obs if not o.info)
            floors_report.setdefault(rule_id, {})[cfg] = n
            # the floor guards against a rule that silently stops matching; a quarter of the instances may disappear
            # (merged call sites, a removed duplicate) before the check fails closed -- small floors are exact
            eff = floor if floor <= 3 else -(-floor * 3 // 4)
            if n < eff:
                ctx.ob(rule_id, "%s/floor" % rule_id, False, "(floor)",
                       "rule matched %d instances in config %s, fewer than %d (three quarters of the %d confirmed by hand): the rule would pass vacuously" % (n, cfg, eff, floor))
            all_obs.extend(ctx.obs)
    # union over configs: an obligation key violated in any config is violated
    known = load_known()
    known_keys = {(k["property"], k["rule"], k["key"]): k for k in known.get("findings", [])}
    viol = {}
    for o in all_obs:
        if not o.ok and not o.info:
            viol.setdefault((o.rule, o.key), o)
    new_viol = []
    known_hit = []
    for (rule, key), o in sorted(viol.items()):
        kk = (pid, rule, key)
        if kk in known_keys:
            known_hit.append((o, known_keys[kk]))
        else:
            new_viol.append(o)
    lines = []
    rep_dir = os.path.join(VERIF, "evidence", "replay")
    os.makedirs(rep_dir, exist_ok=True)
    for o, k in known_hit:
        lines.append("KNOWN-FINDING: property=%s %s [%s] at %s: %s" % (pid, k.get("what", ""), o.key, o.where, short(o.msg, 300)))
    for n, o in enumerate(new_viol):
        rp = os.path.join(rep_dir, "%s-%s-%d.json" % (pid, o.rule.replace("/", "_"), n))
        with open(rp, "w") as f:
            json.dump({"property": pid, "rule": o.rule, "key": o.key, "where": o.where, "obligation": o.msg,
                       "config": o.config, "tier": tier}, f, indent=1)
        lines.append("  %s %s at %s\n    %s" % (o.rule, o.key, o.where, o.msg))
        lines.append("VIOLATION property=%s replay=%s" % (pid, rp))
    distinct = {}
    for o in all_obs:
        if o.info:
            continue
        distinct.setdefault((o.rule, o.key), o)
    nontrivial = [o for o in distinct.values() if not o.trivial]
    if not quiet:
        print("%s tier=%s configs=%s: %d obligations evaluated (%d distinct), %d violated (%d known findings, %d new)" % (
            pid, tier, ",".join(configs), len([o for o in all_obs if not o.info]), len(distinct), len(viol), len(known_hit), len(new_viol)))
        if os.environ.get("VCHECK_VERBOSE"):
            for o in sorted(distinct.values(), key=lambda o: (o.rule, o.key)):
                print("  [%s] %-10s %-60s %s" % ("ok" if o.ok else "XX", o.rule, short(o.key, 60), o.where))
        for o in all_obs:
            if o.info and os.environ.get("VCHECK_VERBOSE"):
                print("  [info] %s %s %s: %s" % (o.rule, o.key, o.where, short(o.msg, 200)))
        for l in lines:
            print(l)
    liveness = []
    if tier == "thorough" and write_evidence and repo is None and not only_rule:
        # rule liveness: every mutant recorded for this property (reverted repairs, independent seeded changes)
        # must still be reported by the rules; analysed on scratch copies, never executed
        import selftest
        for spec in selftest.load_specs():
            if spec.get("property") != pid or spec.get("missed"):
                continue
            try:
                ok, msg, keys = selftest.run_one(spec, "quick")
            except Exception as e:
                ok, msg, keys = False, "error: %r" % e, []
            liveness.append({"mutant": spec["name"], "re_detected": ok, "reported": keys[:6]})
            if not quiet:
                print("%s mutant %-48s %s" % ("selftest:" if ok else "SELFTEST-MISS:", spec["name"], "; ".join(keys)[:160]))
    silent_on = []
    if tier == "thorough" and write_evidence and repo is None and not only_rule:
        # the other direction: a sample (chosen by the seed) of the behaviour-preserving refactorings of benign/ must
        # leave this property silent; reported as SELFTEST-FALSE-ALARM (a defect of the checker, not of the repo)
        import random, selftest
        ben = [sp for sp in selftest.load_specs() if sp.get("benign")]
        random.Random("%s-%s" % (pid, seed)).shuffle(ben)
        for spec in ben[:int(os.environ.get("VCHECK_BENIGN_SAMPLE", "10"))]:
            d = selftest.scratch_copy()
            try:
                selftest.apply_patch(d, spec["patch"])
                new2, _, _ = run_property(pid, "quick", quiet=True, repo=d, write_evidence=False)
                keys = ["%s %s" % (o.rule, o.key) for o in new2]
            except Exception as e:
                keys = ["error: %r" % e]
            finally:
                import shutil, gc
                shutil.rmtree(d, ignore_errors=True)
                gc.collect()
            silent_on.append({"refactoring": spec["name"], "silent": not keys, "alarms": keys[:4]})
            if not quiet:
                print("%s refactoring %-42s %s" % ("selftest:" if not keys else "SELFTEST-FALSE-ALARM:", spec["name"], "; ".join(keys)[:160]))
    wall = time.time() - t0
    if write_evidence:
        samples = []
        seen_rules = {}
        for o in sorted(distinct.values(), key=lambda o: (o.rule, o.key)):
            c = seen_rules.get(o.rule, 0)
            if c < 12 or not o.ok:
                samples.append(o.as_json())
            seen_rules[o.rule] = c + 1
        infos = [o.as_json() for o in all_obs if o.info][:60]
        ev = {
            "property_id": pid,
            "tier": tier,
            "seed": int(seed),
            "level": "other",
            "coverage": {
                "explanation": getattr(mod, "EXPLANATION", ""),
                "evaluations": len([o for o in all_obs if not o.info]),
                "distinct_nontrivial": len(nontrivial),
                "rule": "obligations are enumerated by the rule modules from the facts extracted by the jbkfacts rustc driver "
                        "(one per rule instance = resolved call site / function / constant / layout the rule quantifies over, per "
                        "analysed configuration); distinct = distinct (rule, instance key); non-trivial = the instance carried a "
                        "real condition on the code (not a bookkeeping/floor entry)",
                "samples": samples,
                "informational": infos,
                "rules": sorted({r for r, _, _ in mod.RULES}),
                "instances_per_rule": floors_report,
                "floors": {r: fl for r, _, fl in mod.RULES},
                "configs": configs,
                "functions_analysed": fn_count,
                "call_sites": call_sites,
                "facts_sha": facts_sha,
                "known_findings_hit": [o.key for o, _ in known_hit],
                "anchor_failures": anchor_failures,
                "mutants_re_detected": liveness,
                "refactorings_silent": silent_on,
                "selftest_last_complete_run": _last_selftest(),
                "helpers_inlined": {k: v for k, v in list(getattr(F, "inlined", {}).items())[:20]},
                "exhaustive": True,
            },
            "assumptions": getattr(mod, "ASSUMPTIONS", []),
            "wall_s": round(wall, 3),
            "violations": len(new_viol),
        }
        os.makedirs(os.path.join(VERIF, "evidence"), exist_ok=True)
        with open(os.path.join(VERIF, "evidence", "%s.json" % pid), "w") as f:
            json.dump(ev, f, indent=1)
    return new_viol, known_hit, all_obs
