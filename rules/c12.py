"""C12 — rewriting a pack location changes only that location; the manifest stays valid.
Decided structurally (see DESIGN.md §4 C12): R1 second-level header offset agreement,
R2 mask = layout (shared with C04-R4), R3 rewrite confined, R4 unknown uuid writes nothing."""
import re
from lib import *
import ref, layout

PROPERTY = "C12"
EXPLANATION = ("Static structural clauses of C12 decided from MIR/HIR facts of the current tree: (R1) every parse of a "
               "second-level pack header (container/content/directory/manifest) takes the constant offset 64 = PackHeader "
               "block size, at all sibling sites including tools::set_location; (R2) the bytes exempt from the manifest "
               "digest are exactly the location+CRC of each PackInfo slot; (R3) set_location writes exactly one PackInfo "
               "block at pack_offset + global_offset and reassigns only pack_location; (R4) every write in set_location is "
               "control-dependent on the uuid equality. The byte-level claim (file otherwise bit-identical) is not decided."
               " (R6) the readers a container hands out for its packs are cut with in_memory = false (set_location relies on their global offset)."
               ' Added later: (R7) the reader accepts the lengths the writer accepts; (R8) the padded location is written in straight-line code, one run of size - len zeros; (R9) pack_location is assigned only by PackInfo, the creators and set_location; (R10) a pack of the file at hand is found by uuid whatever its location says (= C10-R1). (R11) PackInfo::serialize writes each field of the struct from that field.')
EXPLANATION += ' Batch 11: (R7) the padding skipped after the parsed location is sized with its length in bytes (str::len), never a character count.'
ASSUMPTIONS = ["seek/write semantics of std::fs::File", "rustc MIR construction and trait resolution (nightly in the image)",
               "reference table /verif/format/reference_v0_2.json for the v0.2 constants"]

SECOND_LEVEL = ["ContainerPackHeader", "ContentPackHeader", "DirectoryPackHeader", "ManifestPackHeader"]


def r1_header_offset(cx):
    F = cx.F
    want = ref.REF["sizes"]["PackHeader.block"]
    for f in F.live_fns:
        if "blocks" not in f:
            continue
        b = None
        for i, blk in enumerate(f["blocks"]):
            t = blk["t"]
            if t["k"] != "call" or blk.get("cleanup"):
                continue
            m = None
            for n in callee_names(t):
                m = re.search(r"Reader::parse_block_at::<.*?(\w+)>$", n)
                if m:
                    break
            if not m or m.group(1) not in SECOND_LEVEL:
                continue
            b = b or F.body(f)
            org = b.origins(t["args"][1])
            consts = sorted({o[1] for o in org if o[0] == "const" and isinstance(o[1], int)})
            calls = [callee_str(tt) for _, tt in b.origin_calls(t["args"][1])]
            ok = consts == [want] and all(re.search(r"Offset as .*From<usize>>::from", c) for c in calls)
            cx.ob("R1", "R1/%s/%s" % (f["name"], m.group(1)), ok, f,
                  "offset of parse_block_at::<%s> must be the constant %d (PackHeader block size, where the creators put the "
                  "second header); found constants %s via %s" % (m.group(1), want, consts, calls), ln=t.get("ln"))


def _set_location(cx):
    F = cx.F
    f = F.one(name="tools::set_location")
    return f, F.body(f)


WRITEISH = r"OutStream.*::ser_write|::ser_write|Write>::write|write_all|::ser_callable|set_len|write_serializer|io::copy|OutStream.*::copy|write_vectored|write_fmt"


def r3_confined(cx):
    f, b = _set_location(cx)
    opens = b.calls(r"OpenOptions::open")
    cx.ob("R3", "R3/one-open", len(opens) == 1, f, "set_location opens the file for writing exactly once (found %d)" % len(opens))
    if len(opens) != 1:
        return
    obb, ot = opens[0]
    # every call receiving something derived from the opened file
    file_locals = b.forward_locals({ot["dest"]["l"]}, through_calls=False)
    # through `?`: Try::branch result carries the file
    changed = True
    while changed:
        changed = False
        for i, t in b.calls(r"Try>::branch"):
            if op_base_local(t["args"][0]) in file_locals and t["dest"]["l"] not in file_locals:
                file_locals |= b.forward_locals({t["dest"]["l"]}, through_calls=False)
                changed = True
    users = []
    for i, t in b.calls():
        if call_is(t, r"Try>::branch", r"from_residual"):
            continue
        if any(op_base_local(a) in file_locals for a in t["args"]):
            users.append((i, t))
    seeks = [(i, t) for i, t in users if call_is(t, r"Seek>::seek$")]
    writes = [(i, t) for i, t in users if call_is(t, WRITEISH)]
    others = [(i, t) for i, t in users if (i, t) not in seeks and (i, t) not in writes and not call_is(t, r"OpenOptions::open")]
    cx.ob("R3", "R3/file-users", len(seeks) == 1 and len(writes) == 1 and not others, f,
          "the write-opened File receives exactly one seek and one write; seeks=%s writes=%s others=%s" % (
              [callee_str(t) for _, t in seeks], [callee_str(t) for _, t in writes], [callee_str(t) for _, t in others]))
    if len(seeks) == 1:
        si, st = seeks[0]
        # argument: SeekFrom::Start(x), x derived from Offset::into_u64(pack_offset) + global_offset().into_u64()
        arg = st["args"][1]
        l = op_local(arg)
        agg = None
        for d in b.defs().get(l, []):
            if d[0] == "stmt" and d[3]["k"] == "assign" and d[3]["rv"]["k"] == "agg":
                agg = d[3]["rv"]
        ok_variant = agg is not None and agg.get("adt", "").endswith("SeekFrom") and agg.get("variant") == "Start"
        cx.ob("R3", "R3/seek-start", ok_variant, f, "the seek is SeekFrom::Start(..) (absolute): %s" % ((agg.get("adt"), agg.get("variant")) if agg else None,), ln=st.get("ln"))
        if ok_variant:
            oc = [callee_str(t) for _, t in b.origin_calls(agg["fields"][0])]
            has_go = any("global_offset" in c for c in oc)
            has_iter = any(re.search(r"PackOffsetsIter as .*Iterator>::next", c) for c in oc)
            adds = _has_add(b, agg["fields"][0])
            cx.ob("R3", "R3/seek-target", has_go and has_iter and adds, f,
                  "seek target = pack_offset (from PackOffsetsIter) + manifest reader global_offset(): global_offset=%s iter=%s add=%s" % (has_go, has_iter, adds), ln=st.get("ln"))
    if len(writes) == 1:
        wi, wt = writes[0]
        import streams
        wty = streams.written_type(b, wt)
        ok = call_is(wt, r"::ser_write$") and bool(wty) and wty.endswith("pack_info::PackInfo")
        cx.ob("R3", "R3/write-is-packinfo", ok, f, "the single write is ser_write(&PackInfo) (one CRC block): %s of %s" % (callee_str(wt), wty), ln=wt.get("ln"))
        # the written value is the parsed pack_info
        pi = b.local_named("pack_info")
        src = b.origins(wt["args"][1], through_calls=False)
        cx.ob("R3", "R3/write-source", bool(pi) and any(o == ("local", pi[0]) or o[0] == "call" and call_is(b.term(o[1]), r"parse_block_at::<.*PackInfo>") for o in src) or _derives_local(b, wt["args"][1], pi), f,
              "the written PackInfo is the one parsed from the manifest at pack_offset", ln=wt.get("ln"))
        # only pack_location is reassigned
        if pi:
            fields = set()
            for i, blk in enumerate(b.blocks):
                if blk.get("cleanup"):
                    continue
                for s in blk["s"]:
                    if s["k"] == "assign" and s["lhs"]["l"] == pi[0] and s["lhs"].get("p"):
                        fields |= set(place_fields(s["lhs"])[:1])
            cx.ob("R3", "R3/only-location-reassigned", fields == {"pack_location"}, f,
                  "fields of the parsed pack_info assigned before the write: %s (must be exactly pack_location)" % sorted(fields))
    # PackInfo layout has constant length (padded location): checked against the reference
    import layout
    lay = layout.flat_layout(cx.F, "PackInfo", "ser")
    tot = layout.fixed_total(lay)
    cx.ob("R3", "R3/packinfo-fixed-size", tot == ref.REF["sizes"]["PackInfo.payload"], f,
          "PackInfo writer layout has constant payload length %s for every location length (reference %d): the rewrite covers exactly one slot" % (tot, ref.REF["sizes"]["PackInfo.payload"]))


def r5_success_means_written(cx):
    """every Ok(Some(..)) returned by set_location lies behind the write (an early "nothing to do" success is
    accepted only when guarded by a byte-wise equality of the old and new location strings)"""
    f, b = _set_location(cx)
    writes = [i for i, t in b.calls(r"::ser_write$")]
    somes = []
    for i, blk in enumerate(b.blocks):
        if blk.get("cleanup"):
            continue
        for s in blk["s"]:
            if s["k"] == "assign" and s["rv"]["k"] == "agg" and s["rv"].get("adt", "").endswith("Option") and s["rv"].get("variant") == "Some" and \
                    "PackKind" in b.locals[s["lhs"]["l"]]["ty"]:
                somes.append(i)
    ok = bool(writes) and bool(somes)
    bad = []
    for sb in somes:
        if b.set_dominates(set(writes), sb):
            continue
        # early success without writing: allowed only under a byte-wise string equality
        cds = b.control_dep_switches(sb)
        bytewise = False
        for s in cds:
            for j, t in b.origin_calls(b.term(s)["op"], through_calls=False):
                if call_is(t, r"PartialEq.*>::(eq|ne)$") and re.search(r"<(&)?(str|bases::types::small_string::SmallString|std::string::String|\[u8\]|&\[u8\])( as |>)", callee_str(t)) and not re.search(r"Path", callee_str(t)):
                    bytewise = True
        if not bytewise:
            bad.append(b.ln(sb))
    cx.ob("R5", "R5/success-implies-written", ok and not bad, f,
          "every Ok(Some(..)) of set_location is reached through the ser_write of the rewritten PackInfo (a skipped write is only accepted under a byte-wise equality of old and new location); successes that bypass the write at lines %s" % bad)


def _derives_local(b, op, locs):
    if not locs:
        return False
    seen = set()
    st = [op_base_local(op)]
    while st:
        l = st.pop()
        if l is None or l in seen:
            continue
        seen.add(l)
        if l in locs:
            return True
        for d in b.defs().get(l, []):
            if d[0] == "stmt" and d[3]["k"] == "assign":
                rv = d[3]["rv"]
                for o in rv_operands(rv):
                    st.append(op_base_local(o))
                if "pl" in rv:
                    st.append(rv["pl"]["l"])
    return False


def _has_add(b, op):
    seen = set()
    st = [op_base_local(op)]
    while st:
        l = st.pop()
        if l is None or l in seen:
            continue
        seen.add(l)
        for d in b.defs().get(l, []):
            if d[0] == "stmt" and d[3]["k"] == "assign":
                rv = d[3]["rv"]
                if rv["k"] == "bin" and rv["op"] in ("Add", "AddWithOverflow"):
                    return True
                for o in rv_operands(rv):
                    st.append(op_base_local(o))
                if "pl" in rv:
                    st.append(rv["pl"]["l"])
    return False


def r4_unknown_uuid(cx):
    f, b = _set_location(cx)
    cmps = [(i, t) for i, t in b.calls(r"PartialEq.*>::(ne|eq)$") if any(("param", 2) in b.origins(a, through_calls=False) for a in t["args"])]
    cx.ob("R4", "R4/uuid-compare", len(cmps) == 1, f, "exactly one comparison with the uuid parameter (found %d)" % len(cmps))
    if len(cmps) != 1:
        return
    ci, ct = cmps[0]
    sw = ct["t"]
    st = b.term(sw)
    if st["k"] != "switch" or op_base_local(st["op"]) != ct["dest"]["l"]:
        raise AnchorLost("uuid comparison does not feed a switch directly")
    is_ne = call_is(ct, r">::ne$")
    # vals [0] -> targets[0] taken when result is false
    false_t = st["targets"][st["vals"].index(0)] if 0 in st["vals"] else st["otherwise"]
    true_t = st["otherwise"] if 0 in st["vals"] else st["targets"][0]
    equal_succ = false_t if is_ne else true_t
    sinks = b.calls(r"OpenOptions::open", r"Seek>::seek$", WRITEISH, r"File::create", r"fs::write")
    # path-sensitive: what is feasible without ever taking the uuid-equal branch (the search may live in a first stage
    # answering Some(found) / None that a second stage matches on)
    without_equal, _ = b.explore(avoid={equal_succ})
    for i, t in sinks:
        ok = b.set_dominates({equal_succ}, i) or i not in without_equal
        cx.ob("R4", "R4/%s" % re.sub(r"<.*", "", callee_str(t)).split("::")[-1] + "@" + _short_callee(t), ok, f,
              "%s is reachable only through the uuid-equal branch" % callee_str(t), ln=t.get("ln"))
    # fall-through returns Ok(None): at least one return path avoids the equal branch
    r = b.reachable(0, avoid={equal_succ})
    cx.ob("R4", "R4/fallthrough-exists", any(b.term(x)["k"] == "return" for x in r), f,
          "there is a return path that never takes the uuid-equal branch (unknown uuid) and, by the obligations above, no write lies on it")


def _short_callee(t):
    c = t.get("callee") or {}
    return (c.get("def") or "?").split("::")[-1]


def r2_mask(cx):
    import c04
    c04.r4_mask(cx, rule="R2")


def r6_container_readers_are_file_views(cx):
    """set_location writes at `pack offset in the manifest + global offset of the manifest reader`: the readers a
    container hands out for its packs must be views of the file (cut with in_memory = false), never copies -- a copy
    restarts its global offset at 0"""
    F = cx.F
    n = 0
    for loc in (dict(impl_self="reader::container_pack::ContainerPack", item="new"), dict(name="reader::jubako::open_as_container_pack")):
        f = F.one(closure=False, **loc)
        b = F.body(f)
        cuts = b.calls(r"bases::reader::Reader::cut$")
        if not cuts:
            raise AnchorLost("%s: no Reader::cut site" % f["name"])
        for k, (i, t) in enumerate(cuts):
            n += 1
            v = op_const_deep(b, t["args"][3])
            cx.ob("R6", "R6/%s/cut#%d-is-a-view" % (".".join(f["name"].split("::")[-2:]), k), v is False, f,
                  "Reader::cut(.., in_memory = false): the pack reader stays a view of the container file (constant %r)" % (v,), ln=t.get("ln"))
    g = F.one(name="tools::set_location")
    gb = F.body(g)
    go = gb.calls(r"Reader::global_offset$")
    cx.ob("R6", "R6/set_location/uses-global-offset", len(go) >= 1, g, "set_location locates the manifest in the file through the global offset of its reader")


def r7_reader_accepts_what_the_writer_accepts(cx):
    """the new location is read back: a location of any length the layout allows (0 .. the padded field of the
    reference layout) that `set_location` has written is accepted by `PackInfo::parse` -- evaluated by constant
    propagation with `location.len()` fixed to the boundary values: no explicit `Err(..)` of the parse is reachable"""
    F = cx.F
    f = layout.find_parse(F, "PackInfo")
    b = F.body(f)
    lens = b.calls(r"::len$")
    maxlen = None
    for path in ref.ref_layout("PackInfo", "r") or []:
        for a in path:
            if a[0] == "pstr_padded" and isinstance(a[1], int):
                maxlen = a[1]
    # what follows the location in its slot is skipped: slot size minus the *byte* length of the string just parsed (the
    # writer pads with `size - string.len()` bytes, R8) -- a count of characters is smaller for any non-ASCII location
    sk = [(i, t) for i, t in b.calls(r"Parser>::skip$|::skip$") if not b.is_cleanup(i) and len(t["args"]) >= 2]
    for i, t in sk:
        o = b.origins(t["args"][1])
        oc = [callee_str(b.term(x[1])) for x in o if x[0] == "call"]
        chars = [c for c in oc if re.search(r"str::chars$|Chars|char_indices|Iterator>::count$|graphemes|::width", c)]
        bytelen = [c for c in oc if re.search(r"str::len$|impl str>::len$|String::len$|\]>::len$|Vec::<u8>::len$|SmallVec.*::len$|as_bytes$", c)]
        cx.ob("R7", "R7/PackInfo.parse/padding-sized-by-byte-length", bool(bytelen) and not chars, f,
              "the padding skipped after the location is sized with its length in bytes (byte-length calls: %s; character counts: %s)" % (sorted(set(bytelen)) or "none", sorted(set(chars)) or "none"), ln=t.get("ln"))
    if maxlen is None or not lens:
        raise AnchorLost("PackInfo: padded location field / len() of the parsed location not found")
    explicit = b.err_return_blocks()
    for n in (0, 1, maxlen - 1, maxlen):
        r, _ = b.explore(assume_calls={r"::len$": n}, avoid=b.error_blocks())
        rejected = sorted(b.ln(x) for x in explicit if x in r)
        accepted = any(b.term(x)["k"] == "return" for x in r - explicit)
        cx.ob("R7", "R7/PackInfo.parse/accepts-location-of-%d-bytes" % n, not rejected and accepted, f,
              "with a stored location of %d bytes (admissible: the field holds up to %d) PackInfo::parse reaches its Ok return and no explicit rejection (lines %s)" % (n, maxlen, rejected))


def r8_location_slot_is_padded_in_one_piece(cx):
    """'only the location field of that pack changes': the location is a fixed slot of 1 + 213 bytes whatever its
    length; `serialize_string_padded` writes the length, the bytes, then ONE run of `size - len` zeros. The writes
    are straight-line code (none inside a loop, where a boundary length -- a padding that is a multiple of the chunk --
    drops or doubles a piece and shifts the CRC into the slot) and the zeros written number `size - len`."""
    F = cx.F
    f = F.one(regex=r"pstring::PArray::<.*>::serialize_string_padded$")
    b = F.deep_body(f, only=r"pstring::PArray")
    ws = b.calls(r"Serializer::write_(data|u8)$")
    if len(ws) < 3:
        raise AnchorLost("serialize_string_padded: %d writes (length, bytes, padding expected)" % len(ws))
    looped = [t.get("ln") for i, t in ws if i in b.reach_after(i)]
    cx.ob("R8", "R8/serialize_string_padded/straight-line", not looped, f, "none of the %d writes of a padded string is inside a loop (in a loop: lines %s)" % (len(ws), looped))
    subs = []
    for i, blk in enumerate(b.blocks):
        if blk.get("cleanup"):
            continue
        for st in blk["s"]:
            rv = st.get("rv") or {}
            if st["k"] == "assign" and rv.get("k") == "bin" and rv["op"] in ("Sub", "SubWithOverflow"):
                oa, ob_ = b.origins(rv["a"]), b.origins(rv["b"])
                if ("param", 2) in oa and any(x[0] == "call" and call_is(b.term(x[1]), r"::len$") for x in ob_) and ("param", 2) not in ob_:
                    subs.append(st.get("ln"))
    pad = [t for i, t in ws if call_is(t, r"write_data$") and ("param", 2) in b.origins(t["args"][1]) and any(x[0] == "call" and call_is(b.term(x[1]), r"::len$") for x in b.origins(t["args"][1]))]
    cx.ob("R8", "R8/serialize_string_padded/padding-is-size-minus-len", bool(subs) and len(pad) == 1, f,
          "one write whose data is sized by `size - string.len()` (subtractions at lines %s, padding writes %d)" % (subs, len(pad)))


def r9_location_read_is_the_location_stored(cx):
    """'the new location is what is read back': the `pack_location` of a PackInfo is set where the info is parsed, where
    it is created, and by `set_location`; nothing on the reading side assigns it again (a normalisation there makes the
    string read differ from the string stored, and the next rewrite compares against something that is not in the file)."""
    F = cx.F
    bad = []
    n = 0
    for f in F.live_fns:
        if "blocks" not in f:
            continue
        own = F.effective_owner(f)["name"]
        allowed = re.search(r"pack_info::PackInfo|tools::set_location$|^creator::", own) is not None
        for blk in f["blocks"]:
            if blk.get("cleanup"):
                continue
            for st in blk["s"]:
                if st["k"] != "assign":
                    continue
                pr = [e for e in st["lhs"].get("p", []) if isinstance(e, dict) and e.get("n") == "pack_location"]
                if pr:
                    n += 1
                    if not allowed:
                        bad.append((f, st.get("ln")))
    for f, ln in bad:
        cx.ob("R9", "R9/%s/assigns-pack_location" % re.sub(r"<.*?>", "", f["name"]).split("::")[-1], False, f,
              "pack_location is assigned outside PackInfo, the creators and set_location (line %s)" % ln, ln=ln)
    cx.ob("R9", "R9/pack_location-writers", not bad and n >= 1, "(crate)", "%d assignments to a pack_location field, all in PackInfo / creators / set_location" % n)


def r10_packs_of_the_file_are_found_by_identity(cx):
    """'only the location field of that pack changes': a location is a hint for packs that live elsewhere; a pack stored
    in the file at hand is found by its uuid whatever its location says, so rewriting the location of an embedded pack
    cannot make it disappear (= the chain clauses of C10-R1 under C12)"""
    import c10
    orig = cx.ob

    def ob(rule, key, *a, **kw):
        return orig("R10", "R10/" + key.split("/", 1)[1], *a, **kw)
    cx.ob = ob
    try:
        c10.r1_chain(cx)
    finally:
        cx.ob = orig


def r11_rewrite_carries_every_field(cx):
    """`set_location` parses the 252 bytes of a pack info, replaces the location and serialises the block again: every
    other field comes out as it went in only if `PackInfo::serialize` writes each field of the struct from that field.
    A field replaced by a constant on the way out (a "reserved" byte the creator always writes as 0) is silently reset by
    the first rewrite of a manifest that another writer produced -- inside the checked part of the block."""
    F = cx.F
    st = F.struct("common::pack_info::PackInfo")
    f = layout.find_ser(F, "common::pack_info::PackInfo") if hasattr(layout, "find_ser") else None
    b = F.deep_body(f, only=r"common::pack_info::")
    read = set()
    for i, t in b.calls():
        if call_is(t, r"Serializer::write_", r"Serializable>::serialize$", r"serialize_string", r"PString|PArray"):
            for a in t["args"]:
                read |= {x[1] for x in b.origins(a) if x[0] == "field"}
    names = [fl["name"] for fl in st["fields"]]
    missing = [n for n in names if n not in read]
    cx.ob("R11", "R11/PackInfo.serialize/every-field-is-written-from-itself", not missing and len(names) >= 6, f,
          "PackInfo::serialize writes each of the %d fields of the struct from the field (never read: %s)" % (len(names), missing))


RULES = [
    ("R11", r11_rewrite_carries_every_field, 1),
    ("R10", r10_packs_of_the_file_are_found_by_identity, 6),
    ("R9", r9_location_read_is_the_location_stored, 1),
    ("R8", r8_location_slot_is_padded_in_one_piece, 2),
    ("R7", r7_reader_accepts_what_the_writer_accepts, 4),
    ("R6", r6_container_readers_are_file_views, 3),
    ("R1", r1_header_offset, 4),
    ("R2", r2_mask, 3),
    ("R3", r3_confined, 7),
    ("R4", r4_unknown_uuid, 4),
    ("R5", r5_success_means_written, 1),
]
