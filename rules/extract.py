"""E1 runner: extract facts from /repo's current working tree with the jbkfacts driver.

Facts are cached by content hash of the analysed sources + configuration + driver, so a
changed working tree is always re-analysed; an unchanged one is analysed once."""
import fcntl, hashlib, json, os, shutil, subprocess, sys, time

VERIF = os.path.dirname(os.path.dirname(os.path.abspath(__file__)))
REPO = os.environ.get("JBK_REPO", "/repo")
DRIVER_DIR = os.path.join(VERIF, "engine", "jbkfacts")
DRIVER = os.path.join(DRIVER_DIR, "target", "release", "jbkfacts")
CACHE = os.environ.get("JBK_CACHE", os.path.join(VERIF, ".cache"))

CONFIGS = {
    # name: (cargo args, profile is release?)
    "lib-all3": ["--lib", "--no-default-features", "--features", "lz4,lzma,zstd"],
    "lib-default": ["--lib"],
    "lib-nofeat": ["--lib", "--no-default-features"],
    "all-bins": ["--lib", "--bins", "--features", "all"],
    "lib-release": ["--lib", "--release", "--no-default-features", "--features", "lz4,lzma,zstd"],
}
QUICK = ["lib-all3"]
THOROUGH = ["lib-all3", "lib-default", "lib-nofeat", "all-bins", "lib-release"]


def _sha_file(h, p):
    with open(p, "rb") as f:
        h.update(p.encode())
        h.update(b"\0")
        h.update(f.read())
        h.update(b"\0")


def tree_sha(repo=None):
    repo = repo or REPO
    h = hashlib.sha256()
    files = []
    for root, dirs, fs in os.walk(os.path.join(repo, "src")):
        dirs.sort()
        for f in sorted(fs):
            files.append(os.path.join(root, f))
    for f in ("Cargo.toml", "Cargo.lock", "build.rs"):
        p = os.path.join(repo, f)
        if os.path.exists(p):
            files.append(p)
    for p in files:
        h.update(os.path.relpath(p, repo).encode())
        _sha_file(h, p)
    return h.hexdigest()


def driver_sha():
    h = hashlib.sha256()
    for root, dirs, fs in os.walk(os.path.join(DRIVER_DIR, "src")):
        for f in sorted(fs):
            _sha_file(h, os.path.join(root, f))
    return h.hexdigest()[:16]


def sysroot():
    return subprocess.check_output(["rustc", "+nightly", "--print", "sysroot"], text=True).strip()


def build_driver():
    env = dict(os.environ, CARGO_NET_OFFLINE="true")
    r = subprocess.run(["cargo", "+nightly", "build", "--release", "--offline"], cwd=DRIVER_DIR, env=env,
                       stdout=subprocess.PIPE, stderr=subprocess.STDOUT, text=True)
    if r.returncode != 0 or not os.path.exists(DRIVER):
        sys.stderr.write(r.stdout)
        raise SystemExit("jbkfacts driver build failed")


def facts_path(config, repo=None):
    """Return the path of the fact files (dict crate-kind -> path) for `config`, extracting if needed."""
    repo = repo or REPO
    os.makedirs(CACHE, exist_ok=True)
    if not os.path.exists(DRIVER):
        with open(os.path.join(CACHE, "driver.lock"), "w") as lk:
            fcntl.flock(lk, fcntl.LOCK_EX)
            if not os.path.exists(DRIVER):
                build_driver()
    sha = tree_sha(repo)
    key = hashlib.sha256((sha + config + driver_sha()).encode()).hexdigest()[:24]
    out = os.path.join(CACHE, "facts", key)
    marker = os.path.join(out, "DONE")
    if os.path.exists(marker):
        return out, sha
    # parallel self-test workers use one target directory each (VCHECK_SLOT); the registered checks use slot 0
    slot = os.environ.get("VCHECK_SLOT", "")
    with open(os.path.join(CACHE, "extract-%s%s.lock" % (config, slot)), "w") as lk:
        fcntl.flock(lk, fcntl.LOCK_EX)
        if os.path.exists(marker):
            return out, sha
        if os.path.exists(out):
            shutil.rmtree(out)
        os.makedirs(out)
        # persistent target dir per config for dependencies; the jubako crate itself is
        # forced to be re-checked by removing its fingerprints (cargo would otherwise skip
        # the wrapper and replay cached output).
        tdir = os.path.join(CACHE, "target", config + slot)
        os.makedirs(tdir, exist_ok=True)
        for prof in ("debug", "release"):
            fp = os.path.join(tdir, prof, ".fingerprint")
            if os.path.isdir(fp):
                for d in os.listdir(fp):
                    if d.startswith("jubako-"):
                        shutil.rmtree(os.path.join(fp, d), ignore_errors=True)
        env = dict(os.environ)
        env.update({
            "CARGO_NET_OFFLINE": "true",
            "CARGO_INCREMENTAL": "0",
            "LD_LIBRARY_PATH": sysroot() + "/lib",
            "RUSTFLAGS": "-Zmir-opt-level=0 -Awarnings",
            "RUSTC_WORKSPACE_WRAPPER": DRIVER,
            "JBKFACTS_OUT": out,
            "CARGO_TARGET_DIR": tdir,
        })
        t0 = time.time()
        cmd = ["cargo", "+nightly", "check", "--offline"] + CONFIGS[config]
        r = subprocess.run(cmd, cwd=repo, env=env, stdout=subprocess.PIPE, stderr=subprocess.STDOUT, text=True)
        if r.returncode != 0:
            sys.stderr.write(r.stdout[-6000:])
            shutil.rmtree(out, ignore_errors=True)
            raise SystemExit("fact extraction failed for config %s (the tree does not build?)" % config)
        if not os.path.exists(os.path.join(out, "jubako.lib.json")):
            sys.stderr.write(r.stdout[-3000:])
            shutil.rmtree(out, ignore_errors=True)
            raise SystemExit("fact extraction wrote no fact file for config %s (driver skipped?)" % config)
        with open(marker, "w") as f:
            json.dump({"config": config, "tree_sha": sha, "wall_s": round(time.time() - t0, 2), "cmd": " ".join(cmd)}, f)
        _gc()
    return out, sha


def _gc(keep=24, min_age_s=1800):
    """drop the oldest cached fact directories; never one younger than min_age_s (another process may be
    writing or reading it: the self-test runs several extractions in parallel)"""
    base = os.path.join(CACHE, "facts")
    try:
        ds = sorted((os.path.getmtime(os.path.join(base, d)), d) for d in os.listdir(base))
    except FileNotFoundError:
        return
    now = time.time()
    for mt, d in ds[:-keep]:
        if now - mt > min_age_s:
            shutil.rmtree(os.path.join(base, d), ignore_errors=True)


if __name__ == "__main__":
    cfgs = sys.argv[1:] or QUICK
    for c in cfgs:
        t = time.time()
        p, sha = facts_path(c)
        print(c, p, sha[:12], "%.1fs" % (time.time() - t))
