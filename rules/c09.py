"""C09 — creation is all-or-nothing at the destination path.
R1 who may create / who may rename; R2 temporary file in the destination directory; R3 per
packaging mode, everything persisted after the manifest is written is the file holding the manifest
(pack files are persisted before); R4 close consumes the recipient (compile-fail witness)."""
import re, os, subprocess, json
from lib import *
import c05

PROPERTY = "C09"
EXPLANATION = ("Decided from the call graph and MIR of BasicCreator: (R1) in everything reachable from BasicCreator::{new, finalize, "
               "add_content} files are created only through AtomicOutFile::new -> tempfile::NamedTempFile::new_in and a destination "
               "path appears only through NamedTempFile::persist inside AtomicOutFile::close_file (no File::create, OpenOptions, "
               "rename, copy, keep, persist_noclobber); (R2) the temporary file is created in final_path.parent() (same file system, so "
               "the rename is atomic); (R3) for each ConcatMode separately (CFG restricted to that mode): every PackRecipient::close_file "
               "reachable after a manifest write closes only a file the manifest was written into, every other close_file (pack files, "
               "extra packs) is not reachable from a manifest write, hence the entry-point file never appears before the pack files it "
               "refers to; (R4) close_file takes Box<Self>: a write after persist does not type-check (compile-fail witness with a "
               "compiling twin). POSIX rename atomicity is assumed; behaviour at every crash offset is not explored."
               " (R5) every BufWriter built in the creator reaches flush()/into_inner() on every successful path (an error in the implicit flush of Drop is discarded)."
               ' Added later: (R6) errors of the worker threads reach finalize; (R7) every direct Write::write uses the count it returns or hands the Result back. (R8) a Result produced inside a loop of the creator is inspected in the turn that made it, never only after the loop.')
EXPLANATION += ' Batch 11: (R9) only ConcatMode::OneFile opens the destination itself for the content pack; in the other modes the path comes out of new_with_extension.'
ASSUMPTIONS = ["rename(2) is atomic within a file system; crash = process death (no fsync needed)", "tempfile::NamedTempFile::persist renames over the destination",
               "the call graph over-approximates dynamic dispatch (all impls of a trait method)"]

FORBIDDEN = (r"std::fs::File::create", r"std::fs::OpenOptions::open", r"std::fs::rename", r"std::fs::copy", r"std::fs::write$", r"persist_noclobber", r"NamedTempFile<.*>::keep|NamedTempFile::<.*>::keep",
             r"std::fs::hard_link", r"std::os::unix::fs::symlink", r"tempfile::NamedTempFile::new$", r"tempfile::tempfile", r"std::fs::File::create_new", r"std::fs::remove_file")


def _roots(F):
    return [F.one(impl_self="creator::basic_creator::BasicCreator", item=n, closure=False, trait="") for n in ("new", "finalize", "add_content")]


def r1_who_may(cx):
    F = cx.F
    reach = F.reach(_roots(F))
    ext = sorted(x[4:] for x in reach if isinstance(x, str))
    bad = [x for x in ext if any(re.search(p, x) for p in FORBIDDEN)]
    cx.ob("R1", "R1/no-direct-create-or-rename", not bad, "(call graph from BasicCreator::{new,finalize,add_content}: %d functions, %d external callees)" % (len([x for x in reach if isinstance(x, int)]), len(ext)),
          "no file-creating / renaming primitive other than NamedTempFile::new_in / persist is reachable: %s" % bad)
    local = [F.fns[x] for x in reach if isinstance(x, int)]
    nf = [f["name"] for f in local if f["name"].endswith("creator::NamedFile::new")]
    cx.ob("R1", "R1/no-NamedFile", not nf, "(call graph)", "NamedFile::new (non-atomic create+truncate at the destination) is not reachable from BasicCreator: %s" % nf)
    # positive control for the expected-zero list: the same query finds OpenOptions::open below NamedFile::new
    nfn = [f for f in F.fns if f["name"].endswith("creator::NamedFile::new")]
    ctl = nfn and any(isinstance(x, str) and re.search(r"OpenOptions::open", x) for x in F.reach(nfn))
    cx.ob("R1", "R1/positive-control", bool(ctl), "(control)", "the forbidden-callee query does match on a known positive (NamedFile::new reaches OpenOptions::open)", trivial=True)
    # who calls persist / new_in
    for pat, owner, what in ((r"tempfile::NamedTempFile::<.*>::persist|NamedTempFile<.*>::persist", "AtomicOutFile as creator::PackRecipient>::close_file", "persist"),
                             (r"tempfile::NamedTempFile::new_in", "creator::AtomicOutFile::new", "new_in")):
        sites = []
        for f in F.live_fns:
            if "blocks" not in f:
                continue
            for blk in f["blocks"]:
                if not blk.get("cleanup") and call_is(blk["t"], pat):
                    sites.append(f["name"])
        cx.ob("R1", "R1/only-%s-site" % what, len(sites) >= 1 and all(owner in s for s in sites), "(whole crate)", "NamedTempFile::%s is called only from %s: %s" % (what, owner, sites))
    # AtomicOutFile::new sites in BasicCreator
    n = 0
    for r in _roots(F)[:2]:
        n += len(F.body(r).calls(r"creator::AtomicOutFile::new::<"))
    cx.ob("R1", "R1/atomic-sites", n >= 1, "(BasicCreator)", "BasicCreator creates its output files through AtomicOutFile::new (%d sites; 5 on the pinned tree; the binding condition is no-direct-create-or-rename above)" % n, trivial=True)


def r2_temp_dir(cx):
    F = cx.F
    f = F.one(name="creator::AtomicOutFile::new")
    b = F.body(f)
    ni = b.calls(r"tempfile::NamedTempFile::new_in")
    ok = len(ni) == 1
    if ok:
        oc = b.origin_calls(ni[0][1]["args"][0])
        ok = any(call_is(t, r"Utf8Path::parent$") for _, t in oc) and ("param", 1) in b.origins(ni[0][1]["args"][0])
    cx.ob("R2", "R2/temp-in-destination-dir", ok, f, "the temporary file is created in final_path.parent()")
    g = F.one(impl_self="creator::AtomicOutFile", item="close_file", trait="PackRecipient", closure=False)
    gb = F.body(g)
    ps = gb.calls(r"NamedTempFile::<.*>::persist|NamedTempFile<.*>::persist")
    ok = len(ps) == 1 and ("field", "final_path") in gb.origins(ps[0][1]["args"][1]) and ("field", "temp_file") in gb.origins(ps[0][1]["args"][0])
    cx.ob("R2", "R2/persist-to-final-path", ok, g, "close_file persists self.temp_file to self.final_path")


def _restricted(b, field, discr):
    """successors under the assumption that the enum field `field` of self has discriminant `discr`"""
    succ = []
    for i in range(b.n):
        t = b.term(i)
        ss = list(b.succ[i])
        if t["k"] == "switch":
            l = op_local(t["op"])
            for d in b.defs().get(l, []) if l is not None else []:
                if d[0] == "stmt" and d[3]["k"] == "assign" and d[3]["rv"]["k"] == "discr" and place_fields(d[3]["rv"]["pl"])[-1:] == [field]:
                    ss = [t["targets"][t["vals"].index(discr)]] if discr in t["vals"] else [t["otherwise"]]
        succ.append(ss)
    return succ


def _first_field(pl):
    """index of the first field projection of a place when it is the outermost projection"""
    pr = pl.get("p", [])
    if pr and isinstance(pr[0], dict) and "f" in pr[0]:
        return pr[0]["f"]
    return None


def _origins_in(b, op, blocks):
    """provenance restricted to definitions located in `blocks`; field-sensitive for tuples/structs built
    by an aggregate and read back through a field projection (destructuring)"""
    out = set()
    seen = set()
    st = []

    def push_place(p):
        st.append((p["l"], _first_field(p)))

    def push(o):
        p = op_place(o)
        if p is not None:
            push_place(p)
    push(op)
    defs = b.defs()
    while st:
        l, fld = st.pop()
        if (l, fld) in seen:
            continue
        seen.add((l, fld))
        for d in defs.get(l, []):
            bb = d[1]
            if bb not in blocks:
                continue
            if d[0] == "call":
                out.add(bb)
                for a in d[2]["args"]:
                    push(a)
            elif d[3]["k"] == "assign":
                lhs = d[3]["lhs"]
                lf = _first_field(lhs)
                if fld is not None and lf is not None and lf != fld:
                    continue  # assignment to another field of the same local
                rv = d[3]["rv"]
                if rv["k"] == "agg" and fld is not None and lf is None and rv["ak"] in ("tuple", "adt") and fld < len(rv["fields"]):
                    push(rv["fields"][fld])
                    continue
                for o in rv_operands(rv):
                    push(o)
                if "pl" in rv:
                    push_place(rv["pl"])
    return out


RECIPIENT_ROOTS = (r"creator::AtomicOutFile::new::<", r"ContentPackCreator::<.*>::finalize$", r"creator::NamedFile::new")


def r3_entry_point_last(cx):
    F = cx.F
    f = _roots(F)[1]
    b = F.body(f)
    e = F.enum("basic_creator::ConcatMode")
    M = b.calls(r"ManifestPackCreator::finalize::<")
    C = b.calls(r"PackRecipient>::close_file$")
    cx.ob("R3", "R3/anchors", len(M) == 2 and len(C) >= 3, f, "BasicCreator::finalize has %d manifest writes and %d close_file sites" % (len(M), len(C)))
    err = b.error_blocks()
    traced = set()
    for v in e["variants"]:
        succ = _restricted(b, "concat_mode", v["discr"])
        R = c05._reach(succ, 0, avoid=err)
        Mm = [(i, t) for i, t in M if i in R]
        Cm = [(i, t) for i, t in C if i in R]
        manifest_roots = set()
        for mi, mt in Mm:
            manifest_roots |= {x for x in _origins_in(b, mt["args"][1], R) if call_is(b.term(x), *RECIPIENT_ROOTS)}
        for k, (ci, ct) in enumerate(sorted(Cm, key=lambda x: x[1].get("ln", 0))):
            after = [mi for mi, _ in Mm if ci in c05._reach(succ, mi, avoid=err) and ci != mi]
            roots = {x for x in _origins_in(b, ct["args"][0], R) if call_is(b.term(x), *RECIPIENT_ROOTS)}
            if not after:
                if roots:
                    traced.add(ci)
                cx.ob("R3", "R3/%s/close@%d" % (v["name"], k), True, f, "mode %s: close_file at line %s is pre-manifest (not reachable from a manifest write): a pack file, persisted before the entry point" % (v["name"], ct.get("ln")), ln=ct.get("ln"))
            else:
                # roots of the manifest writes that can reach it
                mr = set()
                for mi, mt in Mm:
                    if mi in after:
                        mr |= {x for x in _origins_in(b, mt["args"][1], R) if call_is(b.term(x), *RECIPIENT_ROOTS)}
                ok = roots <= mr  # no recipient root at all in this mode = the site closes nothing here (Option is None)
                if roots:
                    traced.add(ci)
                cx.ob("R3", "R3/%s/close@%d" % (v["name"], k), ok, f,
                      "mode %s: close_file at line %s runs after the manifest is written, so it may only persist the file the manifest was written into; it closes files created at lines %s, the manifest went into files created at lines %s" % (
                          v["name"], ct.get("ln"), sorted(b.ln(x) for x in roots), sorted(b.ln(x) for x in mr)), ln=ct.get("ln"))
        # something holding the manifest is closed after it
        post = [ci for ci, _ in Cm if any(ci in c05._reach(succ, mi, avoid=err) for mi, _ in Mm)]
        cx.ob("R3", "R3/%s/has-post-manifest-close" % v["name"], bool(post) and bool(Mm), f, "mode %s: a manifest write and a later close_file exist" % v["name"])
    cx.ob("R3", "R3/every-close-traced", traced == {ci for ci, _ in C}, f, "for every close_file site the closed recipient was traced back to the file it was created as, in at least one mode (%d/%d)" % (len(traced), len(C)))
    # extra content packs: closed inside the closure, which is created and run (collect) before any manifest write
    cl = [c for c in F.closures_of(f) if "blocks" in c and F.body(c).calls(r"PackRecipient>::close_file$")]
    ok = len(cl) == 1
    if not cl and not b.calls(r"Iterator>::map::<"):
        # the same step written as a plain loop in finalize itself: the extra creators are finalised and their files closed
        # inside a loop that no manifest write reaches
        ok = False
        ext = [(i, t) for i, t in b.calls(r"PackRecipient>::close_file$")
               if i in b.reach_after(i) and any(x[0] == "call" and call_is(b.term(x[1]), r"ContentPackCreator::<dyn .*>::finalize$|ContentPackCreator::<.*dyn .*>::finalize$") for x in b.origins(t["args"][0]))]
        if ext:
            ok = not any(i in b.reach_after(mi, avoid=err) for mi, _ in M for i, _ in ext)
    elif not cl:
        # the same step given to `map` by name (`.map(close_extra_pack)`): a function whose body closes the pack file
        ok = False
        for i, t in b.calls(r"Iterator>::map::<"):
            for x in b.origins(t["args"][1], through_calls=False) if len(t["args"]) > 1 else []:
                if x[0] == "const" and isinstance(x[1], str) and x[1].startswith("fn:"):
                    nm = re.sub(r"<.*?>", "", x[1][3:])
                    gs = [g_ for g_ in F.fns if re.sub(r"<.*?>", "", g_["name"]) == nm and "blocks" in g_]
                    if len(gs) == 1 and F.deep_body(gs[0], only=r"creator::").calls(r"PackRecipient>::close_file$"):
                        col = [j for j, _ in b.calls(r"Iterator>::collect::<") if b.dominates(i, j)]
                        after_m = any(x_ in b.reach_after(mi, avoid=err) for mi, _ in M for x_ in [i] + col)
                        ok = bool(col) and not after_m
    elif ok:
        crea = [i for i, blk in enumerate(b.blocks) for s in blk["s"] if s["k"] == "assign" and s["rv"]["k"] == "agg" and s["rv"].get("closure_fn") == cl[0]["id"]]
        col = [i for i, t in b.calls(r"Iterator>::collect::<") if any(crea and crea[0] in b.reachable(0) and b.dominates(crea[0], i) for _ in [0])]
        after_m = any(x in b.reach_after(mi, avoid=err) for mi, _ in M for x in crea + col)
        ok = bool(crea) and bool(col) and not after_m
    cx.ob("R3", "R3/extra-packs-before-manifest", ok, f, "extra content packs are finalised and persisted (closure run by collect) before any manifest write")


def r4_witness(cx):
    """compile-fail witness: using a recipient after close_file does not type-check (E0382)"""
    import witness
    for name, ok, detail in witness.run(["c09_close_consumes"], repo=cx.repo):
        cx.ob("R4", "R4/%s" % name, ok, "/verif/witness/src/lib.rs", detail)


r4_witness.only_configs = ("lib-all3",)

def r5_buffered_writes_are_flushed(cx):
    """an I/O error on any byte of an output must make creation fail (and so never be published): a BufWriter built over
    an output in the creator is never left to flush in its destructor (which discards the error) -- on every
    successful path from its construction it is flush()ed / into_inner()ed, and for one stored in a struct the owning
    type does it in the method that gives the file back"""
    F = cx.F
    n = 0
    for f in F.live_fns:
        if "blocks" not in f or not re.search(r"^creator::|creator::", f["name"]) or f.get("kind") == "closure":
            continue
        b = F.body(f)
        for i, t in b.calls(r"std::io::BufWriter::<.*>::(new|with_capacity)$"):
            n += 1
            dest = t["dest"]["l"]
            # moved into an aggregate (struct field): the owner must release it explicitly
            stored = any(st["k"] == "assign" and st["rv"]["k"] == "agg" and st["rv"].get("ak") == "adt" and any(op_local(fo) == dest for fo in st["rv"]["fields"])
                         for blk in b.blocks for st in blk["s"])
            short = ((f.get("impl_self") or "").split("<")[0].split("::")[-1] + "." + f["item_name"]) if f.get("impl_self") and f.get("item_name") else ".".join(f["name"].split("::")[-2:])
            if stored:
                owner = f.get("impl_self") or ""
                rel = [g["name"] for g in F.live_fns if "blocks" in g and g.get("impl_self") == owner and F.body(g).calls(r"BufWriter::<.*>::into_inner$|BufWriter<.*> as std::io::Write>::flush$")]
                cx.ob("R5", "R5/%s/stored-writer-released" % short, bool(rel), f, "the BufWriter stored by %s is released with into_inner()/flush() by %s" % (short, rel or "nobody"), ln=t.get("ln"))
                continue
            rel = {j for j, tt in b.calls(r"BufWriter::<.*>::into_inner$|BufWriter::<.*>::into_parts$|BufWriter<.*> as std::io::Write>::flush$") if dest in {x[1] for x in b.origins(tt["args"][0]) if x[0] == "local"} | {op_base_local(tt["args"][0])} or ("call", i) in b.origins(tt["args"][0])}
            ok = bool(rel) and b.must_pass_before_return(rel, start=i)
            cx.ob("R5", "R5/%s/flushed-before-drop" % short, ok, f,
                  "every successful path from BufWriter::new reaches flush()/into_inner() (an error in the implicit flush of Drop is discarded)", ln=t.get("ln"))
    if n < 3:
        raise AnchorLost("creator BufWriter sites: %d" % n)


def r6_thread_errors_reach_finalize(cx):
    """creation must fail when a worker or the writer thread failed (contents are read and compressed in the workers):
    the io::Result carried by every JoinHandle::join in the creator is propagated (`?` / returned), never fed to a
    combinator that can drop its error (or, or_else, ok, unwrap_or*, is_ok, is_err, err, map_or*)"""
    F = cx.F
    n = 0
    drop = r"std::result::Result::<.*>::(or|or_else|ok|unwrap_or|unwrap_or_default|unwrap_or_else|is_ok|is_err|err|map_or|map_or_else)(::<.*>)?$"
    for f in F.live_fns:
        if "blocks" not in f or not re.search(r"creator::", f["name"]):
            continue
        b = F.body(f)
        joins = b.calls(r"JoinHandle::<.*>::join$")
        if not joins:
            continue
        jb = {i for i, _ in joins}
        short = ((f.get("impl_self") or "").split("<")[0].split("::")[-1] + "." + f["item_name"]) if f.get("impl_self") and f.get("item_name") else ".".join(f["name"].split("::")[-2:])
        lost = []
        for i, t in b.calls(drop):
            if any(x[0] == "call" and x[1] in jb for a in t["args"] for x in b.origins(a)):
                lost.append("%s at line %s" % (callee_str(t).split("::")[-1], t.get("ln")))
        used = all(any(("call", j) in b.origins(t["args"][0]) for _, t in b.calls(r"Try>::branch$")) or ("call", j) in b.origins(0) for j in jb)
        n += 1
        cx.ob("R6", "R6/%s/join-results-propagated" % short, not lost and used, f,
              "%d JoinHandle::join result(s): each reaches `?` or the return value, none goes through an error-dropping combinator (%s)" % (len(joins), lost or "none"))
    if n < 1:
        raise AnchorLost("no JoinHandle::join in the creator")


def r7_no_partial_write_accepted(cx, rule="R7"):
    """'all-or-nothing': `Write::write` may accept fewer bytes than it is given (a full disk, a quota, a file size limit)
    and says so in its result; a creator that calls it directly and drops the count takes a truncated file for a
    complete one, returns Ok and lets the rename publish it. Every direct `write` of the creators either uses the count
    it returns or hands the whole Result back to its caller (the `impl Write` wrappers); everything else goes through
    `write_all`."""
    F = cx.F
    n = 0
    for f in F.live_fns:
        if "blocks" not in f or not re.search(r"^<?creator::|^tools::|^<?bases::write::|^<.* as bases::write::", f["name"]):
            continue
        b = None
        for i, blk in enumerate(f["blocks"]):
            t = blk["t"]
            if blk.get("cleanup") or not call_is(t, r"io::Write>::write$"):
                continue
            b = b or F.body(f)
            n += 1
            dest = b.whole_copies({t["dest"]["l"]})
            returned = 0 in dest
            vals = ok_payloads(b, i)
            # what is computed from the count (copies, casts, arithmetic, aggregates -- not through calls or discriminants)
            derived = set(vals)
            changed = True
            while changed:
                changed = False
                for blk2 in b.blocks:
                    for st in blk2["s"]:
                        if st["k"] == "assign" and st["lhs"]["l"] not in derived and st["rv"]["k"] in ("use", "cast", "bin", "un", "agg"):
                            ops = list(rv_operands(st["rv"])) + list(st["rv"].get("fields", []) if st["rv"]["k"] == "agg" else [])
                            if any(op_place(o) is not None and op_place(o)["l"] in derived for o in ops if isinstance(o, dict)):
                                derived.add(st["lhs"]["l"])
                                changed = True
            returned = returned or 0 in derived
            # used = it decides something (a comparison, a loop) or is handed to something that acts on it (a slice index, a
            # position) -- summing it into a total that only travels through `?` is not a use
            used = False
            for blk2 in b.blocks:
                if blk2.get("cleanup"):
                    continue
                t2 = blk2["t"]
                if t2["k"] == "call" and not call_is(t2, r"Try>::branch$", r"from_residual$", r"From<.*>>::from$", r"Into<.*>>::into$"):
                    for a in t2["args"]:
                        pl = op_place(a)
                        if pl is not None and pl["l"] in derived:
                            used = True
                elif t2["k"] == "switch":
                    pl = op_place(t2["op"])
                    if pl is not None and pl["l"] in derived:
                        used = True
            cx.ob(rule, rule + "/%s/write-count-used" % re.sub(r"<.*?>", "", f["name"]).split("::")[-1], returned or used, f,
                  "the number of bytes accepted by Write::write at line %s is used, or the Result is returned as it is (returned: %s, count used: %s)" % (t.get("ln"), returned, used), ln=t.get("ln"))
    cx.ob(rule, rule + "/direct-writes", True, "(creator)", "%d direct calls of Write::write in the creators" % n, trivial=True)


def r8_an_error_is_not_overwritten_by_a_later_success(cx):
    """'if an I/O error occurs at any point the destination does not hold an incomplete container': the error of a
    step that is repeated (one cluster, one pack, one block per turn of a loop) is looked at in the turn that produced it
    -- `?`, a match, a combinator. A Result that is only stored in a variable inside the loop and read after the loop
    reports the last turn alone: an earlier failure is overwritten by a later success and creation goes on to rename."""
    F = cx.F
    n = 0
    bad = []
    for f in F.live_fns:
        if "blocks" not in f or not re.search(r"creator::|^bases::write|tools::", f["name"]):
            continue
        b = None
        for i, blk in enumerate(f["blocks"]):
            t = blk["t"]
            if blk.get("cleanup") or t["k"] != "call":
                continue
            ty = (t["func"].get("c") or {}).get("ty", "")
            if not re.search(r"-> std::result::Result<.*(bases::types::error::Error|std::io::Error)>( \{|$)", ty):
                continue
            b = b or F.body(f)
            after = b.reach_after(i)
            if i not in after:
                continue       # not in a loop
            n += 1
            loop = {x for x in after if i in b.reach_after(x)} | {i}
            T = b.forward_locals({t["dest"]["l"]}, through_calls=False)
            inside = outside = 0
            for x in range(b.n):
                if b.is_cleanup(x):
                    continue
                tt = b.term(x)
                ops = []
                if tt["k"] == "call" and x != i:
                    ops = tt["args"]
                elif tt["k"] == "switch":
                    ops = [tt["op"]]
                hit = any(op_base_local(o) in T for o in ops)
                hit = hit or (tt["k"] == "return" and 0 in T and x not in loop)
                if hit:
                    if x in loop:
                        inside += 1
                    else:
                        outside += 1
            if outside and not inside:
                bad.append((f, t.get("ln"), callee_str(t).split("::<")[0]))
    for f, ln, what in bad:
        cx.ob("R8", "R8/%s/result-read-after-the-loop" % re.sub(r"<.*?>", "", f["name"]).split("::")[-1], False, f,
              "the Result of %s (line %s) is produced in a loop and only read after it: the failure of one turn is overwritten by the next" % (what, ln), ln=ln)
    if n < 20:
        raise AnchorLost("fallible calls in loops of the creator: %d" % n)
    cx.ob("R8", "R8/errors-are-read-in-the-turn-that-made-them", not bad, "(creator)", "%d fallible calls inside loops of the creator: each result is inspected inside its loop" % n)


def r9_only_one_file_mode_creates_the_entry_point_early(cx):
    """'the destination path either does not exist, still holds the previous file, or holds a complete container': in the
    packagings that spread the container over several files the destination is the *manifest*, written last. The file
    BasicCreator::new opens for the content pack is therefore the destination itself only under ConcatMode::OneFile; in
    every other mode its path comes out of new_with_extension(..) -- whatever the shape of the test on the mode."""
    F = cx.F
    f = F.one(impl_self="basic_creator::BasicCreator", item="new", closure=False)
    b = F.deep_body(f, only=r"basic_creator::BasicCreator", closures=True)
    en = F.enum("ConcatMode")
    if not en:
        raise AnchorLost("enum ConcatMode")
    n = 0
    for v in en["variants"]:
        r, _ = b.explore(assume_discr={r"basic_creator::ConcatMode$": v["discr"]}, avoid=b.panic_blocks())
        news = [(i, t) for i, t in b.calls(r"AtomicOutFile::new(::<.*>)?$") if i in r]
        if not news:
            raise AnchorLost("BasicCreator::new opens no AtomicOutFile under ConcatMode::%s" % v["name"])
        for i, t in news:
            o = b.origins(t["args"][0], blocks=set(r), mut_ref_args=True)
            ext = any(x[0] == "call" and call_is(b.term(x[1]), r"new_with_extension$|with_extension$|set_extension$|with_added_extension$") for x in o)
            n += 1
            if v["name"] == "OneFile":
                cx.ob("R9", "R9/new/%s/content-pack-file" % v["name"], True, f, "under OneFile the content pack is written in the destination file itself (renamed last, once complete)", ln=t.get("ln"))
            else:
                cx.ob("R9", "R9/new/%s/content-pack-file" % v["name"], ext, f, "under %s the file opened for the content pack is a side file (its path comes out of new_with_extension), not the destination" % v["name"], ln=t.get("ln"))


RULES = [
    ("R9", r9_only_one_file_mode_creates_the_entry_point_early, 3),
    ("R8", r8_an_error_is_not_overwritten_by_a_later_success, 1),
    ("R7", r7_no_partial_write_accepted, 1),
    ("R6", r6_thread_errors_reach_finalize, 1),
    ("R5", r5_buffered_writes_are_flushed, 3),
    ("R1", r1_who_may, 6),
    ("R2", r2_temp_dir, 2),
    ("R3", r3_entry_point_last, 12),
    ("R4", r4_witness, 1),
]
