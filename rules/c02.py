"""C02 — entries read back with exactly the property values they were written with.
Structural clauses: R1 signed columns are sized sign-aware; R2 16-bit tail size bound at every
SizedOffset construction on the write path; R3 representability guards stay in front of the
narrowing they protect; R4 entry encode <-> decode and property-definition bit fields; R5 index
window guard; R6 order of finalisation; R7 array length is recorded; R8 width covers value."""
import re
from lib import *
import ref, layout, c01, c05

PROPERTY = "C02"
EXPLANATION = ("Necessary structural clauses of C02 decided from MIR/HIR facts and the polymorphic instance graph: (R1) wherever the "
               "unsigned-magnitude width function needed_bytes is instantiated at a signed type on the column-sizing path, the value "
               "fed to it went through a sign-aware transformation; (R2) every SizedOffset built on the write path has a size that is a "
               "small constant, is guarded by a comparison with <= 0xFFFF whose failing arm returns an error, or is bounded by the "
               "extracted tail layout and the declared loop bound; (R3) the five representability guards dominate their narrowings; "
               "(R4) Properties::serialize_entry and the reader builders' create() equal the frozen entry encoding, and the bit-field "
               "constants of the property definition agree; (R5) the index window guard; (R6) value stores are finalised before "
               "entry stores, entries processed before the schema is finalised, variants padded to one size; (R7) an array column "
               "with an inline prefix always records its length; (R8) the offset width of the indexed value store covers what is "
               "written with it. Value equality for any entry is not decided."
               " (R1 fold) the sign-folding helper shifts under a comparison with a constant bound; (R3 array-length-measured) the value sizing the array length column is `<array>.size` on every arm; (R10) reader property offsets are the running sum of the sizes before, read before the accumulator is advanced."
               ' Added later: (R11) writer and reader agree on where a variant ends; (R12) the inline prefix of an array is bounded by 31 before it is packed; (R13) entries equal on every sort key compare Equal; (R14) sizes are compared before they are narrowed (reader); (R15) every value handed to a store handle is registered in the store; (R8) the offset width comes from the total size only. (R16) the declared width of an integer column comes from the sizing pass alone. (R5) a window handed on as a plain range begins at offset() and spans count() entries; (R17) every value counted in Property::process is also sized on every path.')
EXPLANATION += ' Batch 11: (R18) the data block and the offset table of a value store are both produced by walking sorted_indirect.'
EXPLANATION += ' Batch 12: (R19) the width of a column is needed_bytes of the maximum seen, returned as it is (no rounding to a native width).'
ASSUMPTIONS = ["byteorder read_int sign-extends", "rustc MIR/HIR construction and trait resolution", "reference table for the entry encoding"]

SIGNED = r"<(i8|i16|i32|i64|i128|isize)>"


def _sign_aware_body(F, g):
    """does function g (a local fn) examine the sign of a signed integer?"""
    if "blocks" not in g:
        return False
    b = F.body(g)
    for blk in b.blocks:
        for s in blk["s"]:
            if s["k"] == "assign" and s["rv"]["k"] == "bin":
                rv = s["rv"]
                signed = rv.get("a_ty", "").startswith("i")
                if signed and rv["op"] == "Shr" and isinstance(op_const_val(rv["b"]), int) and op_const_val(rv["b"]) >= 7:
                    return True
                if signed and rv["op"] in ("Lt", "Ge", "Le", "Gt") and (op_const_val(rv["b"]) == 0 or op_const_val(rv["a"]) == 0):
                    return True
    if b.calls(r"num::<impl i(8|16|32|64|128|size)>::(abs|unsigned_abs|is_negative|is_positive|signum|leading_zeros|leading_ones|checked_abs|wrapping_abs)$"):
        return True
    return False


def _sign_aware_operand(F, b, op):
    for j, t in b.origin_calls(op):
        c = t.get("callee") or {}
        if c.get("rfn") is not None and _sign_aware_body(F, F.fns[c["rfn"]]):
            return callee_str(t)
        if call_is(t, r"num::<impl i(8|16|32|64|128|size)>::(abs|unsigned_abs|is_negative|signum|leading_zeros|leading_ones)$"):
            return callee_str(t)
    return None


def r1_signed_width(cx):
    F = cx.F
    roots = [f for f in F.find(impl_self="schema::property::Property", closure=False) if f.get("item_name") in ("process", "finalize")]
    if len(roots) != 2:
        raise AnchorLost("schema::Property::{process,finalize}: %d" % len(roots))
    root_nodes = [n["id"] for n in F.inst["nodes"] if n.get("fn") in {r["id"] for r in roots} and n.get("root") == n.get("fn")]
    reach = F.inst_reach(root_nodes)
    nb = [n for n in F.inst["nodes"] if n["def"].endswith("bases::needed_bytes") and n["id"] in reach]
    unsigned = [n for n in nb if not re.search(SIGNED, n["path"])]
    signed = [n for n in nb if re.search(SIGNED, n["path"])]
    cx.ob("R1", "R1/unsigned-instances", len(unsigned) >= 3, roots[0], "needed_bytes is reachable from column sizing at unsigned types: %s" % sorted(n["path"] for n in unsigned))
    if not signed:
        cx.ob("R1", "R1/no-signed-instance", True, roots[0], "needed_bytes is never instantiated at a signed type on the column-sizing path", trivial=True)
        return
    # every site feeding a signed PropertySize must pass a sign-folded value
    f = [r for r in roots if r["item_name"] == "process"][0]
    b = F.body(f)
    sites = b.calls(r"PropertySize::" + SIGNED + r"::process$")
    cx.ob("R1", "R1/signed-instance-reachable", True, f, "needed_bytes::%s is reachable (through PropertySize<signed>): its inputs must be sign-folded; %d feeding sites" % (
        sorted(re.search(SIGNED, n["path"]).group(0) for n in signed), len(sites)), trivial=True)
    if not sites:
        cx.ob("R1", "R1/signed-feed-sites", False, f, "needed_bytes is instantiated at a signed type but no PropertySize<signed>::process site was found to check")
    for k, (i, t) in enumerate(sorted(sites, key=lambda x: x[1].get("ln", 0))):
        how = _sign_aware_operand(F, b, t["args"][1])
        cx.ob("R1", "R1/signed-feed@%d" % k, how is not None, f,
              "the value given to PropertySize<signed>::process (then to needed_bytes, an unsigned-magnitude width) is sign-folded first: %s" % (how or "no sign-aware transformation on its derivation"), ln=t.get("ln"))
    # Fixed arm and From<PropertySize> both go through needed_bytes on the stored key: nothing else to check


def r1b_fold_does_not_wrap(cx):
    """the sign-folding helper(s) feeding PropertySize<signed> shift the magnitude left: every such shift is a
    plain `<<` guarded by a comparison of the shifted value with a constant (a wrapping/checked shift, or an
    unguarded one, silently loses the top bit for |v| >= 2^62)"""
    F = cx.F
    f = [r for r in F.find(impl_self="schema::property::Property", item="process", closure=False)][0]
    b = F.body(f)
    helpers = set()
    for i, t in b.calls(r"PropertySize::" + SIGNED + r"::process$"):
        for j, tt in b.origin_calls(t["args"][1]):
            c = tt.get("callee") or {}
            if c.get("rfn") is not None and _sign_aware_body(F, F.fns[c["rfn"]]):
                helpers.add(c["rfn"])
    if not helpers:
        cx.ob("R1", "R1/fold-no-wrap/none", True, f, "no sign-folding helper to check", trivial=True)
        return
    for h in sorted(helpers):
        g = F.fns[h]
        gb = F.body(g)
        bad = [callee_str(t).split("::")[-1] + "@" + str(t.get("ln")) for i, t in gb.calls(r"num::<impl i(8|16|32|64|128|size)>::(checked_shl|wrapping_shl|overflowing_shl|unchecked_shl|rotate_left|wrapping_mul|checked_mul|wrapping_add)$")]
        shifts = [(i, s) for i, blk in enumerate(gb.blocks) if not blk.get("cleanup") for s in blk["s"] if s["k"] == "assign" and s["rv"]["k"] == "bin" and s["rv"]["op"] in ("Shl", "ShlUnchecked", "Mul", "MulWithOverflow") and s["rv"].get("a_ty", "").startswith("i")]
        unguarded = []
        for i, s in shifts:
            cds = gb.control_dep_switches(i)
            guarded = False
            for sw in cds:
                l = op_local(gb.term(sw)["op"])
                for d in gb.defs().get(l, []) if l is not None else []:
                    if d[0] == "stmt" and d[3]["rv"]["k"] == "bin" and d[3]["rv"]["op"] in ("Gt", "Ge", "Lt", "Le"):
                        oa, ob_ = gb.origins(d[3]["rv"]["a"]), gb.origins(d[3]["rv"]["b"])
                        pure = lambda o: bool(o) and all(x[0] == "const" for x in o)
                        if (pure(oa) or pure(ob_)) and {x for x in gb.origins(s["rv"]["a"]) if x[0] in ("param", "call")} & (oa | ob_):
                            guarded = True
            if not guarded:
                unguarded.append(s.get("ln"))
        cx.ob("R1", "R1/fold-no-wrap/%s" % g["name"].split("::")[-1], not bad and not unguarded and bool(shifts), g,
              "sign folding: the left shift of the magnitude is a plain `<<` under a comparison with a constant bound (wrapping/checked ops: %s; unguarded shifts at lines %s)" % (bad, unguarded))


def r2_tail_size(cx):
    F = cx.F
    limit = ref.REF["sizes"]["SizedOffset.size_mask"]
    sites = []
    for f in F.live_fns:
        if "blocks" not in f or not re.match(r"(<)?creator::", f["name"].replace("<", "", 1) if f["name"].startswith("<") else f["name"]):
            if not ("creator::" in f["name"]):
                continue
        if "blocks" not in f:
            continue
        b = None
        for i, blk in enumerate(f["blocks"]):
            if blk.get("cleanup"):
                continue
            for s in blk["s"]:
                if s["k"] == "assign" and s["rv"]["k"] == "agg" and s["rv"].get("adt", "").endswith("sized_offset::SizedOffset"):
                    d = dict(zip(s["rv"]["fnames"], s["rv"]["fields"]))
                    sites.append((f, i, d["size"], s.get("ln")))
            t = blk["t"]
            if call_is(t, r"SizedOffset::new$"):
                sites.append((f, i, t["args"][0], t.get("ln")))
    for f, bb, size_op, ln in sites:
        b = F.body(f)
        key = "R2/%s" % f["name"]
        # (a) constant
        cv = op_const_val(size_op)
        if cv is not None:
            cx.ob("R2", key, cv <= limit, f, "SizedOffset size is the constant %s" % cv, ln=ln)
            continue
        # (a') the size of another SizedOffset, carried over unchanged (a position re-expressed relative to another origin)
        if _is_size_of_sized_offset(b, size_op):
            cx.ob("R2", key, True, f, "SizedOffset size is the size field of an existing SizedOffset, copied unchanged", ln=ln, trivial=True)
            continue
        # (b) guard: a comparison of a length with a constant <= 0xFFFF dominating the site whose failing arm does not reach it
        guard = _guarded(b, bb, limit)
        if guard:
            cx.ob("R2", key, True, f, "tail size is guarded: %s" % guard, ln=ln)
            continue
        # (c) bounded by the layout of what was just serialised
        bound = _layout_bound(F, f, b, size_op)
        cx.ob("R2", key, bound is not None and bound[0] <= limit, f,
              "tail size must fit 16 bits: no constant, no guard; layout bound = %s" % (("%d bytes (%s)" % bound) if bound else "unbounded / unknown"), ln=ln)


def _is_size_of_sized_offset(b, op, depth=0):
    pl = op_place(op)
    if pl is None or depth > 6:
        return False
    pr = [e for e in pl.get("p", []) if e != "*"]
    if pr:
        e = pr[-1]
        return isinstance(e, dict) and e.get("n") == "size" and str(e.get("of", "")).endswith("SizedOffset")
    ds = b.defs().get(pl["l"], [])
    if len(ds) != 1 or ds[0][0] != "stmt" or ds[0][3]["k"] != "assign" or ds[0][3]["lhs"].get("p") or ds[0][3]["rv"]["k"] != "use":
        return False
    return _is_size_of_sized_offset(b, ds[0][3]["rv"]["op"], depth + 1)


def _guarded(b, site, limit):
    for s in range(b.n):
        t = b.term(s)
        if t["k"] != "switch" or b.is_cleanup(s) or not b.dominates(s, site):
            continue
        l = op_local(t["op"])
        for d in b.defs().get(l, []):
            if d[0] == "stmt" and d[3]["k"] == "assign" and d[3]["rv"]["k"] == "bin" and d[3]["rv"]["op"] in ("Gt", "Ge", "Le", "Lt"):
                rv = d[3]["rv"]
                c = op_const_deep(b, rv["b"]) if op_const_deep(b, rv["b"]) is not None else op_const_deep(b, rv["a"])
                if not isinstance(c, int) or isinstance(c, bool) or c > limit + 1:
                    continue
                # which arm reaches the site?
                arms = list(dict.fromkeys(t["targets"] + [t["otherwise"]]))
                reach = [a for a in arms if site in b.reachable(a, avoid={s})]
                if len(reach) == 1 and len(arms) == 2:
                    other = [a for a in arms if a != reach[0]][0]
                    # the other arm returns an error / diverges without writing
                    r = b.reachable(other, avoid={s})
                    writes = [x for x in r if call_is(b.term(x), r"write_serializer$", r"write_all$")]
                    if not writes:
                        return "comparison with %d at line %s, failing arm returns without writing" % (c, b.ln(s))
    return None


def _layout_bound(F, f, b, size_op):
    """max byte length of the tail whose size is recorded, from the extracted layout + declared loop bounds"""
    # what was serialised right before? a call to serialize_cluster_tail, or a ser_write of a typed value
    import streams
    oc = b.origin_calls(size_op)
    names = [callee_str(t) for _, t in oc]
    if b.calls(r"clusterwriter::serialize_cluster_tail$"):
        lay = ref.extracted(F, "ClusterTail")[0]
        mx = F.const("cluster::MAX_BLOBS_PER_CLUSTER")["val"]
        # add_content's assert keeps offsets.len() <= MAX_BLOBS_PER_CLUSTER (checked by R3); loop runs len-1 times
        return _max_len(lay, loop_bound=mx - 1), "cluster tail with at most %d offsets of 8 bytes" % (mx - 1)
    wts = [streams.written_type(b, t) for _, t in b.calls(r"::ser_write$")]
    for i, t in b.calls(r"::ser_write$"):
        wt = streams.written_type(b, t)
        if wt and wt.endswith("check::CheckInfo") and any(j == i for j, _ in oc) or (wt and wt.endswith("check::CheckInfo") and any(call_is(tt, r"stream_position$") for _, tt in oc)):
            lay = ref.extracted(F, "CheckInfo")[0]
            return _max_len(lay, loop_bound=0), "CheckInfo block"
    return None


def _max_len(paths, loop_bound):
    best = 0
    for p in paths:
        tot = 0
        for a in p:
            if a[0] in ("u", "i"):
                tot += a[1]
            elif a[0] in ("usized", "isized"):
                tot += 8
            elif a[0] == "bytes":
                tot += a[1] if isinstance(a[1], int) else 10 ** 9
            elif a[0] == "pstr_padded":
                tot += a[1] + 1
            elif a[0] == "loop":
                tot += loop_bound * _max_len(a[1], loop_bound)
            else:
                tot += 10 ** 9
        best = max(best, tot)
    return best


def _guard_dominates(cx, rule, key, f, cmp_ops, const, protected_pred, what):
    F = cx.F
    b = F.body(f)
    prot = protected_pred(b)
    ok = bool(prot)
    detail = "protected site not found"
    if ok:
        ok = False
        detail = "no dominating comparison with %s" % const
        for s in range(b.n):
            t = b.term(s)
            if t["k"] != "switch" or b.is_cleanup(s):
                continue
            l = op_local(t["op"])
            for d in b.defs().get(l, []):
                hit = False
                if d[0] == "stmt" and d[3]["k"] == "assign" and d[3]["rv"]["k"] == "bin" and d[3]["rv"]["op"] in cmp_ops:
                    rv = d[3]["rv"]
                    if const in (op_const_deep(b, rv["a"]), op_const_deep(b, rv["b"])) or const is None:
                        hit = True
                if d[0] == "call" and const is None and call_is(d[2], r"PartialOrd.*>::(le|lt|ge|gt)$"):
                    hit = True
                if hit:
                    arms = list(dict.fromkeys(t["targets"] + [t["otherwise"]]))
                    for p in prot:
                        reach = [a for a in arms if p in b.reachable(a, avoid={s})]
                        if len(reach) == 1 and b.dominates(s, p):
                            ok = True
                            detail = "guard at line %s dominates line %s" % (b.ln(s), b.ln(p))
    cx.ob(rule, key, ok, f, "%s: %s" % (what, detail))


def r3_guards(cx):
    F = cx.F
    # 1. set_entry_idx: len <= u32::MAX before the closure doing `idx as u32` is created/used
    f = F.fn_named("entry_store::set_entry_idx")
    _guard_dominates(cx, "R3", "R3/set_entry_idx", f, ("Le", "Lt", "Gt", "Ge"), 4294967295,
                     lambda b: [i for i, t in b.calls(r"for_each", r"ParallelIterator>::for_each")],
                     "entries.len() <= u32::MAX is asserted before indices are narrowed to u32")
    # 2. Property::process Array arm: array_size <= 0x00FFFFFF before max_array_size.process
    g = [x for x in F.find(impl_self="schema::property::Property", item="process", closure=False)][0]
    _guard_dominates(cx, "R3", "R3/array-size-24-bits", g, ("Le", "Lt", "Gt", "Ge"), 0x00FFFFFF,
                     lambda b: [i for i, t in b.calls(r"PropertySize::<usize>::process$")],
                     "array_size <= 0x00FFFFFF is asserted before the array length column is sized (the reader accepts a length field of at most 3 bytes)")
    # 2b. the length that sizes the column is the length that is written: every value reaching max_array_size.process
    #     is the `size` field of the array value at hand (serialize_entry writes `a.size` with that column width)
    gb = F.body(g)
    ps = gb.calls(r"PropertySize::<usize>::process$")
    if len(ps) != 1:
        raise AnchorLost("Property::process: PropertySize::<usize>::process sites: %d" % len(ps))
    ao = gb.origins(ps[0][1]["args"][1], through_calls=False)
    consts = sorted(x[1] for x in ao if x[0] == "const" and isinstance(x[1], int) and not isinstance(x[1], bool))
    cx.ob("R3", "R3/array-length-measured", ("field", "size") in ao and not consts, g,
          "the value that sizes the array length column is read from `<array>.size` on every arm of the value match, never a per-variant constant (constants reaching it: %s)" % consts, ln=ps[0][1].get("ln"))
    # 3. ClusterCreator::add_content — evaluated in C01-R2 (same guard), referenced here
    h = F.one(impl_self="ClusterCreator", item="add_content", closure=False)
    c = F.const("cluster::MAX_BLOBS_PER_CLUSTER")
    _guard_dominates(cx, "R3", "R3/blob-index-u16", h, ("Lt", "Le"), c["val"],
                     lambda b: [i for i, blk in enumerate(b.blocks) if not blk.get("cleanup") and any(s["k"] == "assign" and s["rv"]["k"] == "cast" and s["rv"]["ck"] == "IntToInt" and s["rv"]["ty"] == "u16" for s in blk["s"])],
                     "offsets.len() < MAX_BLOBS_PER_CLUSTER before `len as u16`")
    # 4. PArray::serialize_string_size: len <= max_len before `as u8`
    k = F.one(impl_self="PArray", item="serialize_string_size", closure=False)
    _guard_dominates(cx, "R3", "R3/pstring-len-u8", k, ("Le", "Lt", "Gt", "Ge"), None,
                     lambda b: [i for i, blk in enumerate(b.blocks) if not blk.get("cleanup") and any(s["k"] == "assign" and s["rv"]["k"] == "cast" and s["rv"]["ck"] == "IntToInt" and s["rv"]["ty"] == "u8" for s in blk["s"])],
                     "string.len() <= max_len is asserted before the length is narrowed to one byte")
    # 5. PropertySize::process Fixed arm: size >= needed_bytes(v)
    m = [x for x in F.find(impl_self="schema::property::PropertySize", item="process", closure=False)]
    if len(m) != 1:
        raise AnchorLost("PropertySize::process")
    mb = F.body(m[0])
    nb = mb.calls(r"bases::needed_bytes::<")
    cmpc = mb.calls(r"PartialOrd.*>::(ge|le|lt|gt)$")
    ok = len(nb) == 1 and len(cmpc) >= 1 and any(("call", nb[0][0]) in mb.origins(t["args"][1]) | mb.origins(t["args"][0]) for _, t in cmpc)
    pan = mb.panic_blocks()
    cx.ob("R3", "R3/fixed-size-holds-value", ok and bool(pan), m[0], "a Fixed column size is asserted to be >= needed_bytes(value)")


def r4_entry_encoding(cx):
    F = cx.F
    for name in ("EntryEncode", "ArrayDecode", "ContentDecode", "IntDecode", "SignedDecode", "VariantIdDecode", "PropertyDef"):
        wl, rl, wf, rf = ref.extracted(F, name)
        if wf is not None:
            want = ref.ref_layout(name, "w")
            cx.ob("R4", "R4/%s/writer" % name, wl == want, wf, "writer side of %s equals the frozen entry encoding%s" % (name, "" if wl == want else "; extracted-only %s reference-only %s" % (short(layout.to_json(wl - want), 300), short(layout.to_json(want - wl), 300))))
        if rf is not None:
            want = ref.ref_layout(name, "r")
            cx.ob("R4", "R4/%s/reader" % name, rl == want, rf, "reader side of %s equals the frozen entry encoding%s" % (name, "" if rl == want else "; extracted-only %s reference-only %s" % (short(layout.to_json(rl - want), 300), short(layout.to_json(want - rl), 300))))
    # signed decode sign-extends: reads are read_i*/read_isized only
    sd = F.one(**ref.STRUCTS["SignedDecode"][1])
    sb = F.body(sd)
    un = sb.calls(r"RandomParser>::read_u(8|16|32|64|sized)$")
    sg = sb.calls(r"RandomParser>::read_i(8|16|32|64|sized)$")
    # unsigned reads are allowed only for the deported key
    okk = len(sg) >= 5 and all(("field", "deported") in sb.origins(t["args"][0]) or _in_deported_arm(sb, i) for i, t in un)
    cx.ob("R4", "R4/signed-decode-sign-extends", okk, sd, "SignedProperty::create reads the value with the sign-extending read_i8/16/32/64/isized (unsigned reads only for a deported key)")
    # bit fields of the property definition
    bits = ref.REF["bits"]
    w = F.one(**ref.STRUCTS["PropertyDef"][0])
    r = F.one(**ref.STRUCTS["PropertyDef"][1])
    wc = _bin_consts(F.body(w))
    rc = _bin_consts(F.body(r))
    flags_w = {c for (op, c) in wc if op in ("Add", "AddWithOverflow", "BitOr") and c in (4, 8)}
    shl_w = {c for (op, c) in wc if op == "Shl"}
    cx.ob("R4", "R4/propdef-bits/writer", flags_w == set(bits["writer_flags"]) and shl_w == set(bits["writer_shl"]), w,
          "layout::Property::serialize: flag constants %s (default 0b1000, 2-byte pack id 0b0100), shifts %s (value-id size << 5)" % (sorted(flags_w), sorted(shl_w)))
    and_r = {c for (op, c) in rc if op == "BitAnd"}
    shr_r = {c for (op, c) in rc if op == "Shr"}
    cx.ob("R4", "R4/propdef-bits/reader", and_r == set(bits["reader_masks"]) and shr_r == set(bits["reader_shr"]), r,
          "RawProperty::parse: masks %s, shifts %s equal the reference" % (sorted(and_r), sorted(shr_r)))


def _in_deported_arm(b, bb):
    cds = b.control_dep_switches(bb)
    return any(("field", "deported") in b.origins(b.term(s)["op"]) for s in cds)


def _bin_consts(b):
    out = set()
    for blk in b.blocks:
        if blk.get("cleanup"):
            continue
        for s in blk["s"]:
            if s["k"] == "assign" and s["rv"]["k"] == "bin":
                for o in (s["rv"]["a"], s["rv"]["b"]):
                    v = op_const_val(o)
                    if isinstance(v, int) and not isinstance(v, bool):
                        out.add((s["rv"]["op"], v))
    return out


def r5_index_window(cx):
    F = cx.F
    fs = [f for f in F.fns if f.get("in_trait", "").endswith("range::RangeTrait") and f.get("item_name") == "get_entry"]
    if len(fs) != 1:
        raise AnchorLost("RangeTrait::get_entry")
    f = fs[0]
    b = F.body(f)
    iv = b.calls(r"is_valid$")
    ce = b.calls(r"BuilderTrait>::create_entry$")
    ok = len(iv) == 1 and len(ce) == 1
    if ok:
        vi, vt = iv[0]
        ok = ("param", 3) in b.origins(vt["args"][0]) and b.derives_from_call(vt["args"][1], r"RangeTrait>::count$")
        sw = vt["t"]
        t = b.term(sw)
        ok = ok and t["k"] == "switch"
        if ok:
            arms = list(dict.fromkeys(t["targets"] + [t["otherwise"]]))
            reach = [a for a in arms if ce[0][0] in b.reachable(a, avoid={sw})]
            other = [a for a in arms if a not in reach]
            none = any(st["k"] == "assign" and st["rv"]["k"] == "agg" and st["rv"].get("variant") == "None" for x in (b.reachable(other[0], avoid={sw}) if other else []) for st in b.stmts(x))
            add = b.derives_from_call(ce[0][1]["args"][1], r"RangeTrait>::offset$") and ("param", 3) in b.origins(ce[0][1]["args"][1])
            ok = len(reach) == 1 and len(other) == 1 and none and add
    cx.ob("R5", "R5/RangeTrait.get_entry", ok, f, "create_entry(offset() + id) is reachable only when id.is_valid(count()); otherwise Ok(None)")
    g = F.one(impl_self="entry_store::PlainStore", item="get_entry_reader", closure=False)
    gb = F.body(g)
    iv = gb.calls(r"is_valid$")
    bs = gb.calls(r"Reader::get_byte_slice$")
    ok = len(iv) == 1 and len(bs) == 1 and ("field", "entry_count") in gb.origins(iv[0][1]["args"][1])
    if ok:
        sw = iv[0][1]["t"]
        t = gb.term(sw)
        arms = list(dict.fromkeys(t["targets"] + [t["otherwise"]]))
        reach = [a for a in arms if bs[0][0] in gb.reachable(a, avoid={sw})]
        ok = t["k"] == "switch" and len(reach) == 1
    if len(iv) == 1 and not bs:
        # `idx.is_valid(count).then(|| cut)`: bool::then runs the closure only on true
        th = gb.calls(r"bool>::then::<|bool::then::<")
        cl = [c for c in F.closures_of(g) if "blocks" in c and F.body(c).calls(r"Reader::get_byte_slice$")]
        ok = len(th) == 1 and len(cl) == 1 and ("call", iv[0][0]) in gb.origins(th[0][1]["args"][0]) and ("field", "entry_count") in gb.origins(iv[0][1]["args"][1])
    cx.ob("R5", "R5/PlainStore.get_entry_reader", ok, g, "the entry bytes are cut only when idx.is_valid(layout.entry_count)")
    # a window handed on as a plain range keeps its bounds: begin = offset(), size = count()
    for h in F.fns:
        if "blocks" not in h or h.get("kind") == "closure" or not re.search(r"range::Range<[\w:]*EntryIdx>$", h["locals"][0]["ty"]):
            continue
        hb = F.body(h)
        offs = hb.calls(r"RangeTrait>::offset$|Index::offset$")
        cnts = hb.calls(r"RangeTrait>::count$|Index::count$")
        if not offs or not cnts:
            continue
        ok = False
        for _, t in hb.calls(r"range::Range::<[^>]*>::new_from_size::"):
            ok = ok or (hb.derives_from_call(t["args"][0], r"::offset$") and not hb.derives_from_call(t["args"][0], r"::count$")
                        and hb.derives_from_call(t["args"][1], r"::count$") and not hb.derives_from_call(t["args"][1], r"::offset$"))
        for _, t in hb.calls(r"range::Range::<[^>]*>::new$"):
            ok = ok or (hb.derives_from_call(t["args"][0], r"::offset$") and not hb.derives_from_call(t["args"][0], r"::count$")
                        and hb.derives_from_call(t["args"][1], r"::count$") and hb.derives_from_call(t["args"][1], r"::offset$"))
        cx.ob("R5", "R5/window-as-range@%s" % h["name"].split("::<impl ")[0], ok, h, "a window converted to a plain range begins at offset() and spans count() entries (end = offset + count)")


def r6_order(cx):
    F = cx.F
    f = F.one(impl_self="DirectoryPackCreator", item="finalize", closure=False)
    b = F.body(f)
    vs = b.calls(r"StoreHandle::finalize$")
    es = b.calls(r"Iterator>::collect::<|Iterator>::collect$")
    mp = b.calls(r"Iterator>::map::<")
    ok = len(vs) == 1 and len(es) >= 1
    if ok:
        # the loop over value stores is left before the entry stores are finalised (collect)
        ok = all(b.dominates(vs[0][0], e[0]) or _loop_exit_dominates(b, vs[0][0], e[0]) for e in es)
    cx.ob("R6", "R6/value-stores-before-entry-stores", ok, f, "every value store is finalised (ids and key sizes fixed) before the entry stores are finalised")
    # the closure given to map calls EntryStoreTrait::finalize
    cl = [c for c in F.closures_of(f) if "blocks" in c and F.body(c).calls(r"EntryStoreTrait>::finalize$")]
    cx.ob("R6", "R6/entry-stores-finalised-in-collect", len(cl) == 1, f, "the collect maps EntryStoreTrait::finalize over the entry stores")
    g = F.one(impl_self="creator::directory_pack::entry_store::EntryStore", item="finalize", trait="EntryStoreTrait", closure=False)
    gb = F.body(g)
    pr = gb.calls(r"Schema::<.*>::process$")
    fi = gb.calls(r"Schema::<.*>::finalize$")
    ok = len(pr) == 1 and len(fi) == 1 and fi[0][0] in gb.reach_after(pr[0][0]) and pr[0][0] not in gb.reach_after(fi[0][0]) and _in_loop(gb, pr[0][0])
    # finalize is only reachable through the loop exit
    ok = ok and not _reach_without(gb, fi[0][0], _loop_head(gb, pr[0][0]))
    cx.ob("R6", "R6/process-all-before-finalize", ok, g, "schema.process(entry) runs for every entry (loop) before schema.finalize() computes the layout")
    h = F.one(impl_self="schema::Schema", item="finalize", closure=False)
    hb = F.body(h)
    fts = hb.calls(r"Properties::<.*>::fill_to_size$")
    mx = hb.calls(r"Iterator>::max$|::max::<|Iterator>::max::")
    ok = len(fts) == 1 and len(mx) >= 1 and _in_loop(hb, fts[0][0]) and any(("call", m[0]) in hb.origins(fts[0][1]["args"][1]) for m in mx)
    cx.ob("R6", "R6/variants-padded-to-max", ok, h, "every variant is padded with fill_to_size(max variant size)")
    # entry_size = common.entry_size() + max
    agg = [s for blk in hb.blocks for s in blk["s"] if s["k"] == "assign" and s["rv"]["k"] == "agg" and s["rv"].get("adt", "").endswith("layout::entry::Entry")]
    ok = len(agg) == 1
    if ok:
        d = dict(zip(agg[0]["rv"]["fnames"], agg[0]["rv"]["fields"]))
        o = hb.origins(d["entry_size"])
        ok = any(x[0] == "call" and call_is(hb.term(x[1]), r"Properties::<.*>::entry_size$") for x in o) and any(("call", m[0]) in o for m in mx)
    cx.ob("R6", "R6/entry-size", ok, h, "entry_size = common.entry_size() + max variant size")


def _in_loop(b, bb):
    return bb in b.reach_after(bb)


def _loop_head(b, bb):
    # the Iterator::next call block of the loop containing bb
    cands = [i for i, t in b.calls(r"Iterator>::next$") if bb in b.reach_after(i) and i in b.reach_after(bb)]
    return cands[0] if cands else None


def _reach_without(b, target, avoid_bb):
    if avoid_bb is None:
        return True
    return target in b.reachable(0, avoid={avoid_bb})


def _loop_exit_dominates(b, inner, later):
    h = _loop_head(b, inner)
    return h is not None and later not in b.reachable(0, avoid={h})


def r7_array_length_recorded(cx):
    F = cx.F
    n = 0
    for f in F.live_fns:
        if "blocks" not in f:
            continue
        for i, blk in enumerate(f["blocks"]):
            if blk.get("cleanup"):
                continue
            for s in blk["s"]:
                if s["k"] == "assign" and s["rv"]["k"] == "agg" and s["rv"].get("adt", "").endswith("creator::directory_pack::layout::property::Property") and s["rv"].get("variant") == "Array":
                    b = F.body(f)
                    d = dict(zip(s["rv"]["fnames"], s["rv"]["fields"]))
                    v = c05.enum_arg(b, d["array_len_size"])
                    cx.ob("R7", "R7/%s" % f["name"], v == {"Some"}, f,
                          "a layout Array column (inline prefix + value id) is always built with array_len_size = Some(..): the reader can only recover the exact length from it (found %s)" % sorted(v), ln=s.get("ln"))
                    n += 1


def r8_width_covers(cx, rule="R8"):
    F = cx.F
    f = F.one(**ref.STRUCTS["IndexedValueStoreTail"][0])
    b = F.body(f)
    ws = b.calls(r"Serializer::write_usized$")
    nb = b.calls(r"bases::needed_bytes::<")
    ok = len(nb) == 1 and len(ws) == 2
    if ok:
        # width from the single needed_bytes(data_size); values: data_size itself and the running offset which sums
        # lengths of the stored values (bounded by data_size = self.0.size)
        ok = all(any(j == nb[0][0] for j, _ in b.origin_calls(t["args"][2], through_calls=False)) for _, t in ws)
        ok = ok and ("field", "size") in b.origins(nb[0][1]["args"][0])
        first = [t for _, t in ws if ("field", "size") in b.origins(t["args"][1])]
        ok = ok and len(first) >= 1
    cx.ob(rule, rule + "/IndexedValueStore.serialize_tail", ok, f, "offset width = needed_bytes(total data size); data size and cumulative offsets (<= data size) are written with it")
    if len(nb) == 1:
        # the data size is itself written with that width: the width is computed from the total and from nothing smaller
        # (the start of the last value, the largest offset ... are all <= the total but may need fewer bytes)
        o = b.origins(nb[0][1]["args"][0])
        other_calls = sorted({callee_str(b.term(x[1])).split("::")[-1] for x in o if x[0] == "call" and not call_is(b.term(x[1]), r"into_u64$", r"Size::", r"::size$", r"From<.*>>::from$", r"Into<.*>>::into$", r"Deref>::deref$")})
        other_fields = sorted({x[1] for x in o if x[0] == "field"} - {"size", "0"})
        cx.ob(rule, rule + "/IndexedValueStore.serialize_tail/width-from-the-total-only", not other_calls and not other_fields, f,
              "the argument of needed_bytes is the total data size itself (other calls on the way: %s, other fields: %s)" % (other_calls, other_fields), ln=nb[0][1].get("ln"))
    # value-id width: key_size = needed_bytes(count) for indexed, needed_bytes(size) for plain
    for ty, fld in (("IndexedValueStore", "sorted_indirect"), ("PlainValueStore", None)):
        g = F.one(impl_self=ty, item="key_size", closure=False)
        gb = F.body(g)
        nb = gb.calls(r"bases::needed_bytes::<")
        ok = len(nb) == 1
        if ok and fld:
            ok = ("field", fld) in gb.origins(nb[0][1]["args"][0])
        elif ok:
            ok = gb.derives_from_call(nb[0][1]["args"][0], r"PlainValueStore::size$")
        cx.ob(rule, rule + "/%s.key_size" % ty, ok, g, "value-id width = needed_bytes(%s)" % ("number of values (ids are ranks)" if fld else "data size (ids are byte offsets)"))


def r10_reader_offsets(cx):
    """reader: the offset of a property inside an entry is the sum of the sizes of the definitions before it,
    in definition order, starting at the offset of the part (0 for common, common size + 1 for a variant)"""
    F = cx.F
    f = F.one(impl_self="reader::directory_pack::layout::properties::Properties", item="new", closure=False)
    b = F.body(f)
    pn = b.calls(r"layout::property::Property::new$")
    ok = len(pn) == 1 and _in_loop(b, pn[0][0])
    if ok:
        # offset local: initialised from param 1, incremented by raw_property.size after use
        adds = [(i, s) for i, blk in enumerate(b.blocks) if not blk.get("cleanup") for s in blk["s"] if s["k"] == "assign" and s["rv"]["k"] == "bin" and s["rv"]["op"] in ("Add", "AddWithOverflow")]
        inc = [(i, s) for i, s in adds if ("field", "size") in b.origins(s["rv"]["b"]) and _in_loop(b, i)]
        o = b.origins(pn[0][1]["args"][0])
        ok = len(inc) == 1 and ("param", 1) in o
        if ok:
            # the offset given to Property::new is the accumulator as it was BEFORE this definition's size is added:
            # it is read (directly as the argument, or copied into a temporary) before the accumulator is written
            acc = op_local(inc[0][1]["rv"]["a"])
            writes = [(i, j) for i, blk in enumerate(b.blocks) if _in_loop(b, i) and not blk.get("cleanup") for j, st in enumerate(blk["s"])
                      if st["k"] == "assign" and st["lhs"]["l"] == acc and not st["lhs"].get("p")]
            pos = None
            l = op_local(pn[0][1]["args"][0])
            hops = 0
            while l is not None and hops < 6:
                if l == acc:
                    pos = pos or (pn[0][0], 10 ** 6)
                    break
                ds = [d for d in b.defs().get(l, []) if d[0] == "stmt"]
                if len(ds) != 1 or ds[0][3]["rv"]["k"] != "use":
                    break
                pos = (ds[0][1], ds[0][2])
                l = op_local(ds[0][3]["rv"]["op"])
                hops += 1
            else:
                pos = None
            if l != acc:
                pos = None
            ok = acc is not None and len(writes) == 1 and pos is not None and b.dominates(pos[0], writes[0][0]) and (pos[0] != writes[0][0] or pos[1] < writes[0][1])
        # forward iteration over the definitions
        ok = ok and bool(b.calls(r"IntoIterator>::into_iter$")) and not b.calls(r"::rev$|::skip$|::step_by$")
    cx.ob("R10", "R10/Properties.new", ok, f, "reader Properties::new gives each definition the running offset (initial offset + sizes of the previous definitions), iterating forward")
    g = layout.find_parse(F, "reader::directory_pack::layout::Layout")
    gb = F.body(g)
    news = gb.calls(r"layout::properties::Properties::new$")
    ok = len(news) >= 2
    if ok:
        common = [t for i, t in news if op_const_val(t["args"][0]) == 0]
        variant = [t for i, t in news if op_const_val(t["args"][0]) is None]
        ok = len(common) == 1 and len(variant) >= 1 and len(common) + len(variant) == len(news)
        if ok:
            # variant part starts after the common part and the 1-byte variant id (at every site that completes a variant)
            plus1 = any(s["k"] == "assign" and s["rv"]["k"] == "bin" and s["rv"]["op"] in ("Add", "AddWithOverflow") and op_const_val(s["rv"]["b"]) == 1 for blk in gb.blocks for s in blk["s"])
            ok = plus1 and all(("field", "size") in gb.origins(t["args"][0]) for t in variant)
    cx.ob("R10", "R10/Layout.parse-parts", ok, g, "Layout::parse: common properties start at 0, every variant starts at common size + 1 (the variant id byte)")


def r11_variant_end_agrees(cx):
    """writer and reader agree on where a variant ends: the creator gives a constant column size 0 (the value lives in
    the layout as a default), so a variant that needs no padding can END with properties of size 0. The reader must
    therefore not close a variant merely because the sizes seen so far add up: the closing is decided by what
    follows (the next VariantId, or the end of the properties)."""
    F = cx.F
    # writer side: a property with a default value occupies 0 bytes in the entry
    w = F.one(impl_self="creator::directory_pack::layout::property::Property", item="size", closure=False, trait="")
    wb = F.deep_body(w, only=r"layout::property")
    zero = [i for i, blk in enumerate(wb.blocks) if not blk.get("cleanup") for st in blk["s"]
            if st["k"] == "assign" and st["rv"]["k"] == "use" and op_const_val(st["rv"]["op"]) == 0 and wb.locals[st["lhs"]["l"]].get("ty") in ("u16", "usize", "u8")]
    cx.ob("R11", "R11/writer/constant-column-has-size-0", bool(zero), w, "layout::Property::size() is 0 for a column stored as a default value (%d sites)" % len(zero), trivial=True)
    # reader side
    g = layout.find_parse(F, "reader::directory_pack::layout::Layout")
    gb = F.body(g)
    push = gb.calls(r"Vec::<std::sync::Arc<.*layout::properties::Properties>>::push$|Vec::<.*Properties.*>::push$")
    if not push:
        raise AnchorLost("Layout::parse: the place where a variant is completed (push to the list of variants) was not found")
    ok = True
    why = []
    for i, t in push:
        cds = gb.control_dep_switches(i)
        looks_ahead = False
        for sblk in cds:
            o = gb.origins(gb.term(sblk)["op"])
            if any(x[0] == "call" and call_is(gb.term(x[1]), r"Peekable::<.*>::peek$|Peekable<.*> as .*Iterator>::peek|::peek$|slice::<impl \[.*\]>::(get|first)|::is_empty$|::len$") for x in o):
                looks_ahead = True
        # or: the variant is completed only when a VariantId / the end is met (the push sits on the arm of the is_variant_id test)
        on_marker = any(any(x[0] == "call" and call_is(gb.term(x[1]), r"RawProperty::is_variant_id$") for x in gb.origins(gb.term(sblk)["op"])) and
                        not any(x[0] == "call" and call_is(gb.term(x[1]), r"Ord>::cmp$") for x in gb.origins(gb.term(sblk)["op"])) for sblk in cds) and \
            not any(any(x[0] == "call" and call_is(gb.term(x[1]), r"Ord>::cmp$") for x in gb.origins(gb.term(sblk)["op"])) for sblk in cds)
        after_loop = i not in gb.reach_after(i)      # completion after the loop over the properties: the end has been met
        if not (looks_ahead or on_marker or after_loop):
            ok = False
            why.append(t.get("ln"))
    # a variant may have NO stored property at all (no property, or only constant columns, in a store whose variant part
    # is 0 bytes wide): it can only be completed by what follows it -- some completion site must not depend on a
    # property having been pushed in the same iteration
    dp = {i for i, _ in gb.calls(r"Vec::<reader::directory_pack::raw_layout::RawProperty>::push$|Vec::<.*RawProperty>::push$")}
    free = [t.get("ln") for i, t in push if not any(gb.dominates(d, i) for d in dp)]
    cx.ob("R11", "R11/reader/empty-variant-can-complete", bool(dp) and bool(free), g,
          "a variant without stored property is completed when the next VariantId or the end of the properties is met (completion sites that do not need a property pushed first: lines %s)" % free)
    cx.ob("R11", "R11/reader/variant-closed-on-what-follows", ok, g,
          "Layout::parse completes a variant only after looking at what follows it (next VariantId / end), not on the running size alone (completions decided by the size only: lines %s)" % why)


def r9_dedup_index(cx):
    """IndexedValueStore::add_value: the index returned for a value already present is its position in the
    whole data vector (the value id is assigned per position at finalisation)"""
    F = cx.F
    f = F.one(impl_self="value_store::IndexedValueStore", item="add_value", closure=False)
    b = F.body(f)
    pos = b.calls(r"Iterator>::position::<", r"IndexedParallelIterator>::position_any::<", r"Iterator>::rposition::<", r"position_first::<|position_last::<")
    ok = len(pos) >= 1
    bad = []
    for i, t in pos:
        # receiver chain: only (par_)iter over self.0.data
        chain = [callee_str(tt) for _, tt in b.origin_calls(t["args"][0])]
        adapters = [c for c in chain if not re.search(r"::iter$|par_iter$|IntoParallelRefIterator<.*>>::par_iter$|Deref>::deref$|IntoIterator>::into_iter$", c)]
        if adapters or ("field", "data") not in b.origins(t["args"][0]):
            bad.append((t.get("ln"), adapters))
    # the Some(idx) => idx arm returns a value derived from those position calls only
    ret = b.origins(0)
    ret_calls = {x[1] for x in ret if x[0] == "call"}
    pos_blocks = {i for i, _ in pos}
    addv = {i for i, t in b.calls(r"BaseValueStore::add_value::<")}
    unknown = [callee_str(b.term(x)) for x in ret_calls if x not in pos_blocks and x not in addv and not call_is(b.term(x), r"::iter$|par_iter$|Deref>::deref$|::len$|Into<.*>>::into$|From<.*>>::from$|into_iter$")]
    cx.ob("R9", "R9/IndexedValueStore.add_value", ok and not bad and not unknown, f,
          "the index of an already stored value is position(..)/position_any(..) taken directly over (par_)iter() of the whole data vector (offending adapters %s; other sources of the returned index %s)" % (bad, [u.split("::")[-1] for u in unknown]))


INLINE_BITS = 5   # spec/directory.rst, array property: `key size << 5 | length of the inline part`


def _agg_sites(F, adt_re, variant, field, scope_re):
    """(function, body, block, operand) of every construction `adt::variant { field: operand, .. }` in live functions"""
    out = []
    for f in F.live_fns:
        if "blocks" not in f or not re.search(scope_re, f["name"]):
            continue
        b = None
        for i, blk in enumerate(f["blocks"]):
            if blk.get("cleanup"):
                continue
            for st in blk["s"]:
                rv = st.get("rv") or {}
                if st["k"] == "assign" and rv.get("k") == "agg" and rv.get("variant") == variant and re.search(adt_re, rv.get("adt") or "") and field in (rv.get("fnames") or []):
                    b = b or F.body(f)
                    out.append((f, b, i, rv["fields"][rv["fnames"].index(field)]))
    return out


def r12_inline_prefix_fits(cx):
    """'a value that cannot be represented makes creation fail': the inline part of an array is described on 5 bits
    next to the 3 bits of the key size (`key_size << 5 + fixed_array_len`). Somewhere between the public constructor
    and the byte written, the length is compared with a constant no larger than 31 on the only path that goes on:
    either wherever a schema `Property::Array` is built, or where the schema is turned into a layout, or where the
    byte is composed."""
    F = cx.F
    limit = (1 << INLINE_BITS) - 1

    def guarded(sites):
        res = []
        for f, b, i, opnd in sites:
            srcs = {x for x in b.origins(opnd) if x[0] in ("call", "field", "param")}
            best = min((c for _, c in upper_bound_guards(b, i, srcs)), default=None)
            res.append((f, best))
        return res
    a = guarded(_agg_sites(F, r"schema::property::Property$", "Array", "fixed_array_len", r"creator::"))
    l = guarded(_agg_sites(F, r"layout::property::Property$", "Array", "fixed_array_len", r"creator::directory_pack::schema::"))
    ser = layout.find_ser(F, "creator::directory_pack::layout::property::Property")
    sb = F.body(ser)
    w = []
    for i, blk in enumerate(sb.blocks):
        if blk.get("cleanup"):
            continue
        for st in blk["s"]:
            rv = st.get("rv") or {}
            if st["k"] == "assign" and rv.get("k") == "bin" and rv["op"] in ("Add", "AddWithOverflow", "BitOr") and ("field", "fixed_array_len") in (sb.origins(rv["a"]) | sb.origins(rv["b"])):
                srcs = {("field", "fixed_array_len")}
                w.append((ser, min((c for _, c in upper_bound_guards(sb, i, srcs)), default=None)))
    if not a or not l or not w:
        raise AnchorLost("array property: schema constructions %d, layout constructions %d, key byte compositions %d" % (len(a), len(l), len(w)))
    ok = lambda xs: all(c is not None and c <= limit for _, c in xs)
    where = "at construction" if ok(a) else "at schema -> layout" if ok(l) else "at serialisation" if ok(w) else None
    cx.ob("R12", "R12/array/inline-prefix-fits-5-bits", where is not None, a[0][0],
          "the length of the inline part of an array is bounded by %d before it is packed next to the key size (%s; bounds found: construction %s, layout %s, serialisation %s)" % (
              limit, where or "nowhere", [c for _, c in a], [c for _, c in l], [c for _, c in w]))


def r13_compare_ties_are_equal(cx):
    """entries are sorted with FullEntryTrait::compare and the result is checked with `windows(2).all(is_le)`: two
    entries equal on every sort key (duplicates are representable entries) must compare Equal -- under the assumption
    that every key compares Equal, the only value the function can return is Ordering::Equal (anything else is
    inconsistent with itself, compare(a, b) = compare(b, a) = Greater, and the sorted check can never succeed)"""
    F = cx.F
    fs = [f for f in F.live_fns if re.search(r"creator::directory_pack::FullEntryTrait::compare$", f["name"]) and "blocks" in f]
    if len(fs) != 1:
        raise AnchorLost("FullEntryTrait::compare: %d bodies" % len(fs))
    f = fs[0]
    b = F.body(f)
    r, _ = b.explore(assume_discr={r"cmp::Ordering$": 0, r"Option<std::cmp::Ordering>$": 1}, avoid=b.error_blocks())
    rets = []
    for i in sorted(r):
        for st in b.blocks[i]["s"]:
            rv = st.get("rv") or {}
            if st["k"] == "assign" and st["lhs"]["l"] == 0 and not st["lhs"].get("p"):
                if rv.get("k") == "agg" and (rv.get("adt") or "").endswith("cmp::Ordering"):
                    rets.append(rv.get("variant"))
                elif rv.get("k") == "use" and op_const(rv["op"]) is not None:
                    rets.append(str(op_const(rv["op"]).get("val", op_const(rv["op"]).get("cdef"))))
                else:
                    rets.append("computed")
    # the same comparison written as a search: `keys.map(cmp).find(|c| c.is_ne()).unwrap_or(X)` -- when every key compares
    # Equal the search finds nothing and the answer is X
    for i, t in b.calls(r"Option::<std::cmp::Ordering>::unwrap_or$"):
        if i in r and t["dest"]["l"] in b.whole_copies({0}) | {0} or (i in r and 0 in b.whole_copies({t["dest"]["l"]})):
            vs = [x[1].split("::")[-1] for x in b.origins(t["args"][1], through_calls=False) if x[0] == "variant"]
            src = b.origins(t["args"][0])
            searches = any(x[0] == "call" and call_is(b.term(x[1]), r"Iterator>::find::<|Iterator>::find_map::<") for x in src)
            rets += vs if (vs and searches) else ["computed"]
    if not rets:
        raise AnchorLost("FullEntryTrait::compare: no return value found on the all-keys-equal paths")
    good = all(x in ("Equal", "0") or x == "computed" for x in rets) and any(x in ("Equal", "0") for x in rets)
    cx.ob("R13", "R13/compare/ties-are-equal", good, f,
          "when every sort key compares Equal the comparison returns Equal (values returned on those paths: %s)" % sorted(set(rets)))


def r14_sizes_are_compared_before_they_are_narrowed(cx):
    """'byte arrays of any length': lengths, counts and offsets travel in their own wide types (Size, ASize, Count..)
    and are taken out with `into_usize()/into_u64()`. Narrowing such a value to 8 or 16 bits *before* it is clamped or
    compared keeps its low byte only (a 256-byte array looks empty): in the reader, a narrowing cast never takes the
    result of `into_usize()/into_u64()` directly -- it takes the result of a `min`, a masked value, or a value a
    dominating comparison has bounded."""
    F = cx.F
    W = {"u8": 1, "u16": 2, "u32": 4, "u64": 8, "usize": 8}
    n = 0
    for f in F.live_fns:
        if "blocks" not in f or not re.search(r"reader::directory_pack::|reader::content_pack::", f["name"]):
            continue
        b = None
        for i, blk in enumerate(f["blocks"]):
            if blk.get("cleanup"):
                continue
            for st in blk["s"]:
                rv = st.get("rv") or {}
                if not (st["k"] == "assign" and rv.get("k") == "cast" and rv.get("ck") == "IntToInt"):
                    continue
                frm, to = rv.get("from"), rv.get("ty")
                if frm not in W or to not in ("u8", "u16") or W[to] >= W[frm]:
                    continue
                n += 1
                b = b or F.body(f)
                direct = [x for x in b.origins(rv["op"], through_calls=False) if x[0] == "call" and call_is(b.term(x[1]), r"::into_(usize|u64|u32)$")]
                if not direct:
                    continue
                srcs = {("call", x[1]) for x in direct}
                bound = min((c for _, c in upper_bound_guards(b, i, srcs)), default=None)
                cx.ob("R14", "R14/%s/narrowed-after-comparison" % re.sub(r"<.*?>", "", f["name"]).split("::")[-1], bound is not None and bound < (1 << (8 * W[to])), f,
                      "a size taken out with into_usize()/into_u64() is narrowed to %s at line %s only under a bound (found: %s)" % (to, st.get("ln"), bound), ln=st.get("ln"))
    cx.ob("R14", "R14/narrowing-casts-in-the-reader", n >= 10, "(reader)", "%d narrowing casts to u8/u16 in the directory and content pack readers examined" % n)


def r15_every_value_is_registered(cx):
    """'byte arrays of any length however they are split': the id an entry stores for the deported part of an array is
    given by the value store, whose kind decides what an id means (a byte offset in a plain store, a rank among the
    sorted values in an indexed one). `StoreHandle::add_value` therefore hands every value -- the empty one included --
    to the store: no successful path returns a handle without passing `ValueStore::add_value`."""
    F = cx.F
    f = F.one(impl_self="value_store::StoreHandle", item="add_value", closure=False)
    b = F.body(f)
    reg = [i for i, t in b.calls(r"value_store::ValueStore::add_value(::<.*>)?$")]
    if not reg:
        raise AnchorLost("StoreHandle::add_value no longer calls ValueStore::add_value")
    ok = b.must_pass_before_return(set(reg))
    cx.ob("R15", "R15/StoreHandle.add_value/every-value-is-registered", ok, f,
          "every successful path of StoreHandle::add_value passes ValueStore::add_value (%d sites)" % len(reg))


def r16_declared_width_comes_from_the_sizing_alone(cx):
    """the width declared for an integer column is also the width its default value is written with when the column is
    constant (`write_usized(default, size)` in the layout): it is what the sizing pass found over all entries, whether or
    not the column turned out constant -- where the schema becomes a layout, the `size` of an integer property is built
    from its `PropertySize` only, with no byte-size constant and nothing derived from the value counter."""
    F = cx.F
    sites = []
    for variant in ("UnsignedInt", "SignedInt"):
        sites += [(variant,) + x for x in _agg_sites(F, r"layout::property::Property$", variant, "size", r"creator::directory_pack::schema::")]
    if len(sites) < 2:
        raise AnchorLost("schema -> layout: %d integer properties built" % len(sites))
    for variant, f, b, i, opnd in sites:
        o = b.origins(opnd)
        fields = {x[1] for x in o if x[0] == "field"}
        forced = sorted(x[1] for x in o if x[0] == "variant" and "ByteSize" in str(x[1]))
        cx.ob("R16", "R16/%s.%s/width-from-the-sizing-alone" % (re.sub(r"<.*?>", "", f["name"]).split("::")[-1], variant), "size" in fields and "counter" not in fields and not forced, f,
              "the size of a layout %s comes from the PropertySize of the schema property (fields on the way: %s; byte sizes forced: %s)" % (variant, sorted(fields), forced))


def r17_every_value_takes_part_in_the_sizing(cx, rule="R17"):
    """'integers of any magnitude': the width of a column is the width of the largest value seen, so every value the
    schema is shown reaches the width tracker. In Property::process each value that is counted (ValueCounter::process:
    "is this column constant?") is also sized (PropertySize::process) on every path -- a value skipped by the sizing (the
    first one, while the column still looks constant) is written truncated if it was the largest."""
    F = cx.F
    f = F.one(impl_self="schema::property::Property", item="process", closure=False)
    b = F.deep_body(f, only=r"schema::property::Property::<", closures=True)
    cs = b.calls(r"ValueCounter::<.*>::process$")
    ss = {i for i, _ in b.calls(r"PropertySize::<.*>::process$")}
    if len(cs) < 5 or len(ss) < 5:
        raise AnchorLost("Property::process: %d counted / %d sized values" % (len(cs), len(ss)))
    bad = []
    for c, t in cs:
        if any(b.dominates(s_, c) for s_ in ss if s_ != c):
            continue
        if b.must_pass_before_return(ss, start=c, avoid=b.panic_blocks(), success_only=False):
            continue
        bad.append(t.get("ln"))
    cx.ob(rule, rule + "/Property.process/counted-values-are-sized", not bad, f,
          "%d values counted in Property::process, each also reaches PropertySize::process on every path (not sized on some path: lines %s)" % (len(cs), bad or "none"))


def _closure_fed_from(bodies, cid, field):
    """the closure `cid` is handed to an iterator adaptor (map, for_each, try_for_each ..) whose receiver walks `field`"""
    for bb in bodies:
        for i, t in bb.calls(r"Iterator>::(map|for_each|try_for_each|filter_map|flat_map|fold|try_fold)::<"):
            if len(t["args"]) < 2:
                continue
            from_closure = False
            for a in t["args"][1:]:
                l = op_base_local(a)
                for d in bb.defs().get(l, []) if l is not None else []:
                    if d[0] == "stmt" and d[3]["k"] == "assign" and (d[3]["rv"].get("closure_fn") == cid):
                        from_closure = True
                    if d[0] == "stmt" and d[3]["k"] == "assign" and d[3]["rv"]["k"] == "use":
                        l2 = op_base_local(d[3]["rv"]["op"])
                        for d2 in bb.defs().get(l2, []) if l2 is not None else []:
                            if d2[0] == "stmt" and d2[3]["k"] == "assign" and d2[3]["rv"].get("closure_fn") == cid:
                                from_closure = True
            if from_closure and ("field", field) in bb.origins(t["args"][0]):
                return True
    return False


def r18_values_are_described_in_the_order_they_are_written(cx, rule="R18"):
    """'byte arrays ... read back': a value id is the rank (indexed store) or the offset (plain store) of the value in the
    *sorted* order, `sorted_indirect`. The data block and the table of end offsets that describes it are both produced by
    walking `sorted_indirect` and looking each value up in `data` -- never by walking `data` itself, which is in insertion
    order: the boundaries recorded would be those of another arrangement of the same bytes."""
    F = cx.F
    sites = [("IndexedValueStore", "write_data"), ("IndexedValueStore", "serialize_tail"), ("PlainValueStore", "write_data")]
    for ty, item in sites:
        fs = [x for x in F.find(impl_self="value_store::" + ty, item=item, closure=False)]
        if len(fs) != 1:
            raise AnchorLost("%s::%s: %d bodies" % (ty, item, len(fs)))
        f = fs[0]
        b = F.deep_body(f, only=r"value_store::", closures=True)
        # the closures built in that body (also those of helpers inlined into it), transitively
        bodies, seen_c, work = [b], set(), [b]
        for c in F.closures_of(f):
            if "blocks" in c and c["id"] not in seen_c:
                seen_c.add(c["id"]); cb_ = F.body(c); bodies.append(cb_); work.append(cb_)
        while work:
            wb = work.pop()
            for blk in wb.blocks:
                for st in blk["s"]:
                    cid = (st.get("rv") or {}).get("closure_fn") if st["k"] == "assign" else None
                    if cid is not None and cid not in seen_c and cid < len(F.fns) and "blocks" in F.fns[cid]:
                        seen_c.add(cid); cb_ = F.body(F.fns[cid]); bodies.append(cb_); work.append(cb_)
        looked_up = 0
        direct = []
        for bb in bodies:
            for i, t in bb.calls(r"as std::ops::Index(Mut)?<usize>>::index(_mut)?$"):
                o0 = bb.origins(t["args"][0])
                if ("field", "data") in o0:
                    o1 = bb.origins(t["args"][1])
                    if ("field", "sorted_indirect") in o1:
                        looked_up += 1
                    elif bb.f.get("kind") == "closure" and any(x[0] == "param" and x[1] >= 2 for x in o1) and _closure_fed_from(bodies, bb.f["id"], "sorted_indirect"):
                        looked_up += 1      # `sorted_indirect.iter().map(|k| &data[*k])`: the key is the element of the walk
                    else:
                        direct.append(t.get("ln"))
            for i, t in bb.calls(r"::iter$|IntoIterator>::into_iter$|::iter_mut$|::par_iter$|::into_par_iter$|::chunks|::windows$"):
                o0 = bb.origins(t["args"][0], through_calls=False)
                if ("field", "data") in o0 and ("field", "sorted_indirect") not in o0 and ("field", "0") in o0 | {("field", "0")} and not any(x[0] == "call" for x in o0):
                    direct.append(t.get("ln"))
        cx.ob(rule, "%s/%s.%s/walks-the-sorted-order" % (rule, ty, item), looked_up >= 1 and not direct, f,
              "%s::%s takes each value from data[k] with k read from sorted_indirect (%d lookups; data walked or indexed directly at lines %s)" % (ty, item, looked_up, direct or "none"))


def r19_width_of_a_column_is_the_sizing_itself(cx):
    """'values of any magnitude read back': the width of a column is what the sizing found -- `Fixed(w)` gives w, `Auto(max)`
    gives needed_bytes(max), and nothing is done to the result (no rounding up to a "native" width, no minimum): the same
    conversion sizes the length field of an array, whose width is packed on two bits of the type byte."""
    F = cx.F
    fs = [f for f in F.live_fns if "blocks" in f and re.search(r"From<.*PropertySize<T>> for .*ByteSize>::from$", f["name"])]
    if len(fs) != 1:
        raise AnchorLost("impl From<PropertySize<T>> for ByteSize: %d bodies" % len(fs))
    f = fs[0]
    b = F.body(f)
    nb = b.calls(r"needed_bytes::<")
    other = [callee_str(t).split("::<")[0] for i, t in b.calls(r".") if not b.is_cleanup(i) and not call_is(t, r"needed_bytes::<") and not call_is(t, r"ops::Drop|drop_in_place")]
    direct = len(nb) == 1 and (nb[0][1]["dest"]["l"] in b.whole_copies({0}) | {0} or 0 in b.whole_copies({nb[0][1]["dest"]["l"]}))
    consts = sorted({x[1] for x in b.origins(0) if x[0] == "const" and isinstance(x[1], int) and not isinstance(x[1], bool)})
    built = sorted({x[1].split("::")[-1] for x in b.origins(0) if x[0] == "variant"})
    # a ByteSize built here (a literal variant), or a branch on the width found, is a second opinion on the sizing
    branches = [b.ln(i) for i in range(b.n) if b.term(i)["k"] == "switch" and len(nb) == 1 and ("call", nb[0][0]) in b.origins(b.term(i)["op"], through_calls=False)]
    direct = direct and not built and not branches
    consts = consts + built
    cx.ob("R19", "R19/ByteSize.from/the-sizing-itself", direct and not other and not consts, f,
          "Auto(max) becomes needed_bytes(max) and that is the answer (returned as it is: %s; other calls: %s; constants in the answer: %s)" % (direct, other or "none", consts or "none"))


RULES = [
    ("R19", r19_width_of_a_column_is_the_sizing_itself, 1),
    ("R18", r18_values_are_described_in_the_order_they_are_written, 3),
    ("R17", r17_every_value_takes_part_in_the_sizing, 1),
    ("R16", r16_declared_width_comes_from_the_sizing_alone, 2),
    ("R15", r15_every_value_is_registered, 1),
    ("R14", r14_sizes_are_compared_before_they_are_narrowed, 1),
    ("R1", r1_signed_width, 3),
    ("R1", r1b_fold_does_not_wrap, 1),
    ("R2", r2_tail_size, 4),
    ("R3", r3_guards, 5),
    ("R4", r4_entry_encoding, 11),
    ("R5", r5_index_window, 2),
    ("R6", r6_order, 5),
    ("R7", r7_array_length_recorded, 1),
    ("R8", r8_width_covers, 3),
    ("R9", r9_dedup_index, 1),
    ("R10", r10_reader_offsets, 2),
    ("R11", r11_variant_end_agrees, 3),
    ("R12", r12_inline_prefix_fits, 1),
    ("R13", r13_compare_ties_are_equal, 1),
]
