// Polymorphic instance call graph: nodes are (def, generic args[, root]) reached by a
// work-list from every local body taken with its identity arguments.
use crate::json::J;
use crate::mirfacts::{resolve, ty_s};
use crate::Ctx;
use rustc_hir::def_id::{DefId, LocalDefId};
use rustc_middle::mir::{self, AggregateKind, Operand, Rvalue, StatementKind, TerminatorKind};
use rustc_middle::ty::{self, EarlyBinder, GenericArgsRef, TyCtxt, TypeVisitableExt, TypingEnv};
use std::collections::HashMap;

#[derive(Clone, Copy, PartialEq, Eq, Hash)]
struct Key<'tcx> {
    def: DefId,
    args: GenericArgsRef<'tcx>,
    root: Option<DefId>,
}

struct G<'a, 'tcx> {
    cx: &'a Ctx<'tcx>,
    ids: HashMap<Key<'tcx>, usize>,
    nodes: Vec<Key<'tcx>>,
    work: Vec<usize>,
    edges: Vec<J>,
    from_fn: Option<DefId>,
    try_from_fn: Option<DefId>,
}

impl<'a, 'tcx> G<'a, 'tcx> {
    fn node(&mut self, def: DefId, args: GenericArgsRef<'tcx>, root: DefId) -> usize {
        let root = if args.has_param() { Some(root) } else { None };
        let k = Key { def, args, root };
        if let Some(i) = self.ids.get(&k) {
            return *i;
        }
        let i = self.nodes.len();
        self.nodes.push(k);
        self.ids.insert(k, i);
        self.work.push(i);
        i
    }

    fn tenv(&self, k: &Key<'tcx>) -> TypingEnv<'tcx> {
        match k.root {
            Some(r) => TypingEnv::post_analysis(self.cx.tcx, r),
            None => TypingEnv::fully_monomorphized(),
        }
    }

    fn edge(&mut self, a: usize, bb: usize, kind: &str, extra: J) {
        let mut e = J::obj().set("a", J::Int(a as i128)).set("bb", J::Int(bb as i128)).set("k", J::s(kind));
        if let J::Obj(o) = extra {
            for (k, v) in o {
                e.put(k, v);
            }
        }
        self.edges.push(e);
    }

    /// add edges for a reference to `FnDef(cdid, cargs)` (already instantiated for node `a`)
    fn target(&mut self, a: usize, bb: usize, kind: &str, cdid: DefId, cargs: GenericArgsRef<'tcx>, depth: usize) {
        let tcx = self.cx.tcx;
        let key = self.nodes[a];
        let tenv = self.tenv(&key);
        let root = key.root.unwrap_or(key.def);
        if format!("{:?}", cargs).len() > 1500 {
            self.edge(a, bb, "toolarge", J::obj().set("ext", J::s(self.cx.path(cdid))));
            return;
        }
        match resolve(tcx, tenv, cdid, cargs) {
            Some(inst) => {
                let rd = inst.def_id();
                match inst.def {
                    ty::InstanceKind::Item(_) => {
                        if self.cx.fn_ids.contains_key(&rd) {
                            let b = self.node(rd, inst.args, root);
                            self.edge(a, bb, kind, J::obj().set("b", J::Int(b as i128)));
                        } else {
                            self.edge(
                                a,
                                bb,
                                kind,
                                J::obj()
                                    .set("ext", J::s(tcx.def_path_str_with_args(rd, inst.args)))
                                    .set("ext_def", J::s(self.cx.path(rd))),
                            );
                            if depth < 2 {
                                self.external_bridges(a, bb, rd, inst.args, depth);
                            }
                        }
                    }
                    ty::InstanceKind::Virtual(..) => {
                        self.edge(
                            a,
                            bb,
                            "virtual",
                            J::obj()
                                .set("trait_item", J::s(self.cx.path(rd)))
                                .set("self", J::s(if inst.args.len() > 0 { format!("{}", inst.args[0]) } else { String::new() })),
                        );
                    }
                    ty::InstanceKind::ClosureOnceShim { .. } | ty::InstanceKind::FnPtrShim(..) => {
                        // call_once on a closure / fn item: self type tells the target
                        if inst.args.len() > 0 {
                            if let Some(t) = inst.args[0].as_type() {
                                self.callable_ty(a, bb, kind, t, depth);
                            }
                        }
                    }
                    _ => {
                        self.edge(a, bb, kind, J::obj().set("ext", J::s(tcx.def_path_str_with_args(rd, inst.args))).set("shim", J::Bool(true)));
                    }
                }
            }
            None => {
                let mut x = J::obj().set("trait_item", J::s(self.cx.path(cdid)));
                if cargs.len() > 0 {
                    x.put("self", J::s(format!("{}", cargs[0])));
                }
                x.put("args", J::s(format!("{:?}", cargs)));
                self.edge(a, bb, "unresolved", x);
            }
        }
    }

    fn callable_ty(&mut self, a: usize, bb: usize, kind: &str, t: ty::Ty<'tcx>, depth: usize) {
        let key = self.nodes[a];
        let root = key.root.unwrap_or(key.def);
        match t.kind() {
            ty::Closure(cd, cargs) => {
                if self.cx.fn_ids.contains_key(cd) {
                    let b = self.node(*cd, cargs, root);
                    self.edge(a, bb, kind, J::obj().set("b", J::Int(b as i128)));
                }
            }
            ty::FnDef(fd, fargs) => {
                self.target(a, bb, kind, *fd, fargs, depth + 1);
            }
            ty::Ref(_, inner, _) => self.callable_ty(a, bb, kind, *inner, depth),
            _ => {}
        }
    }

    /// External callee whose body we cannot see: bridge the well-known cases where it calls
    /// back into local code through its type arguments.
    fn external_bridges(&mut self, a: usize, bb: usize, rd: DefId, rargs: GenericArgsRef<'tcx>, depth: usize) {
        let tcx = self.cx.tcx;
        let p = self.cx.path(rd);
        // <T as Into<U>>::into  ==> <U as From<T>>::from ; TryInto likewise
        if p.ends_with("::into") && p.contains("Into<") && rargs.len() == 2 {
            if let Some(f) = self.from_fn {
                let na = tcx.mk_args(&[rargs[1], rargs[0]]);
                self.target(a, bb, "via_into", f, na, depth + 1);
            }
            return;
        }
        if p.ends_with("::try_into") && rargs.len() == 2 {
            if let Some(f) = self.try_from_fn {
                let na = tcx.mk_args(&[rargs[1], rargs[0]]);
                self.target(a, bb, "via_into", f, na, depth + 1);
            }
            return;
        }
        // provided trait method (external body) on a local Self type: may call any of the
        // required methods of that impl.
        if let Some(tr) = tcx.trait_of_assoc(rd) {
            if rargs.len() > 0 {
                if let Some(self_ty) = rargs[0].as_type() {
                    let local_self = match self_ty.peel_refs().kind() {
                        ty::Adt(adt, _) => adt.did().is_local(),
                        ty::Closure(..) => false,
                        _ => false,
                    };
                    if local_self {
                        let n_trait = tcx.generics_of(tr).count();
                        if rargs.len() >= n_trait {
                            let targs = tcx.mk_args(&rargs[..n_trait]);
                            let items: Vec<DefId> = tcx
                                .associated_items(tr)
                                .in_definition_order()
                                .filter(|i| i.is_fn() && i.def_id != rd)
                                .map(|i| i.def_id)
                                .collect();
                            for it in items {
                                if tcx.generics_of(it).count() == n_trait {
                                    let key = self.nodes[a];
                                    let tenv = self.tenv(&key);
                                    if let Some(inst) = resolve(tcx, tenv, it, targs) {
                                        if self.cx.fn_ids.contains_key(&inst.def_id()) {
                                            let root = key.root.unwrap_or(key.def);
                                            let b = self.node(inst.def_id(), inst.args, root);
                                            self.edge(a, bb, "via_provided", J::obj().set("b", J::Int(b as i128)));
                                        }
                                    }
                                }
                            }
                        }
                    }
                }
            }
        }
        // external generic function receiving closures / fn items as type arguments: the
        // closure creation site already links them ("closure" edges), nothing to do here.
    }

    fn inst_args(&self, key: &Key<'tcx>, v: GenericArgsRef<'tcx>) -> Option<GenericArgsRef<'tcx>> {
        let tcx = self.cx.tcx;
        let tenv = self.tenv(key);
        let inst = EarlyBinder::bind(v).instantiate(tcx, key.args);
        tcx.try_normalize_erasing_regions(tenv, inst).ok()
    }

    fn visit_operand(&mut self, a: usize, bb: usize, op: &Operand<'tcx>) {
        if let Operand::Constant(c) = op {
            if let ty::FnDef(d, fargs) = c.const_.ty().kind() {
                let key = self.nodes[a];
                if let Some(ia) = self.inst_args(&key, fargs) {
                    self.target(a, bb, "fnref", *d, ia, 0);
                }
            }
        }
    }

    fn process(&mut self, a: usize) {
        let tcx = self.cx.tcx;
        let key = self.nodes[a];
        if !self.cx.fn_ids.contains_key(&key.def) || !tcx.is_mir_available(key.def) {
            return;
        }
        let body = tcx.optimized_mir(key.def);
        for (bb, data) in body.basic_blocks.iter_enumerated() {
            let bbi = bb.as_usize();
            for st in data.statements.iter() {
                if let StatementKind::Assign(b) = &st.kind {
                    let (_, rv) = &**b;
                    match rv {
                        Rvalue::Aggregate(ak, fields) => {
                            if let AggregateKind::Closure(cd, cargs) = &**ak {
                                if self.cx.fn_ids.contains_key(cd) {
                                    if let Some(ia) = self.inst_args(&key, cargs) {
                                        let root = key.root.unwrap_or(key.def);
                                        let b = self.node(*cd, ia, root);
                                        self.edge(a, bbi, "closure", J::obj().set("b", J::Int(b as i128)));
                                    }
                                }
                            }
                            for f in fields.iter() {
                                self.visit_operand(a, bbi, f);
                            }
                        }
                        Rvalue::Use(op, ..) | Rvalue::Cast(_, op, _) | Rvalue::UnaryOp(_, op) | Rvalue::Repeat(op, _) => {
                            self.visit_operand(a, bbi, op)
                        }
                        Rvalue::BinaryOp(_, ops) => {
                            self.visit_operand(a, bbi, &ops.0);
                            self.visit_operand(a, bbi, &ops.1);
                        }
                        _ => {}
                    }
                }
            }
            match &data.terminator().kind {
                TerminatorKind::Call { func, args, .. } => {
                    for arg in args.iter() {
                        self.visit_operand(a, bbi, &arg.node);
                    }
                    let fty = func.ty(&body.local_decls, tcx);
                    match fty.kind() {
                        ty::FnDef(cdid, cargs) => {
                            if let Some(ia) = self.inst_args(&key, cargs) {
                                self.target(a, bbi, "call", *cdid, ia, 0);
                            } else {
                                self.edge(a, bbi, "unresolved", J::obj().set("trait_item", J::s(self.cx.path(*cdid))).set("normfail", J::Bool(true)));
                            }
                        }
                        _ => {
                            self.edge(a, bbi, "indirect", J::obj().set("ty", J::s(ty_s(fty))));
                        }
                    }
                }
                TerminatorKind::Drop { place, .. } => {
                    // Drop of a local type with a Drop impl: edge to <T as Drop>::drop
                    let t = place.ty(&body.local_decls, tcx).ty;
                    if let ty::Adt(adt, dargs) = t.kind() {
                        if adt.did().is_local() {
                            if let Some(d) = tcx.adt_destructor(adt.did()) {
                                if self.cx.fn_ids.contains_key(&d.did) {
                                    if let Some(ia) = self.inst_args(&key, dargs) {
                                        let root = key.root.unwrap_or(key.def);
                                        let b = self.node(d.did, ia, root);
                                        self.edge(a, bbi, "drop", J::obj().set("b", J::Int(b as i128)));
                                    }
                                }
                            }
                        }
                    }
                }
                _ => {}
            }
        }
        let _ = mir::START_BLOCK;
    }
}

fn find_trait_fn(tcx: TyCtxt<'_>, trait_name: &str, fn_name: &str) -> Option<DefId> {
    for tr in tcx.all_traits_including_private() {
        if tcx.def_path_str(tr) == trait_name {
            for it in tcx.associated_items(tr).in_definition_order() {
                if it.name().as_str() == fn_name {
                    return Some(it.def_id);
                }
            }
        }
    }
    None
}

pub fn instance_graph<'tcx>(cx: &Ctx<'tcx>, owners: &[LocalDefId]) -> J {
    let tcx = cx.tcx;
    let mut g = G {
        cx,
        ids: HashMap::new(),
        nodes: Vec::new(),
        work: Vec::new(),
        edges: Vec::new(),
        from_fn: find_trait_fn(tcx, "std::convert::From", "from"),
        try_from_fn: find_trait_fn(tcx, "std::convert::TryFrom", "try_from"),
    };
    let mut roots = Vec::new();
    for l in owners {
        let did = l.to_def_id();
        let args = ty::GenericArgs::identity_for_item(tcx, did);
        let n = g.node(did, args, did);
        roots.push(J::Int(n as i128));
    }
    let mut guard = 0usize;
    while let Some(a) = g.work.pop() {
        guard += 1;
        if guard > 200_000 {
            break;
        }
        g.process(a);
    }
    let nodes: Vec<J> = g
        .nodes
        .iter()
        .enumerate()
        .map(|(i, k)| {
            let mut o = J::obj().set("id", J::Int(i as i128)).set("def", J::s(cx.path(k.def)));
            if let Some(f) = cx.fn_ids.get(&k.def) {
                o.put("fn", J::Int(*f as i128));
            }
            o.put("args", J::Arr(k.args.iter().map(|a| J::s(format!("{}", a))).collect()));
            o.put("path", J::s(tcx.def_path_str_with_args(k.def, k.args)));
            if let Some(r) = k.root {
                if let Some(f) = cx.fn_ids.get(&r) {
                    o.put("root", J::Int(*f as i128));
                }
            }
            o
        })
        .collect();
    J::obj()
        .set("nodes", J::Arr(nodes))
        .set("edges", J::Arr(g.edges))
        .set("roots", J::Arr(roots))
        .set("truncated", J::Bool(guard > 200_000))
        .set("from_fn_found", J::Bool(g.from_fn.is_some()))
}
