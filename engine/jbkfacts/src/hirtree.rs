// Structured call tree of a function from type-checked HIR:
//   call / match / if / loop / closure / struct / ret / try / let  (everything else is walked
//   transparently, children in evaluation order).
use crate::json::J;
use crate::mirfacts::{callee_json, ty_s};
use crate::Ctx;
use rustc_hir as hir;
use rustc_hir::def::{DefKind, Res};
use rustc_hir::def_id::LocalDefId;
use rustc_hir::intravisit::{self, Visitor};
use rustc_middle::ty::{self, TypeckResults, TypingEnv};

struct W<'a, 'tcx> {
    cx: &'a Ctx<'tcx>,
    tr: &'tcx TypeckResults<'tcx>,
    tenv: TypingEnv<'tcx>,
    owner: rustc_hir::def_id::DefId,
    stack: Vec<Vec<J>>,
}

fn snip<'tcx>(cx: &Ctx<'tcx>, sp: rustc_span::Span, max: usize) -> String {
    let sm = cx.tcx.sess.source_map();
    let sp = sp.source_callsite();
    match sm.span_to_snippet(sp) {
        Ok(s) => {
            let s: String = s.split_whitespace().collect::<Vec<_>>().join(" ");
            if s.chars().count() > max {
                let t: String = s.chars().take(max).collect();
                format!("{}…", t)
            } else {
                s
            }
        }
        Err(_) => String::new(),
    }
}

impl<'a, 'tcx> W<'a, 'tcx> {
    fn push(&mut self) {
        self.stack.push(Vec::new());
    }
    fn pop(&mut self) -> J {
        J::Arr(self.stack.pop().unwrap())
    }
    fn emit(&mut self, j: J) {
        self.stack.last_mut().unwrap().push(j);
    }
    fn sub<F: FnOnce(&mut Self)>(&mut self, f: F) -> J {
        self.push();
        f(self);
        self.pop()
    }
    fn loc(&self, sp: rustc_span::Span, o: &mut J) {
        let (_f, l, _c) = self.cx.span_loc(sp);
        o.put("ln", J::Int(l as i128));
        let m = self.cx.macros(sp);
        if !m.is_empty() {
            o.put("mac", J::Arr(m.into_iter().map(J::s).collect()));
        }
    }

    /// integer value of a constant expression: literals, named constants, casts and + - * << >> of those
    fn const_int(&self, e: &'tcx hir::Expr<'tcx>, depth: usize) -> Option<i128> {
        let tcx = self.cx.tcx;
        if depth > 6 {
            return None;
        }
        match e.kind {
            hir::ExprKind::Lit(l) => match l.node {
                rustc_ast::ast::LitKind::Int(n, _) => {
                    let v: u128 = n.get();
                    if v > i128::MAX as u128 { None } else { Some(v as i128) }
                }
                _ => None,
            },
            hir::ExprKind::Cast(x, _) | hir::ExprKind::DropTemps(x) => self.const_int(x, depth + 1),
            hir::ExprKind::Path(ref qp) => match self.tr.qpath_res(qp, e.hir_id) {
                Res::Def(DefKind::Const { .. } | DefKind::AssocConst { .. }, did) => {
                    let args = self.tr.node_args(e.hir_id);
                    if ty::TypeVisitableExt::has_param(&args) {
                        return None;
                    }
                    let uv = rustc_middle::mir::UnevaluatedConst::new(did, args);
                    let t = self.tr.expr_ty(e);
                    if !t.is_integral() {
                        return None;
                    }
                    match tcx.const_eval_resolve(self.tenv, uv, rustc_span::DUMMY_SP) {
                        Ok(rustc_middle::mir::ConstValue::Scalar(rustc_middle::mir::interpret::Scalar::Int(i))) => {
                            match crate::scalar_int_json(i, t) {
                                J::Int(v) => Some(v),
                                _ => None,
                            }
                        }
                        _ => None,
                    }
                }
                _ => None,
            },
            hir::ExprKind::Binary(op, a, b) => {
                let x = self.const_int(a, depth + 1)?;
                let y = self.const_int(b, depth + 1)?;
                match op.node {
                    hir::BinOpKind::Add => x.checked_add(y),
                    hir::BinOpKind::Sub => x.checked_sub(y),
                    hir::BinOpKind::Mul => x.checked_mul(y),
                    hir::BinOpKind::Shl if (0..100).contains(&y) => x.checked_shl(y as u32),
                    hir::BinOpKind::Shr if (0..100).contains(&y) => x.checked_shr(y as u32),
                    _ => None,
                }
            }
            _ => None,
        }
    }

    /// canonical rendering of an expression: constant sub-expressions folded to their value, immutable `let`
    /// bindings replaced by their initialiser, casts / borrows / parentheses dropped, no white space
    fn norm_expr(&self, e: &'tcx hir::Expr<'tcx>, depth: usize) -> String {
        let tcx = self.cx.tcx;
        if let Some(v) = self.const_int(e, 0) {
            return format!("{}", v);
        }
        if depth > 5 {
            return snip(self.cx, e.span, 100).replace(' ', "");
        }
        match e.kind {
            hir::ExprKind::Cast(x, _) | hir::ExprKind::DropTemps(x) | hir::ExprKind::AddrOf(_, _, x) => self.norm_expr(x, depth + 1),
            hir::ExprKind::Unary(hir::UnOp::Deref, x) => self.norm_expr(x, depth + 1),
            hir::ExprKind::Path(ref qp) => {
                if let Res::Local(hid) = self.tr.qpath_res(qp, e.hir_id) {
                    // immutable binding `let x = init;` : substitute the initialiser
                    if let hir::Node::Pat(pat) = tcx.hir_node(hid) {
                        if let hir::PatKind::Binding(hir::BindingMode(hir::ByRef::No, hir::Mutability::Not), _, _, None) = pat.kind {
                            if let hir::Node::LetStmt(ls) = tcx.parent_hir_node(hid) {
                                if ls.pat.hir_id == hid && ls.els.is_none() {
                                    if let Some(init) = ls.init {
                                        // a struct literal bound to an immutable local: rendered field by field so that
                                        // `local.field` (and `self.field` in a method called on it) can be resolved
                                        if let hir::ExprKind::Struct(_, fields, hir::StructTailExpr::None) = init.kind {
                                            let fs: Vec<String> = fields.iter().map(|f| format!("{}:{}", f.ident.name, self.norm_expr(f.expr, depth + 1))).collect();
                                            return format!("#S{{{}}}", fs.join(","));
                                        }
                                        if matches!(init.kind, hir::ExprKind::Binary(..) | hir::ExprKind::Cast(..) | hir::ExprKind::Lit(..) | hir::ExprKind::Path(..) | hir::ExprKind::Field(..) | hir::ExprKind::MethodCall(..)) && !matches!(init.kind, hir::ExprKind::MethodCall(..)) || matches!(init.kind, hir::ExprKind::MethodCall(seg, ..) if seg.ident.name.as_str() == "len") {
                                            return self.norm_expr(init, depth + 1);
                                        }
                                    }
                                }
                            }
                        }
                    }
                    return tcx.hir_name(hid).to_string();
                }
                snip(self.cx, e.span, 100).replace(' ', "")
            }
            hir::ExprKind::Binary(op, a, b) => {
                let o = match op.node {
                    hir::BinOpKind::Add => "+",
                    hir::BinOpKind::Sub => "-",
                    hir::BinOpKind::Mul => "*",
                    hir::BinOpKind::Div => "/",
                    hir::BinOpKind::Rem => "%",
                    hir::BinOpKind::Shl => "<<",
                    hir::BinOpKind::Shr => ">>",
                    _ => return snip(self.cx, e.span, 100).replace(' ', ""),
                };
                format!("{}{}{}", self.norm_expr(a, depth + 1), o, self.norm_expr(b, depth + 1))
            }
            hir::ExprKind::Field(base, ident) => {
                let b = self.norm_expr(base, depth + 1);
                if let Some(v) = struct_field(&b, ident.name.as_str()) {
                    return v;
                }
                format!("{}.{}", b, ident.name)
            }
            hir::ExprKind::MethodCall(seg, recv, args, _) => {
                let a: Vec<String> = args.iter().map(|x| self.norm_expr(x, depth + 1)).collect();
                format!("{}.{}({})", self.norm_expr(recv, depth + 1), seg.ident.name, a.join(","))
            }
            _ => snip(self.cx, e.span, 100).replace(' ', ""),
        }
    }

    fn arg_desc(&self, e: &'tcx hir::Expr<'tcx>) -> J {
        let tcx = self.cx.tcx;
        let mut o = J::obj().set("snip", J::s(snip(self.cx, e.span, 100)));
        o.put("nx", J::s(self.norm_expr(e, 0)));
        if let Some(v) = self.const_int(e, 0) {
            if !matches!(e.kind, hir::ExprKind::Lit(_)) {
                o.put("lit", J::Int(v));
                o.put("folded", J::Bool(true));
            }
        }
        if let Some(t) = self.tr.expr_ty_adjusted_opt(e) {
            o.put("ty", J::s(ty_s(t)));
        }
        if let Some(t) = self.tr.expr_ty_opt(e) {
            o.put("ty0", J::s(ty_s(t)));
        }
        let mut inner = e;
        // look through &, &mut, parens-like wrappers
        loop {
            match inner.kind {
                hir::ExprKind::AddrOf(_, _, x) | hir::ExprKind::DropTemps(x) => inner = x,
                hir::ExprKind::Cast(x, _) => {
                    o.put("cast", J::Bool(true));
                    inner = x
                }
                _ => break,
            }
        }
        match inner.kind {
            hir::ExprKind::Lit(l) => {
                o.put("lit", lit_json(&l.node));
            }
            hir::ExprKind::Path(ref qp) => {
                let res = self.tr.qpath_res(qp, inner.hir_id);
                match res {
                    Res::Def(DefKind::Const { .. } | DefKind::AssocConst { .. }, did) => {
                        let args = self.tr.node_args(inner.hir_id);
                        o.put("const", J::s(tcx.def_path_str_with_args(did, args)));
                        let uv = rustc_middle::mir::UnevaluatedConst::new(did, args);
                        if !ty::TypeVisitableExt::has_param(&args) {
                            if let Ok(v) = tcx.const_eval_resolve(self.tenv, uv, rustc_span::DUMMY_SP) {
                                let t = self.tr.expr_ty(inner);
                                o.put("cval", crate::const_value_json(self.cx, v, t));
                            }
                        }
                    }
                    Res::Local(hid) => {
                        o.put("local", J::s(tcx.hir_name(hid).to_string()));
                    }
                    Res::Def(DefKind::Ctor(..), did) => {
                        o.put("ctor", J::s(self.cx.path(did)));
                    }
                    Res::Def(DefKind::Fn | DefKind::AssocFn, did) => {
                        o.put("fnref", J::s(self.cx.path(did)));
                    }
                    _ => {}
                }
            }
            hir::ExprKind::Tup(elems) => {
                let mut v = Vec::new();
                for el in elems.iter() {
                    v.push(self.arg_desc(el));
                }
                o.put("tuple", J::Arr(v));
            }
            hir::ExprKind::Field(base, ident) => {
                o.put("field", J::s(ident.name.to_string()));
                if let hir::ExprKind::Path(ref qp) = base.kind {
                    if let Res::Local(hid) = self.tr.qpath_res(qp, base.hir_id) {
                        o.put("field_of", J::s(tcx.hir_name(hid).to_string()));
                    }
                }
            }
            _ => {}
        }
        o
    }

    fn call_node(
        &mut self,
        e: &'tcx hir::Expr<'tcx>,
        callee: J,
        recv: Option<&'tcx hir::Expr<'tcx>>,
        args: &'tcx [hir::Expr<'tcx>],
    ) {
        let sub = self.sub(|w| {
            if let Some(r) = recv {
                w.visit_expr(r);
            }
            for a in args {
                w.visit_expr(a);
            }
        });
        let mut o = J::obj().set("k", J::s("call")).set("callee", callee);
        if let Some(r) = recv {
            o.put("recv", self.arg_desc(r));
        }
        o.put("args", J::Arr(args.iter().map(|a| self.arg_desc(a)).collect()));
        o.put("sub", sub);
        if let Some(t) = self.tr.expr_ty_opt(e) {
            o.put("ty", J::s(ty_s(t)));
        }
        self.loc(e.span, &mut o);
        self.emit(o);
    }

    fn try_for_loop(&mut self, e: &'tcx hir::Expr<'tcx>, scrut: &'tcx hir::Expr<'tcx>, arms: &'tcx [hir::Arm<'tcx>]) -> bool {
        // match IntoIterator::into_iter(ITER) { mut iter => loop { match next(&mut iter) { None => break, Some(PAT) => BODY } } }
        let iter_expr = match scrut.kind {
            hir::ExprKind::Call(_, a) if a.len() == 1 => &a[0],
            _ => return false,
        };
        if arms.len() != 1 {
            return false;
        }
        let blk = match arms[0].body.kind {
            hir::ExprKind::Loop(b, _, hir::LoopSource::ForLoop, _) => b,
            _ => return false,
        };
        let inner = match (blk.stmts.first(), blk.expr) {
            (Some(s), _) => match s.kind {
                hir::StmtKind::Expr(x) | hir::StmtKind::Semi(x) => x,
                _ => return false,
            },
            (None, Some(x)) => x,
            _ => return false,
        };
        let some_arm = match inner.kind {
            hir::ExprKind::Match(_, arms2, hir::MatchSource::ForLoopDesugar) if arms2.len() == 2 => &arms2[1],
            _ => return false,
        };
        let pre = self.sub(|w| w.visit_expr(iter_expr));
        let body = self.sub(|w| w.visit_expr(some_arm.body));
        let mut o = J::obj()
            .set("k", J::s("loop"))
            .set("src", J::s("for"))
            .set("iter", J::s(snip(self.cx, iter_expr.span, 120)))
            .set("pat", J::s(snip(self.cx, some_arm.pat.span, 80)))
            .set("pre", pre)
            .set("body", body);
        if let Some(t) = self.tr.expr_ty_adjusted_opt(iter_expr) {
            o.put("iter_ty", J::s(ty_s(t)));
        }
        self.loc(e.span, &mut o);
        self.emit(o);
        true
    }
}

fn lit_json(l: &rustc_ast::ast::LitKind) -> J {
    use rustc_ast::ast::LitKind;
    match l {
        LitKind::Int(n, _) => {
            let v: u128 = n.get();
            if v > i128::MAX as u128 {
                J::s(format!("{}", v))
            } else {
                J::Int(v as i128)
            }
        }
        LitKind::Byte(b) => J::Int(*b as i128),
        LitKind::Char(c) => J::Int(*c as i128),
        LitKind::Bool(b) => J::Bool(*b),
        LitKind::Str(s, _) => J::s(s.to_string()),
        LitKind::ByteStr(b, _) => J::s(String::from_utf8_lossy(b.as_byte_str()).to_string()),
        _ => J::Null,
    }
}

impl<'a, 'tcx> Visitor<'tcx> for W<'a, 'tcx> {
    fn visit_expr(&mut self, e: &'tcx hir::Expr<'tcx>) {
        let tcx = self.cx.tcx;
        match e.kind {
            hir::ExprKind::Call(f, args) => {
                let mut callee = J::Null;
                if let hir::ExprKind::Path(ref qp) = f.kind {
                    match self.tr.qpath_res(qp, f.hir_id) {
                        Res::Def(DefKind::Fn | DefKind::AssocFn, did) => {
                            let ga = self.tr.node_args(f.hir_id);
                            callee = callee_json(self.cx, did, ga, self.tenv, ga, self.owner);
                        }
                        Res::Def(DefKind::Ctor(..), did) => {
                            callee = J::obj().set("ctor", J::s(self.cx.path(did)));
                        }
                        Res::Local(hid) => {
                            callee = J::obj().set("local", J::s(tcx.hir_name(hid).to_string()));
                        }
                        _ => {}
                    }
                }
                if let J::Null = callee {
                    callee = J::obj().set("expr", J::s(snip(self.cx, f.span, 80)));
                    // callee expression may itself contain calls
                    let pre = self.sub(|w| w.visit_expr(f));
                    if let J::Arr(ref v) = pre {
                        for x in v.clone() {
                            self.emit(x);
                        }
                    }
                }
                self.call_node(e, callee, None, args);
            }
            hir::ExprKind::MethodCall(_seg, recv, args, _) => {
                let callee = match self.tr.type_dependent_def_id(e.hir_id) {
                    Some(did) => {
                        let ga = self.tr.node_args(e.hir_id);
                        callee_json(self.cx, did, ga, self.tenv, ga, self.owner)
                    }
                    None => J::obj().set("expr", J::s("?method")),
                };
                self.call_node(e, callee, Some(recv), args);
            }
            hir::ExprKind::Match(scrut, arms, src) => {
                match src {
                    hir::MatchSource::TryDesugar(_) => {
                        // Try::branch(inner): walk inner, mark
                        if let hir::ExprKind::Call(_, a) = scrut.kind {
                            if a.len() == 1 {
                                self.visit_expr(&a[0]);
                                let mut o = J::obj().set("k", J::s("try"));
                                self.loc(e.span, &mut o);
                                self.emit(o);
                                return;
                            }
                        }
                        intravisit::walk_expr(self, e);
                    }
                    hir::MatchSource::ForLoopDesugar => {
                        if !self.try_for_loop(e, scrut, arms) {
                            intravisit::walk_expr(self, e);
                        }
                    }
                    _ => {
                        let pre = self.sub(|w| w.visit_expr(scrut));
                        let mut ja = Vec::new();
                        for arm in arms {
                            let guard = match arm.guard {
                                Some(g) => self.sub(|w| w.visit_expr(g)),
                                None => J::Arr(vec![]),
                            };
                            let body = self.sub(|w| w.visit_expr(arm.body));
                            let mut ao = J::obj()
                                .set("pat", J::s(snip(self.cx, arm.pat.span, 160)))
                                .set("guard", guard)
                                .set("body", body);
                            if let Some(g) = arm.guard {
                                ao.put("guard_snip", J::s(snip(self.cx, g.span, 120)));
                            }
                            // constructor built directly by the arm body (for tag tables)
                            ao.put("value", self.arg_desc(peel_blocks(arm.body)));
                            ja.push(ao);
                        }
                        let mut o = J::obj()
                            .set("k", J::s("match"))
                            .set("scrut", J::s(snip(self.cx, scrut.span, 120)))
                            .set("pre", pre)
                            .set("arms", J::Arr(ja));
                        if let Some(t) = self.tr.expr_ty_adjusted_opt(scrut) {
                            o.put("scrut_ty", J::s(ty_s(t)));
                        }
                        self.loc(e.span, &mut o);
                        self.emit(o);
                    }
                }
            }
            hir::ExprKind::If(cond, then, els) => {
                let pre = self.sub(|w| w.visit_expr(cond));
                let t = self.sub(|w| w.visit_expr(then));
                let el = match els {
                    Some(x) => self.sub(|w| w.visit_expr(x)),
                    None => J::Arr(vec![]),
                };
                let mut o = J::obj()
                    .set("k", J::s("if"))
                    .set("cond", J::s(snip(self.cx, cond.span, 160)))
                    .set("pre", pre)
                    .set("then", t)
                    .set("else", el);
                self.loc(e.span, &mut o);
                self.emit(o);
            }
            hir::ExprKind::Loop(blk, _, src, _) => {
                let body = self.sub(|w| w.visit_block(blk));
                let mut o = J::obj()
                    .set("k", J::s("loop"))
                    .set("src", J::s(match src {
                        hir::LoopSource::While => "while",
                        hir::LoopSource::ForLoop => "for_raw",
                        _ => "loop",
                    }))
                    .set("pre", J::Arr(vec![]))
                    .set("body", body);
                self.loc(e.span, &mut o);
                self.emit(o);
            }
            hir::ExprKind::Closure(c) => {
                let body = tcx.hir_body(c.body);
                let b = self.sub(|w| w.visit_expr(body.value));
                let mut o = J::obj().set("k", J::s("closure")).set("body", b);
                if let Some(id) = self.cx.fn_ids.get(&c.def_id.to_def_id()) {
                    o.put("fn", J::Int(*id as i128));
                }
                self.loc(e.span, &mut o);
                self.emit(o);
            }
            hir::ExprKind::Struct(qp, fields, _) => {
                let sub = self.sub(|w| intravisit::walk_expr(w, e));
                let mut o = J::obj().set("k", J::s("struct"));
                match self.tr.qpath_res(qp, e.hir_id) {
                    Res::Def(_, did) => o.put("path", J::s(self.cx.path(did))),
                    Res::SelfTyAlias { .. } | Res::SelfCtor(_) => {
                        o.put("path", J::s(ty_s(self.tr.expr_ty(e))))
                    }
                    _ => o.put("path", J::s(ty_s(self.tr.expr_ty(e)))),
                }
                o.put("ty", J::s(ty_s(self.tr.expr_ty(e))));
                o.put(
                    "fields",
                    J::Arr(
                        fields
                            .iter()
                            .map(|f| J::obj().set("name", J::s(f.ident.name.to_string())).set("value", self.arg_desc(f.expr)))
                            .collect(),
                    ),
                );
                o.put("sub", sub);
                self.loc(e.span, &mut o);
                self.emit(o);
            }
            hir::ExprKind::Ret(x) => {
                let sub = self.sub(|w| {
                    if let Some(x) = x {
                        w.visit_expr(x)
                    }
                });
                let mut o = J::obj().set("k", J::s("ret")).set("sub", sub);
                if let Some(x) = x {
                    o.put("value", self.arg_desc(x));
                }
                self.loc(e.span, &mut o);
                self.emit(o);
            }
            hir::ExprKind::Break(_, x) => {
                if let Some(x) = x {
                    self.visit_expr(x);
                }
                let mut o = J::obj().set("k", J::s("break"));
                self.loc(e.span, &mut o);
                self.emit(o);
            }
            hir::ExprKind::Continue(_) => {
                let mut o = J::obj().set("k", J::s("continue"));
                self.loc(e.span, &mut o);
                self.emit(o);
            }
            hir::ExprKind::Cast(x, _) => {
                let sub = self.sub(|w| w.visit_expr(x));
                let mut o = J::obj().set("k", J::s("cast")).set("sub", sub);
                o.put("from", J::s(ty_s(self.tr.expr_ty(x))));
                o.put("to", J::s(ty_s(self.tr.expr_ty(e))));
                o.put("snip", J::s(snip(self.cx, e.span, 100)));
                self.loc(e.span, &mut o);
                self.emit(o);
            }
            hir::ExprKind::Binary(op, a, b) => {
                let sub = self.sub(|w| {
                    w.visit_expr(a);
                    w.visit_expr(b);
                });
                // overloaded operator?
                let mut o = J::obj().set("k", J::s("binop")).set("op", J::s(format!("{:?}", op.node)));
                if let Some(did) = self.tr.type_dependent_def_id(e.hir_id) {
                    let ga = self.tr.node_args(e.hir_id);
                    o.put("callee", callee_json(self.cx, did, ga, self.tenv, ga, self.owner));
                }
                o.put("a", self.arg_desc(a));
                o.put("b", self.arg_desc(b));
                o.put("sub", sub);
                self.loc(e.span, &mut o);
                self.emit(o);
            }
            hir::ExprKind::AssignOp(op, a, b) => {
                let sub = self.sub(|w| {
                    w.visit_expr(b);
                    w.visit_expr(a);
                });
                let mut o = J::obj().set("k", J::s("assignop")).set("op", J::s(format!("{:?}", op.node)));
                if let Some(did) = self.tr.type_dependent_def_id(e.hir_id) {
                    let ga = self.tr.node_args(e.hir_id);
                    o.put("callee", callee_json(self.cx, did, ga, self.tenv, ga, self.owner));
                }
                o.put("a", self.arg_desc(a));
                o.put("b", self.arg_desc(b));
                o.put("sub", sub);
                self.loc(e.span, &mut o);
                self.emit(o);
            }
            hir::ExprKind::Assign(a, b, _) => {
                let sub = self.sub(|w| {
                    w.visit_expr(b);
                    w.visit_expr(a);
                });
                let mut o = J::obj().set("k", J::s("assign"));
                o.put("a", self.arg_desc(a));
                o.put("b", self.arg_desc(b));
                o.put("sub", sub);
                self.loc(e.span, &mut o);
                self.emit(o);
            }
            hir::ExprKind::Index(a, b, _) => {
                let sub = self.sub(|w| {
                    w.visit_expr(a);
                    w.visit_expr(b);
                });
                let mut o = J::obj().set("k", J::s("index"));
                if let Some(did) = self.tr.type_dependent_def_id(e.hir_id) {
                    let ga = self.tr.node_args(e.hir_id);
                    o.put("callee", callee_json(self.cx, did, ga, self.tenv, ga, self.owner));
                }
                o.put("a", self.arg_desc(a));
                o.put("b", self.arg_desc(b));
                o.put("sub", sub);
                self.loc(e.span, &mut o);
                self.emit(o);
            }
            _ => intravisit::walk_expr(self, e),
        }
    }

    fn visit_local(&mut self, l: &'tcx hir::LetStmt<'tcx>) {
        let sub = self.sub(|w| {
            if let Some(i) = l.init {
                w.visit_expr(i);
            }
        });
        let mut o = J::obj().set("k", J::s("let")).set("pat", J::s(snip(self.cx, l.pat.span, 80))).set("sub", sub);
        if let Some(i) = l.init {
            o.put("init", self.arg_desc(i));
        }
        self.loc(l.span, &mut o);
        self.emit(o);
        // `let PAT = INIT else { DIVERGES };` : the else block is one alternative, falling through the other
        if let Some(els) = l.els {
            let t = self.sub(|w| w.visit_block(els));
            let mut io = J::obj()
                .set("k", J::s("if"))
                .set("cond", J::s(format!("!matches({})", snip(self.cx, l.pat.span, 80))))
                .set("pre", J::Arr(vec![]))
                .set("then", t)
                .set("else", J::Arr(vec![]))
                .set("let_else", J::Bool(true));
            self.loc(l.span, &mut io);
            self.emit(io);
        }
    }
}

/// value of `field` in a rendering `#S{a:x,b:y}` (top-level split)
fn struct_field(s: &str, field: &str) -> Option<String> {
    let inner = s.strip_prefix("#S{")?.strip_suffix('}')?;
    let mut depth = 0i32;
    let mut start = 0usize;
    let bytes = inner.as_bytes();
    let mut parts = Vec::new();
    for (i, c) in bytes.iter().enumerate() {
        match *c {
            b'{' | b'(' | b'[' => depth += 1,
            b'}' | b')' | b']' => depth -= 1,
            b',' if depth == 0 => {
                parts.push(&inner[start..i]);
                start = i + 1;
            }
            _ => {}
        }
    }
    parts.push(&inner[start..]);
    for p in parts {
        if let Some((k, v)) = p.split_once(':') {
            if k == field {
                return Some(v.to_string());
            }
        }
    }
    None
}

fn peel_blocks<'tcx>(mut e: &'tcx hir::Expr<'tcx>) -> &'tcx hir::Expr<'tcx> {
    loop {
        match e.kind {
            hir::ExprKind::Block(b, _) if b.stmts.is_empty() && b.expr.is_some() => e = b.expr.unwrap(),
            hir::ExprKind::DropTemps(x) => e = x,
            _ => return e,
        }
    }
}

pub fn fn_tree<'tcx>(cx: &Ctx<'tcx>, ldid: LocalDefId) -> J {
    let tcx = cx.tcx;
    let did = ldid.to_def_id();
    let body = tcx.hir_body_owned_by(ldid);
    let tr = tcx.typeck(ldid);
    let mut w = W { cx, tr, tenv: TypingEnv::post_analysis(tcx, did), owner: did, stack: vec![Vec::new()] };
    w.visit_expr(body.value);
    let tree = w.pop();
    let params: Vec<J> = body.params.iter().map(|p| J::s(snip(cx, p.pat.span, 60))).collect();
    let id = match cx.fn_ids.get(&did) {
        Some(i) => J::Int(*i as i128),
        None => J::Null,
    };
    J::obj().set("id", id).set("path", J::s(cx.path(did))).set("params", J::Arr(params)).set("tree", tree)
}
