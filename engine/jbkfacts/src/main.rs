// jbkfacts: rustc_private driver that dumps the resolved program of the `jubako` crate
// (MIR per body, polymorphic instance call graph, HIR call trees, constants, impl tables)
// as one JSON file per compiled crate into $JBKFACTS_OUT.
//
// Used as RUSTC_WORKSPACE_WRAPPER under `cargo +nightly check`; argv[1] is the real rustc
// path and is dropped.
#![feature(rustc_private)]
#![allow(clippy::all)]

extern crate rustc_abi;
extern crate rustc_ast;
extern crate rustc_data_structures;
extern crate rustc_driver;
extern crate rustc_hir;
extern crate rustc_interface;
extern crate rustc_middle;
extern crate rustc_span;

mod hirtree;
mod inst;
mod json;
mod mirfacts;

use json::J;
use rustc_driver::{Callbacks, Compilation};
use rustc_hir::def::DefKind;
use rustc_hir::def_id::{DefId, LOCAL_CRATE};
use rustc_interface::interface::Compiler;
use rustc_middle::ty::print::PrintTraitRefExt;
use rustc_middle::ty::{self, TyCtxt};
use std::collections::HashMap;

pub struct Ctx<'tcx> {
    pub tcx: TyCtxt<'tcx>,
    pub fn_ids: HashMap<DefId, usize>,
}

impl<'tcx> Ctx<'tcx> {
    pub fn path(&self, did: DefId) -> String {
        self.tcx.def_path_str(did)
    }
    pub fn span_loc(&self, sp: rustc_span::Span) -> (String, usize, usize) {
        let sm = self.tcx.sess.source_map();
        let sp = sp.source_callsite();
        let lo = sm.lookup_char_pos(sp.lo());
        let file = match &lo.file.name {
            rustc_span::FileName::Real(r) => match r.local_path() {
                Some(p) => p.display().to_string(),
                None => format!("{:?}", lo.file.name),
            },
            other => format!("{:?}", other),
        };
        (file, lo.line, lo.col.0 + 1)
    }
    /// names of the macros whose expansion produced this span, innermost first
    pub fn macros(&self, sp: rustc_span::Span) -> Vec<String> {
        let mut v = Vec::new();
        if sp.from_expansion() {
            for e in sp.macro_backtrace() {
                if let rustc_span::ExpnKind::Macro(_, name) = e.kind {
                    v.push(name.to_string());
                } else if let rustc_span::ExpnKind::Desugaring(d) = e.kind {
                    v.push(format!("desugar:{:?}", d));
                }
            }
        }
        v
    }
}

struct Cb;

impl Callbacks for Cb {
    fn after_analysis<'tcx>(&mut self, _c: &Compiler, tcx: TyCtxt<'tcx>) -> Compilation {
        let name = tcx.crate_name(LOCAL_CRATE).to_string();
        let out_dir = match std::env::var("JBKFACTS_OUT") {
            Ok(d) => d,
            Err(_) => return Compilation::Continue,
        };
        let want = std::env::var("JBKFACTS_CRATES").unwrap_or_else(|_| "jubako,jbk".to_string());
        if !want.split(',').any(|w| w == name) {
            return Compilation::Continue;
        }
        let facts = collect(tcx, &name);
        let mut s = String::new();
        facts.write(&mut s);
        let kind = if tcx.crate_types().iter().any(|t| format!("{:?}", t).contains("Executable")) {
            "bin"
        } else {
            "lib"
        };
        let path = format!("{}/{}.{}.json", out_dir, name, kind);
        std::fs::write(&path, s).expect("write facts");
        Compilation::Continue
    }
}

fn collect<'tcx>(tcx: TyCtxt<'tcx>, crate_name: &str) -> J {
    let mut cx = Ctx { tcx, fn_ids: HashMap::new() };
    // body owners that are functions / closures
    let mut owners: Vec<rustc_hir::def_id::LocalDefId> = Vec::new();
    for ldid in tcx.hir_body_owners() {
        let k = tcx.def_kind(ldid);
        if matches!(k, DefKind::Fn | DefKind::AssocFn | DefKind::Closure) {
            // skip coroutine closures etc. (none expected)
            owners.push(ldid);
        }
    }
    for (i, l) in owners.iter().enumerate() {
        cx.fn_ids.insert(l.to_def_id(), i);
    }
    let mut fns = Vec::new();
    for l in owners.iter() {
        fns.push(mirfacts::body_facts(&cx, *l));
    }
    let hir: Vec<J> = owners.iter().map(|l| hirtree::fn_tree(&cx, *l)).collect();
    let mut const_hir = Vec::new();
    for ldid in tcx.hir_body_owners() {
        if matches!(tcx.def_kind(ldid), DefKind::Const { .. } | DefKind::AssocConst { .. } | DefKind::Static { .. }) {
            const_hir.push(hirtree::fn_tree(&cx, ldid));
        }
    }
    let inst = inst::instance_graph(&cx, &owners);
    let (consts, enums, structs, impls, traits) = items(&cx);
    J::obj()
        .set("crate", J::s(crate_name))
        .set("fns", J::Arr(fns))
        .set("hir", J::Arr(hir))
        .set("const_hir", J::Arr(const_hir))
        .set("inst", inst)
        .set("consts", consts)
        .set("enums", enums)
        .set("structs", structs)
        .set("impls", impls)
        .set("traits", traits)
}

fn items<'tcx>(cx: &Ctx<'tcx>) -> (J, J, J, J, J) {
    let tcx = cx.tcx;
    let mut consts = Vec::new();
    let mut enums = Vec::new();
    let mut structs = Vec::new();
    let mut impls = Vec::new();
    let mut traits = Vec::new();
    for ldid in tcx.hir_crate_items(()).definitions() {
        let did = ldid.to_def_id();
        let k = tcx.def_kind(did);
        match k {
            DefKind::Const { .. } | DefKind::AssocConst { .. } => {
                let mut o = J::obj().set("path", J::s(cx.path(did)));
                let (f, l, _) = cx.span_loc(tcx.def_span(did));
                o.put("file", J::s(f));
                o.put("line", J::Int(l as i128));
                o.put("ty", J::s(format!("{}", tcx.type_of(did).instantiate_identity().skip_norm_wip())));
                if let Some(parent) = tcx.opt_parent(did) {
                    if matches!(tcx.def_kind(parent), DefKind::Impl { .. }) {
                        o.put("impl_self", J::s(format!("{}", tcx.type_of(parent).instantiate_identity().skip_norm_wip())));
                        if let Some(tr) = tcx.impl_opt_trait_ref(parent) {
                            o.put("impl_trait", J::s(format!("{}", tr.instantiate_identity().skip_norm_wip().print_only_trait_path())));
                        }
                    }
                }
                // evaluate when not generic
                let generic = tcx.generics_of(did).count() > 0
                    && tcx.generics_of(did).requires_monomorphization(tcx);
                let mut val = J::Null;
                if !generic && tcx.is_mir_available(did) || matches!(k, DefKind::Const { .. } | DefKind::AssocConst { .. }) && !generic {
                    // assoc consts in traits without default have no body
                    let has_body = ldid_has_body(tcx, ldid);
                    if has_body {
                        if let Ok(v) = tcx.const_eval_poly(did) {
                            val = const_value_json(cx, v, tcx.type_of(did).instantiate_identity().skip_norm_wip());
                        }
                    }
                }
                o.put("val", val);
                consts.push(o);
            }
            DefKind::Enum | DefKind::Struct => {
                let adt = tcx.adt_def(did);
                let mut o = J::obj().set("path", J::s(cx.path(did)));
                o.put("repr", J::s(format!("{:?}", adt.repr().int)));
                if adt.is_enum() {
                    let mut vs = Vec::new();
                    for (vi, d) in adt.discriminants(tcx) {
                        let v = adt.variant(vi);
                        let fields: Vec<J> = v
                            .fields
                            .iter()
                            .map(|f| {
                                J::obj()
                                    .set("name", J::s(f.name.to_string()))
                                    .set("ty", J::s(format!("{}", tcx.type_of(f.did).instantiate_identity().skip_norm_wip())))
                            })
                            .collect();
                        vs.push(
                            J::obj()
                                .set("name", J::s(v.name.to_string()))
                                .set("discr", J::Int(d.val as i128))
                                .set("fields", J::Arr(fields)),
                        );
                    }
                    o.put("variants", J::Arr(vs));
                    enums.push(o);
                } else {
                    let v = adt.non_enum_variant();
                    let fields: Vec<J> = v
                        .fields
                        .iter()
                        .map(|f| {
                            J::obj()
                                .set("name", J::s(f.name.to_string()))
                                .set("ty", J::s(format!("{}", tcx.type_of(f.did).instantiate_identity().skip_norm_wip())))
                                .set("vis", J::s(format!("{:?}", f.vis)))
                        })
                        .collect();
                    o.put("fields", J::Arr(fields));
                    o.put("vis", J::s(format!("{:?}", tcx.visibility(did))));
                    structs.push(o);
                }
            }
            DefKind::Impl { .. } => {
                let mut o = J::obj();
                o.put("self", J::s(format!("{}", tcx.type_of(did).instantiate_identity().skip_norm_wip())));
                let (f, l, _) = cx.span_loc(tcx.def_span(did));
                o.put("file", J::s(f));
                o.put("line", J::Int(l as i128));
                if let Some(tr) = tcx.impl_opt_trait_ref(did) {
                    let tr = tr.instantiate_identity().skip_norm_wip();
                    o.put("trait", J::s(format!("{}", tr.print_only_trait_path())));
                    o.put("trait_def", J::s(cx.path(tr.def_id)));
                    let h = tcx.impl_trait_header(did);
                    o.put("unsafe", J::Bool(format!("{:?}", h.safety).contains("Unsafe")));
                    o.put("negative", J::Bool(format!("{:?}", h.polarity).contains("Negative")));
                } else {
                    o.put("trait", J::Null);
                }
                let mut its = Vec::new();
                for it in tcx.associated_items(did).in_definition_order() {
                    let mut io = J::obj()
                        .set("name", J::s(it.name().to_string()))
                        .set("path", J::s(cx.path(it.def_id)))
                        .set("kind", J::s(format!("{:?}", it.tag())));
                    if let Some(t) = it.trait_item_def_id() {
                        io.put("trait_item", J::s(cx.path(t)));
                    }
                    if let Some(id) = cx.fn_ids.get(&it.def_id) {
                        io.put("fn", J::Int(*id as i128));
                    }
                    its.push(io);
                }
                o.put("items", J::Arr(its));
                impls.push(o);
            }
            DefKind::Trait => {
                let mut o = J::obj().set("path", J::s(cx.path(did)));
                let mut its = Vec::new();
                for it in tcx.associated_items(did).in_definition_order() {
                    let mut io = J::obj()
                        .set("name", J::s(it.name().to_string()))
                        .set("path", J::s(cx.path(it.def_id)))
                        .set("kind", J::s(format!("{:?}", it.tag())));
                    if let Some(id) = cx.fn_ids.get(&it.def_id) {
                        io.put("fn", J::Int(*id as i128));
                    }
                    its.push(io);
                }
                o.put("items", J::Arr(its));
                traits.push(o);
            }
            _ => {}
        }
    }
    (J::Arr(consts), J::Arr(enums), J::Arr(structs), J::Arr(impls), J::Arr(traits))
}

fn ldid_has_body(tcx: TyCtxt<'_>, ldid: rustc_hir::def_id::LocalDefId) -> bool {
    tcx.hir_maybe_body_owned_by(ldid).is_some()
}

pub fn const_value_json<'tcx>(cx: &Ctx<'tcx>, v: rustc_middle::mir::ConstValue, ty: ty::Ty<'tcx>) -> J {
    use rustc_middle::mir::ConstValue;
    match v {
        ConstValue::Scalar(rustc_middle::mir::interpret::Scalar::Int(i)) => scalar_int_json(i, ty),
        ConstValue::ZeroSized => J::s("zst"),
        ConstValue::Indirect { alloc_id, offset } => {
            // byte arrays ([u8; N]) are read from the allocation
            if let ty::Array(elem, len) = ty.kind() {
                if *elem == cx.tcx.types.u8 {
                    if let Some(n) = len.try_to_target_usize(cx.tcx) {
                        if let rustc_middle::mir::interpret::GlobalAlloc::Memory(a) = cx.tcx.global_alloc(alloc_id) {
                            let start = offset.bytes_usize();
                            let bytes = a.inner().inspect_with_uninit_and_ptr_outside_interpreter(start..start + n as usize);
                            return J::Arr(bytes.iter().map(|b| J::Int(*b as i128)).collect());
                        }
                    }
                }
            }
            J::Null
        }
        _ => J::Null,
    }
}

pub fn scalar_int_json<'tcx>(i: ty::ScalarInt, ty: ty::Ty<'tcx>) -> J {
    let size = i.size();
    let bits = i.to_bits(size);
    match ty.kind() {
        ty::Int(_) => {
            // sign-extend
            let sh = 128 - size.bits();
            let v = ((bits as i128) << sh) >> sh;
            J::Int(v)
        }
        ty::Bool => J::Bool(bits != 0),
        _ => {
            if bits > i128::MAX as u128 {
                J::s(format!("{}", bits))
            } else {
                J::Int(bits as i128)
            }
        }
    }
}

fn main() {
    let mut args: Vec<String> = std::env::args().collect();
    // RUSTC_WORKSPACE_WRAPPER: argv = [driver, rustc, args...]
    if args.len() > 1 && (args[1].ends_with("rustc") || args[1].contains("/rustc")) {
        args.remove(1);
    }
    let mut cb = Cb;
    rustc_driver::run_compiler(&args, &mut cb);
}
