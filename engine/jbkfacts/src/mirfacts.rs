// Per-body MIR facts in a generic JSON encoding (see README in /verif/engine).
use crate::json::J;
use crate::{scalar_int_json, Ctx};
use rustc_hir::def::DefKind;
use rustc_hir::def_id::{DefId, LocalDefId};
use rustc_middle::mir::{
    self, AggregateKind, BasicBlockData, Body, Operand, Place, ProjectionElem, Rvalue,
    StatementKind, TerminatorKind,
};
use rustc_middle::ty::print::PrintTraitRefExt;
use rustc_middle::ty::{self, GenericArgsRef, Instance, Ty, TyCtxt, TypingEnv};

pub fn ty_s<'tcx>(t: Ty<'tcx>) -> String {
    format!("{}", t)
}

pub fn fn_header<'tcx>(cx: &Ctx<'tcx>, ldid: LocalDefId) -> J {
    let tcx = cx.tcx;
    let did = ldid.to_def_id();
    let k = tcx.def_kind(did);
    let (file, line, _) = cx.span_loc(tcx.def_span(did));
    let mut o = J::obj()
        .set("id", J::Int(cx.fn_ids[&did] as i128))
        .set("name", J::s(cx.path(did)))
        .set("kind", J::s(match k {
            DefKind::Closure => "closure",
            DefKind::AssocFn => "assoc",
            _ => "fn",
        }))
        .set("file", J::s(file))
        .set("line", J::Int(line as i128));
    // closure parent (nearest enclosing fn-like body owner)
    if k == DefKind::Closure {
        let mut p = tcx.local_parent(ldid);
        loop {
            if cx.fn_ids.contains_key(&p.to_def_id()) {
                o.put("parent", J::Int(cx.fn_ids[&p.to_def_id()] as i128));
                break;
            }
            match tcx.opt_local_parent(p) {
                Some(pp) => p = pp,
                None => break,
            }
        }
    }
    if matches!(k, DefKind::Fn | DefKind::AssocFn) {
        o.put("vis", J::s(format!("{:?}", tcx.visibility(did))));
        o.put("item_name", J::s(tcx.item_name(did).to_string()));
    }
    // enclosing impl / trait
    let typeck_root = tcx.typeck_root_def_id(did);
    if let Some(parent) = tcx.opt_parent(typeck_root) {
        match tcx.def_kind(parent) {
            DefKind::Impl { .. } => {
                o.put("impl_self", J::s(ty_s(tcx.type_of(parent).instantiate_identity().skip_norm_wip())));
                if let Some(tr) = tcx.impl_opt_trait_ref(parent) {
                    let tr = tr.instantiate_identity().skip_norm_wip();
                    o.put("impl_trait", J::s(format!("{}", tr.print_only_trait_path())));
                    o.put("impl_trait_def", J::s(cx.path(tr.def_id)));
                }
            }
            DefKind::Trait => {
                o.put("in_trait", J::s(cx.path(parent)));
            }
            _ => {}
        }
    }
    let g = tcx.generics_of(did);
    let mut gs = Vec::new();
    for i in 0..g.count() {
        gs.push(J::s(g.param_at(i, tcx).name.to_string()));
    }
    o.put("generics", J::Arr(gs));
    o
}

pub fn body_facts<'tcx>(cx: &Ctx<'tcx>, ldid: LocalDefId) -> J {
    let tcx = cx.tcx;
    let did = ldid.to_def_id();
    let mut o = fn_header(cx, ldid);
    if !tcx.is_mir_available(did) {
        o.put("mir", J::Bool(false));
        return o;
    }
    let body: &Body<'tcx> = tcx.optimized_mir(did);
    let tenv = TypingEnv::post_analysis(tcx, did);
    let id_args = ty::GenericArgs::identity_for_item(tcx, did);
    o.put("arg_count", J::Int(body.arg_count as i128));
    // locals
    let mut names: Vec<Option<String>> = vec![None; body.local_decls.len()];
    let mut upvar_names: Vec<(String, J)> = Vec::new();
    for vdi in body.var_debug_info.iter() {
        if let mir::VarDebugInfoContents::Place(p) = vdi.value {
            if p.projection.is_empty() {
                names[p.local.as_usize()] = Some(vdi.name.to_string());
            } else {
                upvar_names.push((vdi.name.to_string(), place_json(cx, body, &p)));
            }
        }
    }
    let mut locals = Vec::new();
    for (l, d) in body.local_decls.iter_enumerated() {
        let mut lo = J::obj().set("ty", J::s(ty_s(d.ty)));
        if let Some(n) = &names[l.as_usize()] {
            lo.put("name", J::s(n.clone()));
        }
        locals.push(lo);
    }
    o.put("locals", J::Arr(locals));
    o.put(
        "captures",
        J::Arr(upvar_names.into_iter().map(|(n, p)| J::obj().set("name", J::s(n)).set("place", p)).collect()),
    );
    let mut blocks = Vec::new();
    for (_bb, data) in body.basic_blocks.iter_enumerated() {
        blocks.push(block_json(cx, body, data, tenv, id_args, did));
    }
    o.put("blocks", J::Arr(blocks));
    o
}

fn span_json<'tcx>(cx: &Ctx<'tcx>, sp: rustc_span::Span, o: &mut J) {
    let (_f, l, _c) = cx.span_loc(sp);
    o.put("ln", J::Int(l as i128));
    let m = cx.macros(sp);
    if !m.is_empty() {
        o.put("mac", J::Arr(m.into_iter().map(J::s).collect()));
    }
}

fn block_json<'tcx>(
    cx: &Ctx<'tcx>,
    body: &Body<'tcx>,
    data: &BasicBlockData<'tcx>,
    tenv: TypingEnv<'tcx>,
    id_args: GenericArgsRef<'tcx>,
    owner: DefId,
) -> J {
    let mut stmts = Vec::new();
    for st in data.statements.iter() {
        match &st.kind {
            StatementKind::Assign(b) => {
                let (pl, rv) = &**b;
                let mut so = J::obj().set("k", J::s("assign"));
                so.put("lhs", place_json(cx, body, pl));
                so.put("rv", rvalue_json(cx, body, rv, tenv));
                span_json(cx, st.source_info.span, &mut so);
                stmts.push(so);
            }
            StatementKind::SetDiscriminant { place, variant_index } => {
                let mut so = J::obj().set("k", J::s("setdiscr"));
                so.put("lhs", place_json(cx, body, place));
                so.put("variant", J::Int(variant_index.as_usize() as i128));
                span_json(cx, st.source_info.span, &mut so);
                stmts.push(so);
            }
            StatementKind::Intrinsic(i) => {
                let mut so = J::obj().set("k", J::s("intrinsic"));
                match &**i {
                    mir::NonDivergingIntrinsic::Assume(op) => {
                        so.put("what", J::s("assume"));
                        so.put("op", operand_json(cx, body, op, tenv));
                    }
                    mir::NonDivergingIntrinsic::CopyNonOverlapping(c) => {
                        so.put("what", J::s("copy_nonoverlapping"));
                        so.put("src", operand_json(cx, body, &c.src, tenv));
                        so.put("dst", operand_json(cx, body, &c.dst, tenv));
                        so.put("count", operand_json(cx, body, &c.count, tenv));
                    }
                }
                span_json(cx, st.source_info.span, &mut so);
                stmts.push(so);
            }
            _ => {}
        }
    }
    let mut bo = J::obj().set("s", J::Arr(stmts));
    if data.is_cleanup {
        bo.put("cleanup", J::Bool(true));
    }
    let term = data.terminator();
    let mut to = J::obj();
    match &term.kind {
        TerminatorKind::Goto { target } => {
            to.put("k", J::s("goto"));
            to.put("t", J::Int(target.as_usize() as i128));
        }
        TerminatorKind::SwitchInt { discr, targets } => {
            to.put("k", J::s("switch"));
            to.put("op", operand_json(cx, body, discr, tenv));
            let mut vals = Vec::new();
            let mut tgts = Vec::new();
            for (v, t) in targets.iter() {
                vals.push(if v > i128::MAX as u128 { J::s(format!("{}", v)) } else { J::Int(v as i128) });
                tgts.push(J::Int(t.as_usize() as i128));
            }
            to.put("vals", J::Arr(vals));
            to.put("targets", J::Arr(tgts));
            to.put("otherwise", J::Int(targets.otherwise().as_usize() as i128));
            to.put("op_ty", J::s(ty_s(discr.ty(&body.local_decls, cx.tcx))));
        }
        TerminatorKind::UnwindResume => {
            to.put("k", J::s("resume"));
        }
        TerminatorKind::UnwindTerminate(_) => {
            to.put("k", J::s("terminate"));
        }
        TerminatorKind::Return => {
            to.put("k", J::s("return"));
        }
        TerminatorKind::Unreachable => {
            to.put("k", J::s("unreachable"));
        }
        TerminatorKind::Drop { place, target, unwind, .. } => {
            to.put("k", J::s("drop"));
            to.put("pl", place_json(cx, body, place));
            to.put("pl_ty", J::s(ty_s(place.ty(&body.local_decls, cx.tcx).ty)));
            to.put("t", J::Int(target.as_usize() as i128));
            if let mir::UnwindAction::Cleanup(c) = unwind {
                to.put("unwind", J::Int(c.as_usize() as i128));
            }
        }
        TerminatorKind::Call { func, args, destination, target, unwind, .. } => {
            to.put("k", J::s("call"));
            to.put("func", operand_json(cx, body, func, tenv));
            to.put("args", J::Arr(args.iter().map(|a| operand_json(cx, body, &a.node, tenv)).collect()));
            to.put("dest", place_json(cx, body, destination));
            match target {
                Some(t) => to.put("t", J::Int(t.as_usize() as i128)),
                None => to.put("t", J::Null),
            }
            if let mir::UnwindAction::Cleanup(c) = unwind {
                to.put("unwind", J::Int(c.as_usize() as i128));
            }
            let fty = func.ty(&body.local_decls, cx.tcx);
            if let ty::FnDef(cdid, cargs) = fty.kind() {
                to.put("callee", callee_json(cx, *cdid, cargs, tenv, id_args, owner));
            } else {
                to.put("callee", J::obj().set("indirect", J::s(ty_s(fty))));
            }
        }
        TerminatorKind::TailCall { func, args, .. } => {
            to.put("k", J::s("tailcall"));
            to.put("func", operand_json(cx, body, func, tenv));
            to.put("args", J::Arr(args.iter().map(|a| operand_json(cx, body, &a.node, tenv)).collect()));
        }
        TerminatorKind::Assert { cond, expected, msg, target, unwind } => {
            to.put("k", J::s("assert"));
            to.put("cond", operand_json(cx, body, cond, tenv));
            to.put("expected", J::Bool(*expected));
            let kind = format!("{:?}", msg);
            let kind = kind.split(|c| c == '(' || c == ' ' || c == '{').next().unwrap_or("").to_string();
            to.put("msg", J::s(kind));
            if let mir::AssertKind::Overflow(op, a, b) = &**msg {
                to.put("binop", J::s(format!("{:?}", op)));
                to.put("a", operand_json(cx, body, a, tenv));
                to.put("b", operand_json(cx, body, b, tenv));
            }
            if let mir::AssertKind::BoundsCheck { len, index } = &**msg {
                to.put("len", operand_json(cx, body, len, tenv));
                to.put("index", operand_json(cx, body, index, tenv));
            }
            to.put("t", J::Int(target.as_usize() as i128));
            if let mir::UnwindAction::Cleanup(c) = unwind {
                to.put("unwind", J::Int(c.as_usize() as i128));
            }
        }
        TerminatorKind::FalseEdge { real_target, .. } => {
            to.put("k", J::s("goto"));
            to.put("t", J::Int(real_target.as_usize() as i128));
        }
        TerminatorKind::FalseUnwind { real_target, .. } => {
            to.put("k", J::s("goto"));
            to.put("t", J::Int(real_target.as_usize() as i128));
        }
        other => {
            to.put("k", J::s("other"));
            to.put("dbg", J::s(format!("{:?}", other).chars().take(80).collect::<String>()));
        }
    }
    span_json(cx, term.source_info.span, &mut to);
    bo.put("t", to);
    bo
}

/// Describe a callee given as FnDef(def, args) in the polymorphic context of `owner`.
pub fn callee_json<'tcx>(
    cx: &Ctx<'tcx>,
    cdid: DefId,
    cargs: GenericArgsRef<'tcx>,
    tenv: TypingEnv<'tcx>,
    _id_args: GenericArgsRef<'tcx>,
    _owner: DefId,
) -> J {
    let tcx = cx.tcx;
    let mut c = J::obj().set("def", J::s(cx.path(cdid)));
    c.put("args", J::Arr(cargs.iter().map(|a| J::s(format!("{}", a))).collect()));
    c.put("path", J::s(tcx.def_path_str_with_args(cdid, cargs)));
    if let Some(id) = cx.fn_ids.get(&cdid) {
        c.put("def_fn", J::Int(*id as i128));
    }
    c.put("krate", J::s(tcx.crate_name(cdid.krate).to_string()));
    // trait method?
    if let Some(tr) = tcx.trait_of_assoc(cdid) {
        c.put("trait", J::s(cx.path(tr)));
        c.put("method", J::s(tcx.item_name(cdid).to_string()));
        if cargs.len() > 0 {
            if let Some(t) = cargs[0].as_type() {
                c.put("self_ty", J::s(ty_s(t)));
            }
        }
    } else if let Some(imp) = tcx.impl_of_assoc(cdid) {
        c.put("impl_self", J::s(ty_s(tcx.type_of(imp).instantiate_identity().skip_norm_wip())));
        c.put("method", J::s(tcx.item_name(cdid).to_string()));
    }
    if let Some(inst) = resolve(tcx, tenv, cdid, cargs) {
        let rd = inst.def_id();
        let kind = match inst.def {
            ty::InstanceKind::Item(_) => "item",
            ty::InstanceKind::Virtual(..) => "virtual",
            ty::InstanceKind::ClosureOnceShim { .. } => "closure_once",
            ty::InstanceKind::FnPtrShim(..) => "fnptr_shim",
            ty::InstanceKind::Intrinsic(_) => "intrinsic",
            ty::InstanceKind::DropGlue(..) => "drop_glue",
            ty::InstanceKind::CloneShim(..) => "clone_shim",
            ty::InstanceKind::ReifyShim(..) => "reify",
            _ => "other",
        };
        c.put("rkind", J::s(kind));
        c.put("rdef", J::s(cx.path(rd)));
        c.put("rpath", J::s(tcx.def_path_str_with_args(rd, inst.args)));
        c.put("rargs", J::Arr(inst.args.iter().map(|a| J::s(format!("{}", a))).collect()));
        if let Some(id) = cx.fn_ids.get(&rd) {
            c.put("rfn", J::Int(*id as i128));
        }
        if let Some(imp) = tcx.impl_of_assoc(rd) {
            c.put("rimpl_self", J::s(ty_s(tcx.type_of(imp).instantiate_identity().skip_norm_wip())));
        }
    } else {
        c.put("rkind", J::s("unresolved"));
    }
    c
}

pub fn resolve<'tcx>(
    tcx: TyCtxt<'tcx>,
    tenv: TypingEnv<'tcx>,
    did: DefId,
    args: GenericArgsRef<'tcx>,
) -> Option<Instance<'tcx>> {
    if !matches!(tcx.def_kind(did), DefKind::Fn | DefKind::AssocFn) {
        return None;
    }
    if tcx.generics_of(did).count() != args.len() {
        return None;
    }
    let args = match tcx.try_normalize_erasing_regions(tenv, rustc_middle::ty::Unnormalized::new_wip(args)) {
        Ok(a) => a,
        Err(_) => return None,
    };
    match Instance::try_resolve(tcx, tenv, did, args) {
        Ok(Some(i)) => Some(i),
        _ => None,
    }
}

pub fn place_json<'tcx>(cx: &Ctx<'tcx>, body: &Body<'tcx>, pl: &Place<'tcx>) -> J {
    let tcx = cx.tcx;
    let mut o = J::obj().set("l", J::Int(pl.local.as_usize() as i128));
    if !pl.projection.is_empty() {
        let mut pty = mir::PlaceTy::from_ty(body.local_decls[pl.local].ty);
        let mut ps = Vec::new();
        for elem in pl.projection.iter() {
            match elem {
                ProjectionElem::Deref => ps.push(J::s("*")),
                ProjectionElem::Field(f, _) => {
                    let mut fo = J::obj().set("f", J::Int(f.as_usize() as i128));
                    // field name when the base is an ADT
                    if let ty::Adt(adt, _) = pty.ty.kind() {
                        let v = match pty.variant_index {
                            Some(vi) => Some(adt.variant(vi)),
                            None if !adt.is_enum() => Some(adt.non_enum_variant()),
                            None => None,
                        };
                        if let Some(v) = v {
                            if let Some(fd) = v.fields.get(f) {
                                fo.put("n", J::s(fd.name.to_string()));
                            }
                        }
                        fo.put("of", J::s(cx.path(adt.did())));
                    }
                    ps.push(fo);
                }
                ProjectionElem::Index(l) => ps.push(J::obj().set("idx", J::Int(l.as_usize() as i128))),
                ProjectionElem::ConstantIndex { offset, from_end, .. } => {
                    ps.push(J::obj().set("cidx", J::Int(offset as i128)).set("from_end", J::Bool(from_end)))
                }
                ProjectionElem::Subslice { from, to, from_end } => ps.push(
                    J::obj()
                        .set("sub", J::Arr(vec![J::Int(from as i128), J::Int(to as i128)]))
                        .set("from_end", J::Bool(from_end)),
                ),
                ProjectionElem::Downcast(name, vi) => ps.push(
                    J::obj()
                        .set("down", J::Int(vi.as_usize() as i128))
                        .set("n", J::opt_s(name.map(|s| s.to_string()))),
                ),
                _ => ps.push(J::s("cast")),
            }
            pty = pty.projection_ty(tcx, elem);
        }
        o.put("p", J::Arr(ps));
    }
    o
}

pub fn operand_json<'tcx>(cx: &Ctx<'tcx>, body: &Body<'tcx>, op: &Operand<'tcx>, tenv: TypingEnv<'tcx>) -> J {
    match op {
        Operand::Copy(p) => J::obj().set("cp", place_json(cx, body, p)),
        Operand::Move(p) => J::obj().set("mv", place_json(cx, body, p)),
        Operand::Constant(c) => {
            let ty = c.const_.ty();
            let mut o = J::obj().set("ty", J::s(ty_s(ty)));
            match ty.kind() {
                ty::FnDef(did, args) => {
                    o.put("fn", J::s(cx.path(*did)));
                    o.put("fn_path", J::s(cx.tcx.def_path_str_with_args(*did, args)));
                }
                _ => {
                    if ty.is_integral() || ty.is_bool() || ty.is_char() {
                        if let Some(si) = c.const_.try_eval_scalar_int(cx.tcx, tenv) {
                            o.put("val", scalar_int_json(si, ty));
                        }
                    }
                    // unevaluated const: record its def path (e.g. <T as SizedParsable>::SIZE)
                    if let mir::Const::Unevaluated(u, _) = c.const_ {
                        o.put("cdef", J::s(cx.tcx.def_path_str_with_args(u.def, u.args)));
                    }
                    if let mir::Const::Ty(_, ct) = c.const_ {
                        o.put("cty", J::s(format!("{}", ct)));
                    }
                    // string literal
                    if let ty::Ref(_, inner, _) = ty.kind() {
                        if inner.is_str() {
                            if let mir::Const::Val(v, _) = c.const_ {
                                if let Some(bytes) = v.try_get_slice_bytes_for_diagnostics(cx.tcx) {
                                    o.put("str", J::s(String::from_utf8_lossy(bytes).to_string()));
                                }
                            }
                        }
                    }
                }
            }
            J::obj().set("c", o)
        }
        Operand::RuntimeChecks(r) => J::obj().set("c", J::obj().set("ty", J::s("bool")).set("runtime_check", J::s(format!("{:?}", r)))),
    }
}

fn rvalue_json<'tcx>(cx: &Ctx<'tcx>, body: &Body<'tcx>, rv: &Rvalue<'tcx>, tenv: TypingEnv<'tcx>) -> J {
    let tcx = cx.tcx;
    match rv {
        Rvalue::Use(op, ..) => J::obj().set("k", J::s("use")).set("op", operand_json(cx, body, op, tenv)),
        Rvalue::Repeat(op, n) => J::obj()
            .set("k", J::s("repeat"))
            .set("op", operand_json(cx, body, op, tenv))
            .set("n", J::s(format!("{}", n))),
        Rvalue::Ref(_, bk, p) => J::obj()
            .set("k", J::s("ref"))
            .set("bk", J::s(match bk {
                mir::BorrowKind::Shared => "shared",
                mir::BorrowKind::Mut { .. } => "mut",
                _ => "fake",
            }))
            .set("pl", place_json(cx, body, p)),
        Rvalue::RawPtr(k, p) => J::obj()
            .set("k", J::s("rawptr"))
            .set("bk", J::s(format!("{:?}", k)))
            .set("pl", place_json(cx, body, p)),
        Rvalue::Cast(ck, op, ty) => {
            let ckn = format!("{:?}", ck);
            let ckn = ckn.split('(').next().unwrap_or("").to_string();
            let mut o = J::obj()
                .set("k", J::s("cast"))
                .set("ck", J::s(ckn))
                .set("full_ck", J::s(format!("{:?}", ck)))
                .set("op", operand_json(cx, body, op, tenv))
                .set("from", J::s(ty_s(op.ty(&body.local_decls, tcx))))
                .set("ty", J::s(ty_s(*ty)));
            if let ty::Closure(did, _) = op.ty(&body.local_decls, tcx).kind() {
                if let Some(id) = cx.fn_ids.get(did) {
                    o.put("closure_fn", J::Int(*id as i128));
                }
            }
            o
        }
        Rvalue::BinaryOp(op, b) => {
            let (a, bb) = &**b;
            J::obj()
                .set("k", J::s("bin"))
                .set("op", J::s(format!("{:?}", op)))
                .set("a", operand_json(cx, body, a, tenv))
                .set("b", operand_json(cx, body, bb, tenv))
                .set("a_ty", J::s(ty_s(a.ty(&body.local_decls, tcx))))
        }
        Rvalue::UnaryOp(op, a) => J::obj()
            .set("k", J::s("un"))
            .set("op", J::s(format!("{:?}", op)))
            .set("a", operand_json(cx, body, a, tenv)),
        Rvalue::Discriminant(p) => J::obj()
            .set("k", J::s("discr"))
            .set("pl", place_json(cx, body, p))
            .set("of", J::s(ty_s(p.ty(&body.local_decls, tcx).ty))),
        Rvalue::Aggregate(ak, fields) => {
            let mut o = J::obj().set("k", J::s("agg"));
            match &**ak {
                AggregateKind::Array(t) => {
                    o.put("ak", J::s("array"));
                    o.put("elem", J::s(ty_s(*t)));
                }
                AggregateKind::Tuple => o.put("ak", J::s("tuple")),
                AggregateKind::Adt(did, vi, _args, _, active) => {
                    o.put("ak", J::s("adt"));
                    o.put("adt", J::s(cx.path(*did)));
                    let adt = tcx.adt_def(*did);
                    let v = adt.variant(*vi);
                    o.put("variant", J::s(v.name.to_string()));
                    o.put("variant_idx", J::Int(vi.as_usize() as i128));
                    if let Some(a) = active {
                        o.put("fnames", J::Arr(vec![J::s(v.fields[*a].name.to_string())]));
                    } else {
                        o.put("fnames", J::Arr(v.fields.iter().map(|f| J::s(f.name.to_string())).collect()));
                    }
                }
                AggregateKind::Closure(did, _) => {
                    o.put("ak", J::s("closure"));
                    o.put("closure", J::s(cx.path(*did)));
                    if let Some(id) = cx.fn_ids.get(did) {
                        o.put("closure_fn", J::Int(*id as i128));
                    }
                }
                AggregateKind::RawPtr(..) => o.put("ak", J::s("rawptr")),
                _ => o.put("ak", J::s("other")),
            }
            o.put("fields", J::Arr(fields.iter().map(|f| operand_json(cx, body, f, tenv)).collect()));
            o
        }
        Rvalue::CopyForDeref(p) => J::obj().set("k", J::s("use")).set("op", J::obj().set("cp", place_json(cx, body, p))),
        Rvalue::ThreadLocalRef(d) => J::obj().set("k", J::s("tls")).set("def", J::s(cx.path(*d))),
        other => J::obj().set("k", J::s("other")).set("dbg", J::s(format!("{:?}", other).chars().take(80).collect::<String>())),
    }
}
