#!/bin/bash
# truncation sweep + byte flips; prints non-zero exits (crash/abort/timeout)
BIN=$1; F=/tmp/c06/good.jbk; N=$(stat -c %s $F); OUT=$2
: > $OUT
for ((L=0; L<N; L+=37)); do
  head -c $L $F > /tmp/c06/t.$$.jbk
  timeout 10 $BIN /tmp/c06/t.$$.jbk > /tmp/c06/o.$$ 2>&1; rc=$?
  if [ $rc -ne 0 ]; then echo "trunc $L rc=$rc $(grep -m1 -E 'panicked|overflow|abort' /tmp/c06/o.$$ | cut -c1-160)" >> $OUT; fi
done
for ((P=0; P<N; P+=53)); do
  cp $F /tmp/c06/t.$$.jbk
  printf '\xff' | dd of=/tmp/c06/t.$$.jbk bs=1 seek=$P conv=notrunc 2>/dev/null
  timeout 10 $BIN /tmp/c06/t.$$.jbk > /tmp/c06/o.$$ 2>&1; rc=$?
  if [ $rc -ne 0 ]; then echo "flip $P rc=$rc $(grep -m1 -E 'panicked|overflow|abort' /tmp/c06/o.$$ | cut -c1-160)" >> $OUT; fi
done
rm -f /tmp/c06/t.$$.jbk /tmp/c06/o.$$
echo done >> $OUT
