//! Demonstration for property C14 (written bytes follow the documented layout).
//!
//! spec/directory.rst, "Content Address": the key info is `0b0001_DPCC`. `P + 1` is the size of
//! the pack id and, if `D` is 1, the key info is followed by `P + 1` bytes holding the default
//! pack id (the entries then do not store the pack id).
//!
//! So when every entry of a store points into the same content pack (=> default pack id) and
//! the id of that pack needs two bytes (id >= 256), the writer must emit `D = 1` AND `P = 1`
//! followed by the two bytes of the pack id.
//!
//! The test writes such a container and then
//!  * decodes the layout of the entry store by hand, straight from the bytes of the directory
//!    pack (no library code involved), and
//!  * reads the container back with the library reader.
//!
//! Both must give back the content addresses which were written.

use jubako::creator;
use jubako::creator::schema;
use jubako::reader::{EntryTrait, Range};
use std::collections::HashMap;
use std::fs::OpenOptions;
use std::io::Read;
use std::path::Path;

const VENDOR: [u8; 4] = [1, 0, 0, 0];

struct Article {
    path: &'static str,
    content: &'static str,
    word_count: u64,
}

const ARTICLES: [Article; 3] = [
    Article {
        path: "foo",
        content: "foo",
        word_count: 1,
    },
    Article {
        path: "bar",
        content: "foo bar",
        word_count: 256,
    },
    Article {
        path: "baz",
        content: "foo bar baz",
        word_count: 3,
    },
];

fn create_content_pack(pack_id: u16, outfile: &Path) -> creator::PackData {
    let mut creator = creator::ContentPackCreator::new(
        jubako::Utf8Path::new(outfile.to_str().unwrap()),
        jubako::PackId::from(pack_id),
        jubako::VendorId::from(VENDOR),
        Default::default(),
        creator::Compression::None,
    )
    .unwrap();
    for article in &ARTICLES {
        let content = Box::new(std::io::Cursor::new(article.content.to_string()));
        creator.add_content(content, Default::default()).unwrap();
    }
    let (_file, pack_data) = creator.finalize().unwrap();
    pack_data
}

fn create_directory_pack(content_pack_id: u16, outfile: &Path) -> creator::PackData {
    let mut creator = creator::DirectoryPackCreator::new(
        jubako::PackId::from(0),
        jubako::VendorId::from(VENDOR),
        Default::default(),
    );
    let value_store = creator::ValueStore::new_plain(None);
    creator.add_value_store(value_store.clone());
    let entry_def = schema::Schema::<&str, &str>::new(
        schema::CommonProperties::new(vec![
            schema::Property::new_array(0, value_store, "V0"),
            schema::Property::new_content_address("V1"),
            schema::Property::new_uint("V2"),
        ]),
        vec![],
        None,
    );

    let mut entry_store = Box::new(creator::EntryStore::new(entry_def, None));
    for (idx, article) in ARTICLES.iter().enumerate() {
        entry_store.add_entry(creator::BasicEntry::new_from_schema(
            &entry_store.schema,
            None,
            HashMap::from([
                ("V0", jubako::Value::Array(article.path.as_bytes().into())),
                (
                    "V1",
                    jubako::Value::Content(jubako::ContentAddress::new(
                        content_pack_id.into(),
                        (idx as u32).into(),
                    )),
                ),
                ("V2", jubako::Value::Unsigned(article.word_count)),
            ]),
        ));
    }

    let entry_store_idx = creator.add_entry_store(entry_store);
    creator.create_index(
        "Super index",
        Default::default(),
        0.into(),
        entry_store_idx,
        (ARTICLES.len() as u32).into(),
        jubako::EntryIdx::from(0).into(),
    );

    let mut directory_file = OpenOptions::new()
        .read(true)
        .write(true)
        .create(true)
        .truncate(true)
        .open(outfile)
        .unwrap();
    creator
        .finalize()
        .unwrap()
        .write(&mut directory_file)
        .unwrap()
}

fn create_manifest_pack(
    directory_pack: creator::PackData,
    content_pack: creator::PackData,
    outfile: &Path,
) {
    let mut creator =
        creator::ManifestPackCreator::new(jubako::VendorId::from(VENDOR), Default::default());
    creator.add_pack(directory_pack, "directoryPack.jbkd");
    creator.add_pack(content_pack, "contentPack.jbkc");
    let mut manifest_file = OpenOptions::new()
        .read(true)
        .write(true)
        .create(true)
        .truncate(true)
        .open(outfile)
        .unwrap();
    creator.finalize(&mut manifest_file).unwrap();
}

// ---------------------------------------------------------------------------------------------
// A tiny decoder written from the spec only (spec/pack.rst, spec/directory.rst).
// ---------------------------------------------------------------------------------------------

fn le(bytes: &[u8]) -> u64 {
    bytes
        .iter()
        .rev()
        .fold(0_u64, |acc, b| (acc << 8) | *b as u64)
}

#[derive(Debug, PartialEq, Eq)]
struct ContentAddressLayout {
    name: String,
    pack_id_size: usize,
    content_id_size: usize,
    default_pack_id: Option<u64>,
}

/// Decode the layout of the first entry store of a directory pack and return
/// (entry size, content address properties, names of all the named properties).
fn decode_entry_store_layout(pack: &[u8]) -> (usize, Vec<ContentAddressLayout>, Vec<String>) {
    assert_eq!(&pack[0..4], b"jbkd");
    // Directory pack header is at offset 64:
    // index_ptr_pos(8), entry_store_ptr_pos(8), value_store_ptr_pos(8),
    // index_count(4), entry_store_count(4), value_store_count(1), free_data
    let entry_store_ptr_pos = le(&pack[64 + 8..64 + 16]) as usize;
    let entry_store_count = le(&pack[64 + 24..64 + 28]);
    assert_eq!(entry_store_count, 1);
    // A sized offset is `offset << 16 | size`
    let sized_offset = le(&pack[entry_store_ptr_pos..entry_store_ptr_pos + 8]);
    let tail_size = (sized_offset & 0xFFFF) as usize;
    let tail_offset = (sized_offset >> 16) as usize;
    let tail = &pack[tail_offset..tail_offset + tail_size];

    // Entry store tail : kind(1) entry_count(4) flag(1) entry_size(2) variant_count(1) key_count(1)
    assert_eq!(tail[0], 0x00, "plain entry store");
    assert_eq!(le(&tail[1..5]) as usize, ARTICLES.len());
    let entry_size = le(&tail[6..8]) as usize;
    assert_eq!(tail[8], 0, "no variant");
    let key_count = tail[9] as usize;

    let mut pos = 10;
    let mut content_addresses = vec![];
    let mut names = vec![];
    let mut read_name = |pos: &mut usize| -> String {
        let len = tail[*pos] as usize;
        let name = String::from_utf8_lossy(&tail[*pos + 1..*pos + 1 + len]).into_owned();
        *pos += 1 + len;
        names.push(name.clone());
        name
    };
    for _ in 0..key_count {
        let key_info = tail[pos];
        pos += 1;
        let key_data = key_info & 0x0F;
        match key_info & 0xF0 {
            0b0000_0000 => { /* padding */ }
            0b0001_0000 => {
                // Content address 0b0001_DPCC
                let pack_id_size = ((key_data & 0b0100) >> 2) as usize + 1;
                let content_id_size = (key_data & 0b0011) as usize + 1;
                let default_pack_id = if key_data & 0b1000 != 0 {
                    let d = le(&tail[pos..pos + pack_id_size]);
                    pos += pack_id_size;
                    Some(d)
                } else {
                    None
                };
                let name = read_name(&mut pos);
                content_addresses.push(ContentAddressLayout {
                    name,
                    pack_id_size,
                    content_id_size,
                    default_pack_id,
                });
            }
            0b0010_0000 | 0b0011_0000 => {
                // (un)signed integer 0bDSSS
                let int_size = (key_data & 0b0111) as usize + 1;
                if key_data & 0b1000 != 0 {
                    pos += int_size;
                }
                read_name(&mut pos);
            }
            0b0101_0000 => {
                // array 0bDXSS + complement
                assert_eq!(key_data & 0b1000, 0, "no default array written here");
                let complement = tail[pos];
                pos += 1;
                if complement >> 5 != 0 {
                    pos += 1; // value store idx
                }
                read_name(&mut pos);
            }
            other => panic!(
                "Unexpected property type {other:#010b} at offset {} of the layout {tail:02X?}",
                pos - 1
            ),
        }
    }
    assert_eq!(
        pos,
        tail.len(),
        "The layout must be fully consumed by the {key_count} properties ({tail:02X?})"
    );
    (entry_size, content_addresses, names)
}

fn run(content_pack_id: u16) {
    let tmp_dir = tempfile::tempdir().unwrap();
    let content_pack_path = tmp_dir.path().join("contentPack.jbkc");
    let directory_pack_path = tmp_dir.path().join("directoryPack.jbkd");
    let manifest_path = tmp_dir.path().join("manifest.jbkm");

    let content_data = create_content_pack(content_pack_id, &content_pack_path);
    let directory_data = create_directory_pack(content_pack_id, &directory_pack_path);
    create_manifest_pack(directory_data, content_data, &manifest_path);

    // 1. Independent decoding of the layout.
    let directory_bytes = std::fs::read(&directory_pack_path).unwrap();
    let (entry_size, content_addresses, names) = decode_entry_store_layout(&directory_bytes);
    assert_eq!(names, ["V0", "V1", "V2"]);
    let pack_id_size = if content_pack_id < 256 { 1 } else { 2 };
    assert_eq!(
        content_addresses,
        [ContentAddressLayout {
            name: "V1".to_string(),
            pack_id_size,
            content_id_size: 1,
            default_pack_id: Some(content_pack_id as u64)
        }]
    );
    // array: 1 (len) + 1 (value id) ; content address: 1 (content id, pack id is default) ; uint: 2
    assert_eq!(entry_size, 2 + 1 + 2);

    // 2. What the library reader gives back.
    let container = jubako::reader::Container::new(&manifest_path).unwrap();
    assert_eq!(container.pack_count(), 2.into());
    assert!(container.check().unwrap());
    let directory_pack = container.get_directory_pack();
    let index = directory_pack.get_index(0.into()).unwrap();
    let entry_storage = directory_pack.create_entry_storage();
    let value_storage = directory_pack.create_value_storage();
    let builder = jubako::reader::builder::AnyBuilder::new(
        index.get_store(&entry_storage).unwrap(),
        value_storage.as_ref(),
    )
    .unwrap();
    assert_eq!(index.count(), (ARTICLES.len() as u32).into());
    for i in index.count() {
        let article = &ARTICLES[i.into_usize()];
        let entry = index
            .get_entry(&builder, i)
            .unwrap()
            .expect("Entry i is in the index");
        let value_0 = entry.get_value("V0").unwrap().unwrap();
        assert_eq!(value_0.as_vec().unwrap(), article.path.as_bytes());
        let value_1 = entry.get_value("V1").unwrap().unwrap();
        let address = value_1.as_content();
        assert_eq!(
            address,
            jubako::ContentAddress::new(content_pack_id.into(), i.into_u32().into())
        );
        let bytes = container.get_bytes(address).unwrap();
        let mut stream = bytes
            .and_then(|m| m.transpose())
            .expect("address should be valid")
            .unwrap()
            .stream();
        let mut read_content = String::new();
        stream.read_to_string(&mut read_content).unwrap();
        assert_eq!(read_content, article.content);
        let value_2 = entry.get_value("V2").unwrap().unwrap();
        assert_eq!(value_2.as_unsigned(), article.word_count);
    }
}

/// Control: the id of the content pack fits in one byte.
#[test]
fn default_pack_id_on_one_byte() {
    run(1);
    run(255);
}

/// All the entries point into the same content pack, whose id needs two bytes.
#[test]
fn default_pack_id_on_two_bytes() {
    run(256);
    run(300);
    run(0x1234);
}

#[test]
fn pack_id_65535_reads_back() {
    run(0xFFFF);
}

#[test]
fn pack_id_65534_reads_back() {
    run(0xFFFE);
}
