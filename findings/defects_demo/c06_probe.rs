// opens a (possibly damaged) container and reads everything; exit 0 = value or error, anything else = crash
use jubako as jbk;
use jbk::reader::builder::AnyBuilder;
use jbk::reader::{EntryTrait, Range};
use std::io::Read;
fn run(p: &str) -> jbk::Result<()> {
    let c = jbk::reader::Container::new(p)?;
    let _ = c.check();
    let index = match c.get_index_for_name("idx")? { Some(i) => i, None => return Ok(()) };
    let builder = AnyBuilder::new(index.get_store(c.get_entry_storage())?, c.get_value_storage().as_ref())?;
    for i in 0..index.count().into_u32() {
        let e = match index.get_entry(&builder, i.into())? { Some(e) => e, None => continue };
        let _ = e.get_value("S").map(|v| v.map(|v| v.as_vec()));
        let _ = e.get_value("I");
        if let Ok(Some(v)) = e.get_value("C") {
            if let jbk::reader::RawValue::Content(a) = v {
                if let Ok(Some(jbk::reader::MayMissPack::FOUND(Some(region)))) = c.get_bytes(a) {
                    let mut buf = vec![];
                    let _ = region.stream().read_to_end(&mut buf);
                }
            }
        }
    }
    Ok(())
}
fn main() {
    let p = std::env::args().nth(1).unwrap();
    match run(&p) { Ok(()) => println!("ok"), Err(e) => println!("error: {}", e.to_string().lines().next().unwrap_or("")) }
}
