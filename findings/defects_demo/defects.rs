use jubako as jbk;
use jbk::creator::{schema, EntryStoreTrait};
use jbk::reader::builder::AnyBuilder;
use jbk::reader::{EntryTrait, Range};
use std::collections::HashMap;
use std::io::Read;
use std::sync::Arc;

const VENDOR_ID: jbk::VendorId = jbk::VendorId::new([1, 2, 3, 4]);
type EntryType = jbk::creator::BasicEntry<&'static str, &'static str>;
type EntryStore = jbk::creator::EntryStore<&'static str, &'static str, EntryType>;

struct Store {
    value_store: jbk::creator::StoreHandle,
    entry_store: Box<EntryStore>,
    n: u32,
}
impl Store {
    fn new(indexed: bool) -> Self {
        let value_store = if indexed { jbk::creator::ValueStore::new_indexed() } else { jbk::creator::ValueStore::new_plain(None) };
        let schema = schema::Schema::new(
            schema::CommonProperties::new(vec![
                schema::Property::new_array(0, value_store.clone(), "S"),
                schema::Property::new_sint("I"),
                schema::Property::new_content_address("C"),
            ]),
            vec![],
            None,
        );
        Self { value_store, entry_store: Box::new(jbk::creator::EntryStore::new(schema, None)), n: 0 }
    }
    fn add(&mut self, s: &[u8], i: i64, c: jbk::ContentAddress) {
        let e = EntryType::new_from_schema(&self.entry_store.schema, None, HashMap::from([
            ("S", jbk::Value::Array(s.to_vec().into())),
            ("I", jbk::Value::Signed(i)),
            ("C", jbk::Value::Content(c)),
        ]));
        self.entry_store.add_entry(e);
        self.n += 1;
    }
}
impl EntryStoreTrait for Store {
    fn finalize(self: Box<Self>, dp: &mut jbk::creator::DirectoryPackCreator) {
        dp.add_value_store(self.value_store);
        let id = dp.add_entry_store(self.entry_store);
        dp.create_index("idx", Default::default(), 0.into(), id, self.n.into(), jbk::EntryIdx::from(0).into());
    }
}

fn create(path: &camino::Utf8Path, mode: jbk::creator::ConcatMode, ints: &[i64], nvalues: usize, indexed: bool) -> Vec<jbk::ContentAddress> {
    let mut creator = jbk::creator::BasicCreator::new(path, mode, VENDOR_ID, jbk::creator::Compression::None, Arc::new(())).unwrap();
    let mut store = Box::new(Store::new(indexed));
    let mut addrs = vec![];
    for (k, i) in ints.iter().enumerate() {
        let content: Vec<u8> = std::iter::repeat(b'A' + k as u8).take(40 + k).collect();
        let a = creator.add_content(Box::new(std::io::Cursor::new(content)), Default::default()).unwrap();
        addrs.push(a);
        store.add(format!("v{:06}", k).as_bytes(), *i, a);
    }
    for k in ints.len()..nvalues {
        store.add(format!("v{:06}", k).as_bytes(), 0, addrs[0]);
    }
    creator.finalize(store, vec![]).unwrap();
    addrs
}

fn read_content(c: &jbk::reader::Container, a: jbk::ContentAddress) -> Vec<u8> {
    let region = c.get_bytes(a).unwrap().and_then(|m| m.transpose()).expect("valid").unwrap();
    let mut v = vec![];
    region.stream().read_to_end(&mut v).unwrap();
    v
}

fn tmp(name: &str) -> (tempfile::TempDir, camino::Utf8PathBuf) {
    let d = tempfile::tempdir().unwrap();
    let p = camino::Utf8PathBuf::from_path_buf(d.path().join(name)).unwrap();
    (d, p)
}

#[test]
fn d3_set_location() {
    let (_d, p) = tmp("a.jbk");
    create(&p, jbk::creator::ConcatMode::OneFile, &[1, 2], 2, false);
    let cp = jbk::tools::open_pack(&p).unwrap();
    let uuids: Vec<uuid::Uuid> = cp.iter().map(|(u, _)| *u).collect();
    let mut changed = 0;
    for u in uuids {
        match jbk::tools::set_location(&p, u, "new/loc.jbkc".into()) {
            Ok(Some(_)) => changed += 1,
            Ok(None) => {}
            Err(e) => panic!("set_location failed: {e}"),
        }
    }
    assert!(changed >= 1);
    let c = jbk::reader::Container::new(&p).unwrap();
    assert!(c.check().unwrap());
}

#[test]
fn d4_two_files() {
    for mode in [jbk::creator::ConcatMode::TwoFiles, jbk::creator::ConcatMode::NoConcat] {
        let (_d, p) = tmp("a.jbk");
        let addrs = create(&p, mode, &[1, 2], 2, false);
        let c = jbk::reader::Container::new(&p).unwrap();
        assert_eq!(read_content(&c, addrs[1]), vec![b'B'; 41]);
    }
}

#[test]
fn d5_prefix() {
    let (_d, p) = tmp("a.jbk");
    let addrs = create(&p, jbk::creator::ConcatMode::OneFile, &[1, 2], 2, false);
    let mut data = vec![0x55u8; 100];
    data.extend(std::fs::read(&p).unwrap());
    let q = p.with_file_name("b.bin");
    std::fs::write(&q, data).unwrap();
    let c = jbk::reader::Container::new(&q).unwrap();
    assert_eq!(read_content(&c, addrs[1]), vec![b'B'; 41]);
}

#[test]
fn d6_container_size() {
    let (_d, p) = tmp("a.jbk");
    create(&p, jbk::creator::ConcatMode::OneFile, &[1, 2], 2, false);
    let data = std::fs::read(&p).unwrap();
    let declared = u64::from_le_bytes(data[32..40].try_into().unwrap());
    assert_eq!(declared, data.len() as u64);
}

#[test]
fn d7_stream_from_region() {
    let (_d, p) = tmp("a.jbk");
    let addrs = create(&p, jbk::creator::ConcatMode::OneFile, &[1, 2], 2, false);
    let c = jbk::reader::Container::new(&p).unwrap();
    let region = c.get_bytes(addrs[1]).unwrap().and_then(|m| m.transpose()).expect("valid").unwrap();
    let mut s: jbk::reader::ByteStream = region.into();
    let mut v = vec![];
    s.read_to_end(&mut v).unwrap();
    assert_eq!(v, vec![b'B'; 41]);
}

fn read_ints(p: &camino::Utf8Path, n: u32) -> jbk::Result<Vec<i64>> {
    let c = jbk::reader::Container::new(p)?;
    let index = c.get_index_for_name("idx")?.expect("idx");
    let builder = AnyBuilder::new(index.get_store(c.get_entry_storage())?, c.get_value_storage().as_ref())?;
    let mut out = vec![];
    for i in 0..n {
        let e = index.get_entry(&builder, i.into())?.expect("entry");
        out.push(e.get_value("I")?.unwrap().as_signed());
    }
    Ok(out)
}

#[test]
fn d1_signed() {
    let (_d, p) = tmp("a.jbk");
    let ints = [200i64, -200, -600, 127, -128, 128, -129, 32767, -32768, 32768, -32769, 0, -1];
    create(&p, jbk::creator::ConcatMode::OneFile, &ints, ints.len(), false);
    assert_eq!(read_ints(&p, ints.len() as u32).unwrap(), ints.to_vec());
}

#[test]
fn d2_big_tail() {
    let (_d, p) = tmp("a.jbk");
    let ints = [1i64, 2];
    // creation must either fail or produce something that reads back
    let r = std::panic::catch_unwind(|| {
        create(&p, jbk::creator::ConcatMode::OneFile, &ints, 23000, true);
    });
    if r.is_ok() {
        let got = read_ints(&p, 2).expect("a container that was created without error must open");
        assert_eq!(got, ints.to_vec());
    }
}

#[test]
fn d9_incompressible_hint_yes() {
    // data_size = 250 (1 byte offsets) but the zstd output of random bytes is > 255 bytes
    let (_d, p) = tmp("a.jbk");
    let mut creator = jbk::creator::BasicCreator::new(&p, jbk::creator::ConcatMode::OneFile, VENDOR_ID, jbk::creator::Compression::zstd(), Arc::new(())).unwrap();
    let mut store = Box::new(Store::new(false));
    let mut x: u32 = 12345;
    let content: Vec<u8> = (0..250).map(|_| { x = x.wrapping_mul(1664525).wrapping_add(1013904223); (x >> 24) as u8 }).collect();
    let a = creator.add_content(Box::new(std::io::Cursor::new(content.clone())), jbk::creator::CompHint::Yes).unwrap();
    store.add(b"x", 1, a);
    creator.finalize(store, vec![]).unwrap();
    let c = jbk::reader::Container::new(&p).unwrap();
    let region = c.get_bytes(a).unwrap().and_then(|m| m.transpose()).expect("valid").unwrap();
    assert_eq!(region.size().into_u64(), 250);
    let (tx, rx) = std::sync::mpsc::channel();
    std::thread::spawn(move || {
        let mut v = vec![];
        let r = region.stream().read_to_end(&mut v);
        let _ = tx.send((r.is_ok(), v));
    });
    let (ok, v) = rx.recv_timeout(std::time::Duration::from_secs(10)).expect("read must terminate");
    assert!(ok);
    assert_eq!(v, content);
}
