// creates a small zstd container with a few contents and entries: c06_make <out>
use jubako as jbk;
use jbk::creator::{schema, EntryStoreTrait};
use std::collections::HashMap;
use std::sync::Arc;
type EntryType = jbk::creator::BasicEntry<&'static str, &'static str>;
type EntryStore = jbk::creator::EntryStore<&'static str, &'static str, EntryType>;
struct Store { vs: jbk::creator::StoreHandle, es: Box<EntryStore>, n: u32 }
impl EntryStoreTrait for Store {
    fn finalize(self: Box<Self>, dp: &mut jbk::creator::DirectoryPackCreator) {
        dp.add_value_store(self.vs);
        let id = dp.add_entry_store(self.es);
        dp.create_index("idx", Default::default(), 0.into(), id, self.n.into(), jbk::EntryIdx::from(0).into());
    }
}
fn main() {
    let out = std::env::args().nth(1).unwrap();
    let mut creator = jbk::creator::BasicCreator::new(&out, jbk::creator::ConcatMode::OneFile, jbk::VendorId::new([1,2,3,4]), jbk::creator::Compression::zstd(), Arc::new(())).unwrap();
    let vs = jbk::creator::ValueStore::new_plain(None);
    let schema = schema::Schema::new(schema::CommonProperties::new(vec![
        schema::Property::new_array(1, vs.clone(), "S"), schema::Property::new_uint("I"), schema::Property::new_content_address("C")]), vec![], None);
    let mut st = Box::new(Store { vs, es: Box::new(jbk::creator::EntryStore::new(schema, None)), n: 0 });
    for k in 0..6u32 {
        let content: Vec<u8> = (0..3000u32).map(|i| b"lorem ipsum dolor sit amet "[((i + k) % 27) as usize]).collect();
        let hint = if k % 2 == 0 { jbk::creator::CompHint::Yes } else { jbk::creator::CompHint::No };
        let a = creator.add_content(Box::new(std::io::Cursor::new(content)), hint).unwrap();
        let e = EntryType::new_from_schema(&st.es.schema, None, HashMap::from([
            ("S", jbk::Value::Array(format!("name{k}").into_bytes().into())), ("I", jbk::Value::Unsigned(k as u64 * 1000)), ("C", jbk::Value::Content(a))]));
        st.es.add_entry(e);
        st.n += 1;
    }
    creator.finalize(st, vec![]).unwrap();
}
