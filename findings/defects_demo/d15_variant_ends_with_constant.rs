//! D15 demo: a variant of an entry store whose LAST property is a "constant column"
//! (an integer property whose every entry carries the same value: the creator stores the
//! value as a default in the layout and gives the property size 0 in the entries).
//!
//! Every test writes a directory pack with the creator, opens it with the reader and checks
//! that every entry reads back with the values written.

use jubako::creator;
use jubako::creator::schema;
use jubako::reader::{EntryTrait, Range};
use std::collections::HashMap;
use std::io::Seek;
use std::sync::Arc;

#[derive(Clone, Copy, Debug, PartialEq)]
enum V {
    U(u64),
    S(i64),
}

/// (property name, is signed)
type PropDecl = (&'static str, bool);

struct Spec {
    common: Vec<PropDecl>,
    variants: Vec<(&'static str, Vec<PropDecl>)>,
    /// (variant name, values of common + variant properties)
    entries: Vec<(Option<&'static str>, Vec<(&'static str, V)>)>,
}

fn mk_props(decls: &[PropDecl]) -> Vec<schema::Property<&'static str>> {
    decls
        .iter()
        .map(|(name, signed)| {
            if *signed {
                schema::Property::new_sint(*name)
            } else {
                schema::Property::new_uint(*name)
            }
        })
        .collect()
}

/// Write the directory pack described by `spec`, open it with the reader, read every entry back.
/// Returns Err("<stage>: <error>") for the first stage that fails.
fn roundtrip(spec: &Spec) -> Result<(), String> {
    // ---------- write
    let mut pack_creator = creator::DirectoryPackCreator::new(
        jubako::PackId::from(1),
        jubako::VendorId::from([1, 0, 0, 0]),
        Default::default(),
    );
    let entry_def = schema::Schema::<&'static str, &'static str>::new(
        schema::CommonProperties::new(mk_props(&spec.common)),
        spec.variants
            .iter()
            .map(|(n, p)| (*n, schema::VariantProperties::new(mk_props(p))))
            .collect(),
        None,
    );
    let mut entry_store = Box::new(creator::EntryStore::new(entry_def, None));
    for (variant, values) in &spec.entries {
        let values: HashMap<&'static str, jubako::Value> = values
            .iter()
            .map(|(n, v)| {
                (
                    *n,
                    match v {
                        V::U(u) => jubako::Value::Unsigned(*u),
                        V::S(s) => jubako::Value::Signed(*s),
                    },
                )
            })
            .collect();
        entry_store.add_entry(creator::BasicEntry::new_from_schema(
            &entry_store.schema,
            *variant,
            values,
        ));
    }
    let entry_store_idx = pack_creator.add_entry_store(entry_store);
    pack_creator.create_index(
        "demo index",
        Default::default(),
        0.into(),
        entry_store_idx,
        (spec.entries.len() as u32).into(),
        jubako::EntryIdx::from(0).into(),
    );

    let mut file = tempfile::tempfile().map_err(|e| format!("tempfile: {e}"))?;
    pack_creator
        .finalize()
        .map_err(|e| format!("creator finalize: {e}"))?
        .write(&mut file)
        .map_err(|e| format!("creator write: {e}"))?;
    file.rewind().map_err(|e| format!("rewind: {e}"))?;

    // ---------- read
    let reader: jubako::Reader = jubako::FileSource::new(file)
        .map_err(|e| format!("FileSource::new: {e}"))?
        .into();
    let directory_pack = Arc::new(
        jubako::reader::DirectoryPack::new(reader)
            .map_err(|e| format!("DirectoryPack::new: {e}"))?,
    );
    let index = directory_pack
        .get_index(0.into())
        .map_err(|e| format!("get_index: {e}"))?;
    let entry_storage = directory_pack.create_entry_storage();
    let value_storage = directory_pack.create_value_storage();
    let store = index
        .get_store(&entry_storage)
        .map_err(|e| format!("Index::get_store (parse of the entry store / layout): {e}"))?;
    let builder = jubako::reader::builder::AnyBuilder::new(store, value_storage.as_ref())
        .map_err(|e| format!("AnyBuilder::new: {e}"))?;

    if index.count() != (spec.entries.len() as u32).into() {
        return Err(format!("index count is {:?}", index.count()));
    }
    for i in index.count() {
        let (variant, values) = &spec.entries[i.into_u32() as usize];
        let entry = index
            .get_entry(&builder, i)
            .map_err(|e| format!("get_entry {i:?}: {e}"))?
            .ok_or_else(|| format!("entry {i:?} not in the index"))?;
        let expected_variant = variant.map(|v| {
            spec.variants
                .iter()
                .position(|(n, _)| *n == v)
                .expect("variant declared") as u8
        });
        let got_variant = entry
            .get_variant_id()
            .map_err(|e| format!("get_variant_id {i:?}: {e}"))?
            .map(|v| v.into_u8());
        if got_variant != expected_variant {
            return Err(format!(
                "entry {i:?}: variant is {got_variant:?}, expected {expected_variant:?}"
            ));
        }
        for (name, expected) in values {
            let raw = entry
                .get_value(name)
                .map_err(|e| format!("entry {i:?} get_value({name}): {e}"))?
                .ok_or_else(|| format!("entry {i:?} has no property {name}"))?;
            let got = match raw.get().map_err(|e| format!("RawValue::get: {e}"))? {
                jubako::Value::Unsigned(u) => V::U(u),
                jubako::Value::Signed(s) => V::S(s),
                other => return Err(format!("entry {i:?} {name}: unexpected value {other:?}")),
            };
            if got != *expected {
                return Err(format!(
                    "entry {i:?} property {name}: read {got:?}, written {expected:?}"
                ));
            }
        }
    }
    Ok(())
}

fn expect_ok(spec: &Spec) {
    if let Err(msg) = roundtrip(spec) {
        panic!("round trip failed at {msg}");
    }
}

// ------------------------------------------------------------------------------------------
// Control: two variants, no constant column anywhere.
//   Big  : b0 (2 bytes) b1 (1 byte)  -> 3 bytes, the largest, no padding
//   Small: s0 (1 byte) + padding 2
#[test]
fn control_two_variants_no_constant() {
    expect_ok(&Spec {
        common: vec![("id", false)],
        variants: vec![
            ("Big", vec![("b0", false), ("b1", false)]),
            ("Small", vec![("s0", false)]),
        ],
        entries: vec![
            (Some("Big"), vec![("id", V::U(1)), ("b0", V::U(0x1234)), ("b1", V::U(7))]),
            (Some("Small"), vec![("id", V::U(2)), ("s0", V::U(9))]),
            (Some("Big"), vec![("id", V::U(3)), ("b0", V::U(0x4321)), ("b1", V::U(8))]),
            (Some("Small"), vec![("id", V::U(4)), ("s0", V::U(10))]),
        ],
    });
}

// Trigger: the same, but every `Big` entry carries the same value for its last property `b1`:
// the creator stores it as a default (size 0). `Big` is still the largest variant (2 bytes for
// b0 against 1 for s0), so it gets no padding and its definition ENDS with a size 0 property.
#[test]
fn trigger_largest_variant_ends_with_constant_uint() {
    expect_ok(&Spec {
        common: vec![("id", false)],
        variants: vec![
            ("Big", vec![("b0", false), ("b1", false)]),
            ("Small", vec![("s0", false)]),
        ],
        entries: vec![
            (Some("Big"), vec![("id", V::U(1)), ("b0", V::U(0x1234)), ("b1", V::U(7))]),
            (Some("Small"), vec![("id", V::U(2)), ("s0", V::U(9))]),
            (Some("Big"), vec![("id", V::U(3)), ("b0", V::U(0x4321)), ("b1", V::U(7))]),
            (Some("Small"), vec![("id", V::U(4)), ("s0", V::U(10))]),
        ],
    });
}

// ------------------------------------------------------------------------------------------
// Variations

// Second control: the constant column is in the largest variant but NOT last (b0 constant, b1 not).
#[test]
fn control_constant_not_last_in_largest_variant() {
    expect_ok(&Spec {
        common: vec![("id", false)],
        variants: vec![
            ("Big", vec![("b0", false), ("b1", false)]),
            ("Small", vec![("s0", false)]),
        ],
        entries: vec![
            (Some("Big"), vec![("id", V::U(1)), ("b0", V::U(7)), ("b1", V::U(0x1234))]),
            (Some("Small"), vec![("id", V::U(2)), ("s0", V::U(9))]),
            (Some("Big"), vec![("id", V::U(3)), ("b0", V::U(7)), ("b1", V::U(0x4321))]),
            (Some("Small"), vec![("id", V::U(4)), ("s0", V::U(10))]),
        ],
    });
}

// Third control: the constant column is last in a SMALLER variant (padding follows it).
#[test]
fn control_constant_last_in_smaller_variant() {
    expect_ok(&Spec {
        common: vec![("id", false)],
        variants: vec![
            ("Big", vec![("b0", false), ("b1", false)]),
            ("Small", vec![("s0", false), ("s1", false)]),
        ],
        entries: vec![
            (Some("Big"), vec![("id", V::U(1)), ("b0", V::U(0x1234)), ("b1", V::U(7))]),
            (Some("Small"), vec![("id", V::U(2)), ("s0", V::U(9)), ("s1", V::U(5))]),
            (Some("Big"), vec![("id", V::U(3)), ("b0", V::U(0x4321)), ("b1", V::U(8))]),
            (Some("Small"), vec![("id", V::U(4)), ("s0", V::U(10)), ("s1", V::U(5))]),
        ],
    });
}

// Fourth control: no variant at all, the common part ends with a constant column.
#[test]
fn control_no_variant_constant_last_in_common() {
    expect_ok(&Spec {
        common: vec![("id", false), ("k", false)],
        variants: vec![],
        entries: vec![
            (None, vec![("id", V::U(1)), ("k", V::U(7))]),
            (None, vec![("id", V::U(2)), ("k", V::U(7))]),
        ],
    });
}

// Constant column last in the ONLY variant.
#[test]
fn variation_only_variant_ends_with_constant() {
    expect_ok(&Spec {
        common: vec![("id", false)],
        variants: vec![("Only", vec![("b0", false), ("b1", false)])],
        entries: vec![
            (Some("Only"), vec![("id", V::U(1)), ("b0", V::U(0x1234)), ("b1", V::U(7))]),
            (Some("Only"), vec![("id", V::U(2)), ("b0", V::U(0x4321)), ("b1", V::U(7))]),
        ],
    });
}

// Constant column last in the largest of THREE variants; the largest is declared first.
#[test]
fn variation_three_variants_largest_first() {
    expect_ok(&three_variants(["Big", "Mid", "Small"]));
}

// ... declared in the middle.
#[test]
fn variation_three_variants_largest_middle() {
    expect_ok(&three_variants(["Mid", "Big", "Small"]));
}

// ... declared last (the size 0 property is then the very last property of the layout).
#[test]
fn variation_three_variants_largest_last() {
    expect_ok(&three_variants(["Mid", "Small", "Big"]));
}

fn three_variants(order: [&'static str; 3]) -> Spec {
    let decl = |name: &'static str| -> (&'static str, Vec<PropDecl>) {
        match name {
            // 4 + 0 bytes
            "Big" => ("Big", vec![("b0", false), ("b1", false)]),
            // 2 bytes (+ 2 padding)
            "Mid" => ("Mid", vec![("m0", false)]),
            // 1 byte (+ 3 padding)
            "Small" => ("Small", vec![("s0", false)]),
            _ => unreachable!(),
        }
    };
    Spec {
        common: vec![("id", false)],
        variants: order.iter().map(|n| decl(n)).collect(),
        entries: vec![
            (Some("Big"), vec![("id", V::U(1)), ("b0", V::U(0x12345678)), ("b1", V::U(7))]),
            (Some("Mid"), vec![("id", V::U(2)), ("m0", V::U(0x1234))]),
            (Some("Small"), vec![("id", V::U(3)), ("s0", V::U(9))]),
            (Some("Big"), vec![("id", V::U(4)), ("b0", V::U(0x11223344)), ("b1", V::U(7))]),
            (Some("Mid"), vec![("id", V::U(5)), ("m0", V::U(0x4321))]),
            (Some("Small"), vec![("id", V::U(6)), ("s0", V::U(10))]),
        ],
    }
}

// Signed constant column last in the largest variant.
#[test]
fn variation_signed_constant_last() {
    expect_ok(&Spec {
        common: vec![("id", false)],
        variants: vec![
            ("Big", vec![("b0", true), ("b1", true)]),
            ("Small", vec![("s0", true)]),
        ],
        entries: vec![
            (Some("Big"), vec![("id", V::U(1)), ("b0", V::S(-1000)), ("b1", V::S(-7))]),
            (Some("Small"), vec![("id", V::U(2)), ("s0", V::S(-9))]),
            (Some("Big"), vec![("id", V::U(3)), ("b0", V::S(1000)), ("b1", V::S(-7))]),
            (Some("Small"), vec![("id", V::U(4)), ("s0", V::S(10))]),
        ],
    });
}

// Two variants of the SAME (largest) size, both ending with a constant column.
#[test]
fn variation_two_largest_variants_both_end_with_constant() {
    expect_ok(&Spec {
        common: vec![("id", false)],
        variants: vec![
            ("A", vec![("a0", false), ("a1", false)]),
            ("B", vec![("b0", false), ("b1", false)]),
        ],
        entries: vec![
            (Some("A"), vec![("id", V::U(1)), ("a0", V::U(1)), ("a1", V::U(7))]),
            (Some("B"), vec![("id", V::U(2)), ("b0", V::U(2)), ("b1", V::U(8))]),
            (Some("A"), vec![("id", V::U(3)), ("a0", V::U(3)), ("a1", V::U(7))]),
            (Some("B"), vec![("id", V::U(4)), ("b0", V::U(4)), ("b1", V::U(8))]),
        ],
    });
}

// Every property of every variant is constant: the variant part of every variant has size 0.
#[test]
fn variation_all_variant_properties_constant() {
    expect_ok(&Spec {
        common: vec![("id", false)],
        variants: vec![("A", vec![("a0", false)]), ("B", vec![("b0", false)])],
        entries: vec![
            (Some("A"), vec![("id", V::U(1)), ("a0", V::U(7))]),
            (Some("B"), vec![("id", V::U(2)), ("b0", V::U(8))]),
            (Some("A"), vec![("id", V::U(3)), ("a0", V::U(7))]),
            (Some("B"), vec![("id", V::U(4)), ("b0", V::U(8))]),
        ],
    });
}

// As above but variant `A` has TWO constant properties (variant part of size 0 for everybody):
// the first size 0 property already "fills" the variant, the second one is left over.
#[test]
fn variation_all_constant_two_properties_in_a_variant() {
    expect_ok(&Spec {
        common: vec![("id", false)],
        variants: vec![("A", vec![("a0", false), ("a1", false)]), ("B", vec![("b0", false)])],
        entries: vec![
            (Some("A"), vec![("id", V::U(1)), ("a0", V::U(7)), ("a1", V::U(6))]),
            (Some("B"), vec![("id", V::U(2)), ("b0", V::U(8))]),
            (Some("A"), vec![("id", V::U(3)), ("a0", V::U(7)), ("a1", V::U(6))]),
            (Some("B"), vec![("id", V::U(4)), ("b0", V::U(8))]),
        ],
    });
}
