//! D23 demo: a user-supplied `schema::Property::Padding(n)` in a schema.
//!
//! On disk a padding property is the single byte `0000 SSSS` with SSSS = size - 1: it can only
//! describe 1 to 16 bytes. Every test writes a directory pack whose common properties are
//! `[uint "a", Padding(n), uint "b"]`, reads it back and checks the values.
//!
//! Public API + std + tempfile only.

use jubako::creator;
use jubako::creator::schema;
use jubako::reader::{EntryTrait, Range};
use std::collections::HashMap;
use std::io::Seek;
use std::sync::Arc;

/// (a, b) of every entry: distinct values so that no column is constant.
const ENTRIES: [(u64, u64); 3] = [(0x11, 0x1234), (0x22, 0x4321), (0x33, 0x2BCD)];

/// Stage "creation": build the schema, the entry store, the entries, finalize and write the
/// directory pack in a temporary file.
fn create(padding: u8, entries: &[(u64, u64)]) -> Result<std::fs::File, String> {
    let mut pack_creator = creator::DirectoryPackCreator::new(
        jubako::PackId::from(1),
        jubako::VendorId::from([1, 0, 0, 0]),
        Default::default(),
    );
    let entry_def = schema::Schema::<&'static str, &'static str>::new(
        schema::CommonProperties::new(vec![
            schema::Property::new_uint("a"),
            schema::Property::Padding(padding),
            schema::Property::new_uint("b"),
        ]),
        vec![],
        None,
    );
    let mut entry_store = Box::new(creator::EntryStore::new(entry_def, None));
    for &(a, b) in entries {
        let values: HashMap<&'static str, jubako::Value> = HashMap::from([
            ("a", jubako::Value::Unsigned(a)),
            ("b", jubako::Value::Unsigned(b)),
        ]);
        entry_store.add_entry(creator::BasicEntry::new_from_schema(
            &entry_store.schema,
            None,
            values,
        ));
    }
    let entry_store_idx = pack_creator.add_entry_store(entry_store);
    pack_creator.create_index(
        "demo index",
        Default::default(),
        0.into(),
        entry_store_idx,
        (entries.len() as u32).into(),
        jubako::EntryIdx::from(0).into(),
    );

    let mut file = tempfile::tempfile().map_err(|e| format!("tempfile: {e}"))?;
    pack_creator
        .finalize()
        .map_err(|e| format!("creator finalize: {e}"))?
        .write(&mut file)
        .map_err(|e| format!("creator write: {e}"))?;
    file.rewind().map_err(|e| format!("rewind: {e}"))?;
    Ok(file)
}

/// Stage "read": open the directory pack, read every entry back and compare.
fn read_back(file: std::fs::File, entries: &[(u64, u64)]) -> Result<(), String> {
    let reader: jubako::Reader = jubako::FileSource::new(file)
        .map_err(|e| format!("FileSource::new: {e}"))?
        .into();
    let directory_pack = Arc::new(
        jubako::reader::DirectoryPack::new(reader)
            .map_err(|e| format!("DirectoryPack::new: {e}"))?,
    );
    let index = directory_pack
        .get_index(0.into())
        .map_err(|e| format!("get_index: {e}"))?;
    let entry_storage = directory_pack.create_entry_storage();
    let value_storage = directory_pack.create_value_storage();
    let store = index
        .get_store(&entry_storage)
        .map_err(|e| format!("Index::get_store (parse of the entry store / layout): {e}"))?;
    let builder = jubako::reader::builder::AnyBuilder::new(store, value_storage.as_ref())
        .map_err(|e| format!("AnyBuilder::new: {e}"))?;

    if index.count() != (entries.len() as u32).into() {
        return Err(format!("index count is {:?}", index.count()));
    }
    for i in index.count() {
        let (a, b) = entries[i.into_u32() as usize];
        let entry = index
            .get_entry(&builder, i)
            .map_err(|e| format!("get_entry {i:?}: {e}"))?
            .ok_or_else(|| format!("entry {i:?} not in the index"))?;
        for (name, expected) in [("a", a), ("b", b)] {
            let raw = entry
                .get_value(name)
                .map_err(|e| format!("entry {i:?} get_value({name}): {e}"))?
                .ok_or_else(|| format!("entry {i:?} has no property {name}"))?;
            let got = match raw.get().map_err(|e| format!("RawValue::get: {e}"))? {
                jubako::Value::Unsigned(u) => u,
                other => return Err(format!("entry {i:?} {name}: unexpected value {other:?}")),
            };
            if got != expected {
                return Err(format!(
                    "entry {i:?} property {name}: read {got:#x}, written {expected:#x}"
                ));
            }
        }
    }
    Ok(())
}

fn panic_text(payload: Box<dyn std::any::Any + Send>) -> String {
    if let Some(s) = payload.downcast_ref::<&'static str>() {
        s.to_string()
    } else if let Some(s) = payload.downcast_ref::<String>() {
        s.clone()
    } else {
        "<non string panic payload>".to_string()
    }
}

/// The control: creation must succeed and the pack must read back.
fn must_roundtrip(padding: u8, entries: &[(u64, u64)]) {
    let file = create(padding, entries)
        .unwrap_or_else(|msg| panic!("Padding({padding}): creation failed at {msg}"));
    if let Err(msg) = read_back(file, entries) {
        panic!("Padding({padding}): creation succeeded, read back failed at {msg}");
    }
}

/// Passes if creation is refused (panic or error) or if the pack reads back with the values
/// written. Fails if creation succeeds silently and the pack cannot be read back.
fn refused_or_roundtrips(padding: u8, entries: &[(u64, u64)]) {
    let created = std::panic::catch_unwind(|| create(padding, entries));
    let file = match created {
        Err(payload) => {
            eprintln!(
                "Padding({padding}): creation refused by a panic: {}",
                panic_text(payload)
            );
            return;
        }
        Ok(Err(msg)) => {
            eprintln!("Padding({padding}): creation refused by an error: {msg}");
            return;
        }
        Ok(Ok(file)) => file,
    };
    eprintln!("Padding({padding}): creation succeeded silently");
    // The reader may panic too: report it as a read failure.
    match std::panic::catch_unwind(|| read_back(file, entries)) {
        Ok(Ok(())) => eprintln!("Padding({padding}): read back OK"),
        Ok(Err(msg)) => {
            panic!("Padding({padding}): creation succeeded SILENTLY, read back failed at {msg}")
        }
        Err(payload) => panic!(
            "Padding({padding}): creation succeeded SILENTLY, read back panicked: {}",
            panic_text(payload)
        ),
    }
}

// NOTE: fails before AND after the D23 repair, for a reason which has nothing to do with the size:
// as soon as the entry store holds one entry, `EntryStore::finalize` calls
// `schema::Property::process` on every property of the schema and the `Padding` arm of it is
// `panic!("Padding cannot process a value")`. Run with `--ignored` to see it.
#[test]
#[ignore = "schema::Property::process panics on any Padding as soon as the store has an entry"]
fn padding_16_roundtrips() {
    must_roundtrip(16, &ENTRIES);
}

// Second control, the other bound. Same note.
#[test]
#[ignore = "schema::Property::process panics on any Padding as soon as the store has an entry"]
fn padding_1_roundtrips() {
    must_roundtrip(1, &ENTRIES);
}

#[test]
fn padding_17_is_refused_or_roundtrips() {
    refused_or_roundtrips(17, &ENTRIES);
}

#[test]
fn padding_200_is_refused_or_roundtrips() {
    refused_or_roundtrips(200, &ENTRIES);
}

#[test]
fn padding_0_is_refused_or_roundtrips() {
    refused_or_roundtrips(0, &ENTRIES);
}

// ------------------------------------------------------------------------------------------
// The same with an entry store WITHOUT any entry: `schema::Property::process` (which refuses a
// padding property whatever its size) is never called, `Property::finalize` is the first code
// which sees the size of the padding.

#[test]
fn empty_store_padding_16_roundtrips() {
    must_roundtrip(16, &[]);
}

#[test]
fn empty_store_padding_1_roundtrips() {
    must_roundtrip(1, &[]);
}

#[test]
fn empty_store_padding_17_is_refused_or_roundtrips() {
    refused_or_roundtrips(17, &[]);
}

#[test]
fn empty_store_padding_200_is_refused_or_roundtrips() {
    refused_or_roundtrips(200, &[]);
}

#[test]
fn empty_store_padding_0_is_refused_or_roundtrips() {
    refused_or_roundtrips(0, &[]);
}
