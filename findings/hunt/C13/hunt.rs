//! Bug hunt for property C13:
//! "All views of a stored content (stream, slice, sub-cut, conversions) agree".
//!
//! Every test passes when the property holds and fails when it is violated.
//! Public API + std + tempfile only.

use jubako::creator;
use jubako::creator::schema;
use jubako::reader::{ByteRegion, ByteSlice, ByteStream, ContentPack, DirectoryPack};
use jubako::{ContentIdx, EntryIdx, FileSource, Offset, Reader, Size};
use std::collections::HashMap;
use std::io::{Read, Write};
use std::path::{Path, PathBuf};
use std::sync::Arc;

// ---------------------------------------------------------------------------------------------
// Helpers
// ---------------------------------------------------------------------------------------------

fn tmpdir() -> tempfile::TempDir {
    tempfile::tempdir().unwrap()
}

fn utf8(p: &Path) -> jubako::Utf8PathBuf {
    jubako::Utf8PathBuf::from_path_buf(p.to_path_buf()).unwrap()
}

/// Deterministic, *compressible* but position dependent content: every byte depends on
/// (seed, index) so that any offset mistake (even by one byte, even across blobs) is visible.
fn pattern(seed: u64, len: usize) -> Vec<u8> {
    let mut v = Vec::with_capacity(len);
    let mut x = seed.wrapping_mul(0x9E37_79B9_7F4A_7C15) | 1;
    let mut i = 0usize;
    while v.len() < len {
        if i % 7 == 0 {
            x ^= x << 13;
            x ^= x >> 7;
            x ^= x << 17;
        }
        // low entropy alphabet (16 symbols) + the low bits of the index
        let b = (((x >> ((i % 7) * 4)) & 0x0F) as u8) << 3 | ((i & 0x7) as u8);
        v.push(b ^ (seed as u8 & 0x80));
        i += 1;
    }
    v
}

/// High entropy content (xorshift bytes).
fn noise(seed: u64, len: usize) -> Vec<u8> {
    let mut v = Vec::with_capacity(len + 8);
    let mut x = seed.wrapping_mul(0x9E37_79B9_7F4A_7C15) | 1;
    while v.len() < len {
        x ^= x << 13;
        x ^= x >> 7;
        x ^= x << 17;
        v.extend_from_slice(&x.to_le_bytes());
    }
    v.truncate(len);
    v
}

#[derive(Clone, Copy)]
enum Hint {
    Yes,
    No,
}

fn build_content_pack(
    path: &Path,
    compression: creator::Compression,
    blobs: &[(Vec<u8>, Hint)],
) -> creator::PackData {
    let mut creator = creator::ContentPackCreator::new(
        utf8(path),
        jubako::PackId::from(1),
        jubako::VendorId::from([1, 0, 0, 0]),
        Default::default(),
        compression,
    )
    .unwrap();
    for (idx, (blob, hint)) in blobs.iter().enumerate() {
        let hint = match hint {
            Hint::Yes => creator::CompHint::Yes,
            Hint::No => creator::CompHint::No,
        };
        let addr = creator
            .add_content(Box::new(std::io::Cursor::new(blob.clone())), hint)
            .unwrap();
        assert_eq!(addr.content_id, ContentIdx::from(idx as u32));
    }
    let (file, pack_info) = creator.finalize().unwrap();
    drop(file);
    pack_info
}

fn file_reader(path: &Path) -> Reader {
    Reader::from(FileSource::open(path).unwrap())
}

fn memory_reader(path: &Path) -> Reader {
    Reader::from(std::fs::read(path).unwrap())
}

/// Different sequences of read sizes (cycled until the end of the stream).
fn read_plans(len: usize) -> Vec<Vec<usize>> {
    let mut plans = vec![
        vec![1],
        vec![2],
        vec![3, 0, 5],
        vec![0, 1, 0, 255, 256, 257],
        vec![1023, 1024, 1025],
        vec![1024],
        vec![4095, 4096, 4097],
        vec![4096],
        vec![65535, 65536, 65537],
        vec![1, 1 << 20],
        vec![1 << 24],
        vec![7, 4096 * 3 + 1, 13],
    ];
    if len > 0 {
        plans.push(vec![len]);
        plans.push(vec![len - 1, 1]);
        plans.push(vec![len + 1]);
        plans.push(vec![1, len - 1]);
        plans.push(vec![len / 2, len - len / 2]);
    }
    // one byte at a time is too slow for big contents
    if len > 300_000 {
        plans.retain(|p| p.iter().copied().max().unwrap() >= 255);
    }
    plans
}

/// Drive a stream with a plan and check bytes + accounting after every single read.
fn check_stream_plan(mut stream: ByteStream, expected: &[u8], plan: &[usize], ctx: &str) {
    let len = expected.len();
    assert_eq!(stream.size(), len as u64, "{ctx}: stream.size()");
    assert_eq!(stream.offset(), 0, "{ctx}: initial stream.offset()");
    assert_eq!(stream.size_left(), len as u64, "{ctx}: initial size_left()");
    let mut consumed = 0usize;
    let mut step = 0usize;
    let mut buf = Vec::new();
    let mut zero_in_row = 0;
    loop {
        let want = plan[step % plan.len()];
        step += 1;
        buf.clear();
        buf.resize(want, 0xA5);
        let got = stream.read(&mut buf).unwrap();
        assert!(got <= want, "{ctx}: read returned more than asked");
        assert!(
            got <= len - consumed,
            "{ctx}: read {got} bytes but only {} were left (plan {plan:?}, consumed {consumed})",
            len - consumed
        );
        assert_eq!(
            &buf[..got],
            &expected[consumed..consumed + got],
            "{ctx}: bytes differ at [{consumed}, {}) (plan {plan:?})",
            consumed + got
        );
        // The part of the buffer we have not been told about must be untouched.
        assert!(
            buf[got..].iter().all(|b| *b == 0xA5),
            "{ctx}: read wrote past the returned length"
        );
        consumed += got;
        assert_eq!(stream.size(), len as u64, "{ctx}: stream.size() changed");
        assert_eq!(stream.offset(), consumed as u64, "{ctx}: stream.offset()");
        assert_eq!(
            stream.size_left(),
            (len - consumed) as u64,
            "{ctx}: stream.size_left()"
        );
        if got == 0 {
            if want != 0 {
                assert_eq!(
                    consumed, len,
                    "{ctx}: read returned 0 (EOF) before the end, plan {plan:?}"
                );
                break;
            }
            zero_in_row += 1;
            assert!(zero_in_row < 10);
        } else {
            zero_in_row = 0;
        }
    }
    // Once at the end, we stay at the end.
    let mut b = [0u8; 16];
    assert_eq!(stream.read(&mut b).unwrap(), 0, "{ctx}: read after EOF");
    assert_eq!(stream.size_left(), 0);
    assert_eq!(stream.offset(), len as u64);
}

fn check_stream_all_plans<F: Fn() -> ByteStream>(mk: F, expected: &[u8], ctx: &str) {
    for plan in read_plans(expected.len()) {
        check_stream_plan(mk(), expected, &plan, ctx);
    }
    // And std helpers
    let mut v = Vec::new();
    mk().read_to_end(&mut v).unwrap();
    assert_eq!(v, expected, "{ctx}: read_to_end");
    let mut v = vec![0u8; expected.len()];
    mk().read_exact(&mut v).unwrap();
    assert_eq!(v, expected, "{ctx}: read_exact");
}

/// Cheap check of a stream (a few plans only).
fn check_stream_light<F: Fn() -> ByteStream>(mk: F, expected: &[u8], ctx: &str) {
    let len = expected.len();
    let plans: Vec<Vec<usize>> = vec![vec![len + 3], vec![5, 1024, 0, 4097], vec![len / 3 + 1]];
    for plan in plans {
        check_stream_plan(mk(), expected, &plan, ctx);
    }
}

fn sub_ranges(len: usize) -> Vec<(usize, usize)> {
    let mut offsets = vec![0, 1, 2, len / 3, len / 2, len.saturating_sub(2), len.saturating_sub(1), len];
    for b in [255usize, 256, 1023, 1024, 4095, 4096, 4097, 65535, 65536] {
        offsets.push(b);
    }
    offsets.retain(|o| *o <= len);
    offsets.sort();
    offsets.dedup();
    let mut out = vec![];
    for &o in &offsets {
        let rest = len - o;
        let mut sizes = vec![0, 1, 2, rest / 2, rest.saturating_sub(1), rest];
        for b in [255usize, 256, 1024, 4096, 65536] {
            sizes.push(b);
        }
        sizes.retain(|s| *s <= rest);
        sizes.sort();
        sizes.dedup();
        for s in sizes {
            out.push((o, s));
        }
    }
    out
}

fn few_sub_ranges(len: usize) -> Vec<(usize, usize)> {
    let mut out = vec![
        (0, len),
        (0, 0),
        (len, 0),
        (0, len / 2),
        (len / 2, len - len / 2),
        (len / 3, len / 3),
    ];
    if len > 0 {
        out.push((1, len - 1));
        out.push((0, len - 1));
        out.push((len - 1, 1));
        out.push((len - 1, 0));
    }
    if len > 2 {
        out.push((1, len - 2));
    }
    out.sort();
    out.dedup();
    out
}

fn check_slice_basic(slice: &ByteSlice, expected: &[u8], ctx: &str) {
    assert_eq!(slice.size(), Size::from(expected.len()), "{ctx}: slice.size()");
    let whole = slice.get_slice(Offset::zero(), expected.len()).unwrap();
    assert_eq!(&*whole, expected, "{ctx}: slice.get_slice(0, len)");
    check_stream_light(|| slice.stream(), expected, &format!("{ctx} slice.stream()"));
    // conversions
    let region: ByteRegion = slice.clone().into();
    assert_eq!(region.size(), Size::from(expected.len()), "{ctx}: region(from slice).size()");
    let whole = region.get_slice(Offset::zero(), expected.len()).unwrap();
    assert_eq!(&*whole, expected, "{ctx}: region(from slice).get_slice");
    check_stream_light(|| region.stream(), expected, &format!("{ctx} region(from slice).stream()"));
    check_stream_light(
        || ByteStream::from(region.clone()),
        expected,
        &format!("{ctx} ByteStream::from(region(from slice))"),
    );
    let back = region.as_slice();
    assert_eq!(back.size(), Size::from(expected.len()));
    assert_eq!(
        &*back.get_slice(Offset::zero(), expected.len()).unwrap(),
        expected,
        "{ctx}: region.as_slice().get_slice"
    );
}

/// Nested cuts, to depth 3, mixing the ways of cutting.
fn check_nested(region: &ByteRegion, expected: &[u8], ctx: &str) {
    let len = expected.len();
    for (o1, s1) in few_sub_ranges(len) {
        let e1 = &expected[o1..o1 + s1];
        let c1 = region.cut(Offset::from(o1), Size::from(s1));
        let ctx1 = format!("{ctx} cut({o1},{s1})");
        check_slice_basic(&c1, e1, &ctx1);
        // get_slice on the parent for the same range
        assert_eq!(
            &*region.get_slice(Offset::from(o1), s1).unwrap(),
            e1,
            "{ctx1}: parent.get_slice"
        );
        let r1: ByteRegion = c1.clone().into();
        for (o2, s2) in few_sub_ranges(s1) {
            let e2 = &e1[o2..o2 + s2];
            let ctx2 = format!("{ctx1} cut({o2},{s2})");
            // Two ways to get level 2: cut the slice, or cut the region made from the slice.
            let c2a = c1.cut(Offset::from(o2), Size::from(s2));
            let c2b = r1.cut(Offset::from(o2), Size::from(s2));
            check_slice_basic(&c2a, e2, &format!("{ctx2} (slice.cut)"));
            assert_eq!(c2b.size(), Size::from(s2));
            assert_eq!(
                &*c2b.get_slice(Offset::zero(), s2).unwrap(),
                e2,
                "{ctx2} (region.cut)"
            );
            assert_eq!(
                &*c1.get_slice(Offset::from(o2), s2).unwrap(),
                e2,
                "{ctx2}: level1.get_slice"
            );
            let r2: ByteRegion = c2b.into();
            for (o3, s3) in few_sub_ranges(s2) {
                let e3 = &e2[o3..o3 + s3];
                let ctx3 = format!("{ctx2} cut({o3},{s3})");
                let c3a = c2a.cut(Offset::from(o3), Size::from(s3));
                let c3b = r2.cut(Offset::from(o3), Size::from(s3));
                for (name, c3) in [("slice.cut", &c3a), ("region.cut", &c3b)] {
                    assert_eq!(c3.size(), Size::from(s3), "{ctx3} {name} size");
                    assert_eq!(
                        &*c3.get_slice(Offset::zero(), s3).unwrap(),
                        e3,
                        "{ctx3} {name} get_slice"
                    );
                    let mut v = Vec::new();
                    let mut st = c3.stream();
                    assert_eq!(st.size(), s3 as u64);
                    assert_eq!(st.size_left(), s3 as u64);
                    assert_eq!(st.offset(), 0);
                    st.read_to_end(&mut v).unwrap();
                    assert_eq!(v, e3, "{ctx3} {name} stream");
                    assert_eq!(st.offset(), s3 as u64);
                    assert_eq!(st.size_left(), 0);
                    let r3: ByteRegion = (*c3).clone().into();
                    let mut v = Vec::new();
                    let mut st: ByteStream = r3.into();
                    st.read_to_end(&mut v).unwrap();
                    assert_eq!(v, e3, "{ctx3} {name} ByteStream::from(ByteRegion::from(cut))");
                }
                // inner get_slice of a sub part of level 3 from level 2
                if s3 > 2 {
                    assert_eq!(
                        &*c2a.get_slice(Offset::from(o3 + 1), s3 - 2).unwrap(),
                        &e3[1..s3 - 1],
                        "{ctx3}: level2.get_slice(o3+1, s3-2)"
                    );
                }
            }
        }
    }
}

/// The full battery on one stored content.
fn check_all_views(region: &ByteRegion, expected: &[u8], ctx: &str) {
    let len = expected.len();
    assert_eq!(region.size(), Size::from(len), "{ctx}: region.size()");
    check_stream_all_plans(|| region.stream(), expected, &format!("{ctx} region.stream()"));
    check_stream_all_plans(
        || ByteStream::from(region.clone()),
        expected,
        &format!("{ctx} ByteStream::from(region)"),
    );
    check_stream_all_plans(
        || region.as_slice().stream(),
        expected,
        &format!("{ctx} region.as_slice().stream()"),
    );
    // every (offset, size) boundary sub range, one level
    for (o, s) in sub_ranges(len) {
        let e = &expected[o..o + s];
        let got = region.get_slice(Offset::from(o), s).unwrap();
        assert_eq!(&*got, e, "{ctx}: region.get_slice({o},{s})");
        let cut = region.cut(Offset::from(o), Size::from(s));
        assert_eq!(cut.size(), Size::from(s), "{ctx}: cut({o},{s}).size()");
        let got = cut.get_slice(Offset::zero(), s).unwrap();
        assert_eq!(&*got, e, "{ctx}: cut({o},{s}).get_slice(0,{s})");
        let mut v = Vec::new();
        let mut st = cut.stream();
        assert_eq!(st.size(), s as u64, "{ctx}: cut({o},{s}).stream().size()");
        st.read_to_end(&mut v).unwrap();
        assert_eq!(v, e, "{ctx}: cut({o},{s}).stream()");
        assert_eq!(st.offset(), s as u64);
        assert_eq!(st.size_left(), 0);
    }
    check_nested(region, expected, ctx);
}

fn standard_blobs() -> Vec<Vec<u8>> {
    let sizes = [
        37usize, 0, 1, 255, 256, 257, 0, 1023, 1024, 1025, 4095, 4096, 4097, 65535, 65536, 65537,
        3, 100_000, 0,
    ];
    sizes
        .iter()
        .enumerate()
        .map(|(i, s)| pattern(i as u64 + 1, *s))
        .collect()
}

fn check_content_pack(pack: &ContentPack, blobs: &[Vec<u8>], ctx: &str) {
    assert_eq!(pack.get_content_count().into_u32() as usize, blobs.len());
    for (idx, blob) in blobs.iter().enumerate() {
        let region = pack
            .get_content(ContentIdx::from(idx as u32))
            .unwrap()
            .unwrap();
        check_all_views(&region, blob, &format!("{ctx} blob#{idx}(len {})", blob.len()));
    }
}

// ---------------------------------------------------------------------------------------------
// H1: uncompressed content, file backed source (FileSource, absolute offsets in the file)
// ---------------------------------------------------------------------------------------------
#[test]
fn h01_uncompressed_file_source() {
    let dir = tmpdir();
    let path = dir.path().join("c.jbkc");
    let blobs = standard_blobs();
    let input: Vec<_> = blobs.iter().map(|b| (b.clone(), Hint::No)).collect();
    build_content_pack(&path, creator::Compression::None, &input);
    let pack = ContentPack::new(file_reader(&path)).unwrap();
    check_content_pack(&pack, &blobs, "file/none");
}

// ---------------------------------------------------------------------------------------------
// H2: uncompressed content, in memory source (Vec<u8>)
// ---------------------------------------------------------------------------------------------
#[test]
fn h02_uncompressed_memory_source() {
    let dir = tmpdir();
    let path = dir.path().join("c.jbkc");
    let blobs = standard_blobs();
    let input: Vec<_> = blobs.iter().map(|b| (b.clone(), Hint::No)).collect();
    build_content_pack(&path, creator::Compression::None, &input);
    let pack = ContentPack::new(memory_reader(&path)).unwrap();
    check_content_pack(&pack, &blobs, "memory/none");
}

// ---------------------------------------------------------------------------------------------
// H3: compressed content (background decoded source), every available compression,
//     file and memory raw source. The checks start on the *last* blobs first so that the
//     decoder is still running when we ask for far away bytes.
// ---------------------------------------------------------------------------------------------
fn compressions() -> Vec<(&'static str, creator::Compression)> {
    #[allow(unused_mut)]
    let mut v: Vec<(&'static str, creator::Compression)> = vec![];
    #[cfg(feature = "zstd")]
    v.push(("zstd", creator::Compression::zstd()));
    #[cfg(feature = "lz4")]
    v.push(("lz4", creator::Compression::lz4()));
    #[cfg(feature = "lzma")]
    v.push(("lzma", creator::Compression::lzma()));
    v
}

#[test]
fn h03_compressed_sources() {
    for (name, comp) in compressions() {
        let dir = tmpdir();
        let path = dir.path().join("c.jbkc");
        let blobs = standard_blobs();
        let input: Vec<_> = blobs.iter().map(|b| (b.clone(), Hint::Yes)).collect();
        build_content_pack(&path, comp, &input);
        for (kind, reader) in [("file", file_reader(&path)), ("memory", memory_reader(&path))] {
            let pack = ContentPack::new(reader).unwrap();
            // far blob first, while the decoder is still working
            let last_big = blobs.len() - 2;
            let region = pack
                .get_content(ContentIdx::from(last_big as u32))
                .unwrap()
                .unwrap();
            let tail = region
                .get_slice(Offset::from(blobs[last_big].len() - 10), 10)
                .unwrap();
            assert_eq!(&*tail, &blobs[last_big][blobs[last_big].len() - 10..]);
            check_content_pack(&pack, &blobs, &format!("{kind}/{name}"));
        }
    }
}

// ---------------------------------------------------------------------------------------------
// H4: mix of raw and compressed clusters in the same pack (content ids interleaved between
//     the two open clusters) + incompressible data forced in compressed clusters.
// ---------------------------------------------------------------------------------------------
#[test]
fn h04_mixed_clusters_and_incompressible() {
    for (name, comp) in compressions() {
        let dir = tmpdir();
        let path = dir.path().join("c.jbkc");
        let mut blobs = vec![];
        let mut input = vec![];
        for i in 0..40u64 {
            let len = [0usize, 1, 17, 300, 4096, 5000, 70_000][(i % 7) as usize];
            let (data, hint) = match i % 4 {
                0 => (pattern(i, len), Hint::Yes),
                1 => (noise(i, len), Hint::No),
                2 => (noise(i, len), Hint::Yes),
                _ => (pattern(i, len), Hint::No),
            };
            blobs.push(data.clone());
            input.push((data, hint));
        }
        build_content_pack(&path, comp, &input);
        for (kind, reader) in [("file", file_reader(&path)), ("memory", memory_reader(&path))] {
            let pack = ContentPack::new(reader).unwrap();
            for (idx, blob) in blobs.iter().enumerate().rev() {
                let region = pack
                    .get_content(ContentIdx::from(idx as u32))
                    .unwrap()
                    .unwrap();
                let ctx = format!("{kind}/{name}/mixed blob#{idx}");
                assert_eq!(region.size(), Size::from(blob.len()), "{ctx}");
                check_stream_light(|| region.stream(), blob, &ctx);
                check_nested(&region, blob, &ctx);
            }
        }
    }
}

// ---------------------------------------------------------------------------------------------
// H5: several clusters: a compressed cluster is closed at 4 MiB, raw cluster at 0xFFF blobs.
//     Contents in the second/third cluster; sizes around 2^24 for the raw cluster (offset size
//     goes from 3 to 4 bytes).
// ---------------------------------------------------------------------------------------------
#[test]
fn h05_big_clusters_boundaries() {
    let dir = tmpdir();
    let path = dir.path().join("c.jbkc");
    // raw cluster: 1 + 2^24 - 1 + 1 + 5 bytes => blob offsets 1, 2^24, 2^24+1
    let blobs = vec![
        pattern(1, 1),
        pattern(2, (1 << 24) - 1),
        pattern(3, 1),
        pattern(4, 5),
        pattern(5, 65536),
    ];
    let input: Vec<_> = blobs.iter().map(|b| (b.clone(), Hint::No)).collect();
    build_content_pack(&path, creator::Compression::None, &input);
    for (kind, reader) in [("file", file_reader(&path)), ("memory", memory_reader(&path))] {
        let pack = ContentPack::new(reader).unwrap();
        for (idx, blob) in blobs.iter().enumerate() {
            let region = pack
                .get_content(ContentIdx::from(idx as u32))
                .unwrap()
                .unwrap();
            let ctx = format!("{kind}/raw 2^24 blob#{idx}");
            assert_eq!(region.size(), Size::from(blob.len()), "{ctx}");
            check_stream_light(|| region.stream(), blob, &ctx);
            check_stream_light(|| ByteStream::from(region.clone()), blob, &ctx);
            for (o, s) in few_sub_ranges(blob.len()) {
                let cut = region.cut(Offset::from(o), Size::from(s));
                let mut v = Vec::new();
                cut.stream().read_to_end(&mut v).unwrap();
                assert!(v == blob[o..o + s], "{ctx} cut({o},{s}).stream()");
                assert!(
                    *cut.get_slice(Offset::zero(), s).unwrap() == blob[o..o + s],
                    "{ctx} cut({o},{s}).get_slice()"
                );
            }
        }
    }
}

#[test]
fn h06_many_compressed_clusters() {
    for (name, comp) in compressions() {
        let dir = tmpdir();
        let path = dir.path().join("c.jbkc");
        // 3 MiB blobs: every compressed cluster holds exactly one (3+3 > 4 MiB), plus small ones.
        let mut blobs = vec![];
        for i in 0..4u64 {
            blobs.push(pattern(100 + i, 11 + i as usize));
            blobs.push(pattern(200 + i, 3 * 1024 * 1024 + i as usize));
        }
        let input: Vec<_> = blobs.iter().map(|b| (b.clone(), Hint::Yes)).collect();
        build_content_pack(&path, comp, &input);
        let pack = ContentPack::new(file_reader(&path)).unwrap();
        for (idx, blob) in blobs.iter().enumerate().rev() {
            let region = pack
                .get_content(ContentIdx::from(idx as u32))
                .unwrap()
                .unwrap();
            let ctx = format!("file/{name}/multi cluster blob#{idx}");
            assert_eq!(region.size(), Size::from(blob.len()), "{ctx}");
            // end first (decoder still running), then a slice in the middle, then stream
            let l = blob.len();
            assert!(*region.get_slice(Offset::from(l - 5), 5).unwrap() == blob[l - 5..], "{ctx}");
            assert!(
                *region.get_slice(Offset::from(l / 2), l / 4).unwrap() == blob[l / 2..l / 2 + l / 4],
                "{ctx}"
            );
            check_stream_light(|| region.stream(), blob, &ctx);
            if l < 100 {
                check_nested(&region, blob, &ctx);
                continue;
            }
            let c = region.cut(Offset::from(l / 3), Size::from(l / 3));
            let c2 = c.cut(Offset::from(1usize), Size::from(l / 3 - 2));
            let r: ByteRegion = c2.into();
            let c3 = r.cut(Offset::from(1usize), Size::from(l / 3 - 4));
            let mut v = Vec::new();
            c3.stream().read_to_end(&mut v).unwrap();
            assert!(v == blob[l / 3 + 2..l / 3 + 2 + l / 3 - 4], "{ctx} nested");
        }
    }
}

// ---------------------------------------------------------------------------------------------
// H7: the content pack is not at offset 0 of its file: inside a container pack (tools::concat)
//     and behind a prefix of foreign bytes (pack found with the tail header).
// ---------------------------------------------------------------------------------------------
#[test]
fn h07_pack_inside_container_and_after_prefix() {
    let dir = tmpdir();
    let blobs = standard_blobs();
    let mut comps = compressions();
    comps.push(("none", creator::Compression::None));
    for (name, comp) in comps {
        let path = dir.path().join(format!("c_{name}.jbkc"));
        let hint = if name == "none" { Hint::No } else { Hint::Yes };
        let input: Vec<_> = blobs.iter().map(|b| (b.clone(), hint)).collect();
        build_content_pack(&path, comp, &input);

        // a) in a container
        let cont_path = dir.path().join(format!("cont_{name}.jbk"));
        jubako::tools::concat(&[&path], utf8(&cont_path)).unwrap();
        let container = jubako::tools::open_pack(&cont_path).unwrap();
        assert_eq!(container.pack_count().into_u16(), 1);
        let reader = container
            .get_pack_reader_from_idx(jubako::PackId::from(0))
            .unwrap();
        let pack = ContentPack::new(reader).unwrap();
        check_content_pack(&pack, &blobs, &format!("container/{name}"));

        // b) the container itself loaded in memory
        let mem_container =
            jubako::reader::ContainerPack::new(memory_reader(&cont_path)).unwrap();
        let reader = mem_container
            .get_pack_reader_from_idx(jubako::PackId::from(0))
            .unwrap();
        let pack = ContentPack::new(reader).unwrap();
        for (idx, blob) in blobs.iter().enumerate() {
            let region = pack
                .get_content(ContentIdx::from(idx as u32))
                .unwrap()
                .unwrap();
            let ctx = format!("memory container/{name} blob#{idx}");
            check_stream_light(|| region.stream(), blob, &ctx);
            check_nested(&region, blob, &ctx);
        }

        // c) prefix + pack, found by FsLocator through the tail header
        let prefixed = dir.path().join(format!("prefixed_{name}.bin"));
        {
            let mut f = std::fs::File::create(&prefixed).unwrap();
            f.write_all(&noise(99, 4097)).unwrap();
            f.write_all(&std::fs::read(&path).unwrap()).unwrap();
        }
        let uuid = {
            use jubako::Pack;
            ContentPack::new(file_reader(&path)).unwrap().uuid()
        };
        use jubako::reader::PackLocatorTrait;
        let locator = jubako::reader::FsLocator::new(dir.path().to_path_buf());
        let reader = locator
            .locate(uuid, &format!("prefixed_{name}.bin"))
            .unwrap()
            .unwrap();
        let pack = ContentPack::new(reader).unwrap();
        for (idx, blob) in blobs.iter().enumerate() {
            let region = pack
                .get_content(ContentIdx::from(idx as u32))
                .unwrap()
                .unwrap();
            let ctx = format!("prefixed/{name} blob#{idx}");
            check_stream_light(|| region.stream(), blob, &ctx);
            check_stream_light(|| ByteStream::from(region.clone()), blob, &ctx);
            check_nested(&region, blob, &ctx);
        }
    }
}

// ---------------------------------------------------------------------------------------------
// Directory pack: the entry store gives ByteSlice on a mmap (pack >= 4 KiB) or on a Vec read
// from the file (pack < 4 KiB) or on the caller's memory.
// Every entry is one u64 (8 bytes, little endian): the expected bytes are known.
// ---------------------------------------------------------------------------------------------
fn entry_value(i: u32) -> u64 {
    0x8000_0000_0000_0000u64 | ((i as u64).wrapping_mul(0x0101_0101_0101_0101) ^ 0x00AB_CDEF_1234_5678u64.rotate_left(i % 50))
}

fn build_directory_pack(path: &Path, entry_count: u32) -> creator::PackData {
    let mut creator = creator::DirectoryPackCreator::new(
        jubako::PackId::from(0),
        jubako::VendorId::from([1, 0, 0, 0]),
        Default::default(),
    );
    let entry_def = schema::Schema::<&str, &str>::new(
        schema::CommonProperties::new(vec![schema::Property::new_uint("V")]),
        vec![],
        None,
    );
    let mut entry_store = Box::new(creator::EntryStore::new(entry_def, None));
    for i in 0..entry_count {
        entry_store.add_entry(creator::BasicEntry::new_from_schema(
            &entry_store.schema,
            None,
            HashMap::from([("V", jubako::Value::Unsigned(entry_value(i)))]),
        ));
    }
    let idx = creator.add_entry_store(entry_store);
    creator.create_index(
        "idx",
        Default::default(),
        0.into(),
        idx,
        entry_count.into(),
        EntryIdx::from(0).into(),
    );
    let mut file = std::fs::OpenOptions::new()
        .read(true)
        .write(true)
        .create(true)
        .truncate(true)
        .open(path)
        .unwrap();
    creator.finalize().unwrap().write(&mut file).unwrap()
}

fn check_entry_store(reader: Reader, entry_count: u32, ctx: &str) {
    let pack = Arc::new(DirectoryPack::new(reader).unwrap());
    let storage = pack.create_entry_storage();
    let store = storage.get_entry_store(0.into()).unwrap();
    for i in 0..entry_count {
        let slice = store.get_entry_reader(EntryIdx::from(i)).unwrap();
        let expected = entry_value(i).to_le_bytes();
        let ctx = format!("{ctx} entry#{i}");
        assert_eq!(slice.size(), Size::from(8usize), "{ctx}");
        assert_eq!(
            &*slice.get_slice(Offset::zero(), 8).unwrap(),
            &expected[..],
            "{ctx} get_slice"
        );
        if i < 40 || i % 97 == 0 || i + 3 >= entry_count {
            let region: ByteRegion = slice.clone().into();
            check_all_views(&region, &expected, &ctx);
            check_slice_basic(&slice, &expected, &ctx);
        }
    }
    assert!(store.get_entry_reader(EntryIdx::from(entry_count)).is_none());
}

#[test]
fn h08_directory_entries_small_pack_vec_source() {
    let dir = tmpdir();
    let path = dir.path().join("d.jbkd");
    build_directory_pack(&path, 20);
    assert!(std::fs::metadata(&path).unwrap().len() < 4096);
    check_entry_store(file_reader(&path), 20, "dir<4K file");
    check_entry_store(memory_reader(&path), 20, "dir<4K memory");
}

#[test]
fn h09_directory_entries_mmap_source() {
    let dir = tmpdir();
    let path = dir.path().join("d.jbkd");
    build_directory_pack(&path, 5000);
    assert!(std::fs::metadata(&path).unwrap().len() >= 4096);
    check_entry_store(file_reader(&path), 5000, "dir mmap file");
    check_entry_store(memory_reader(&path), 5000, "dir mmap memory");
}

#[test]
fn h10_directory_mmap_at_unaligned_offset_in_container() {
    let dir = tmpdir();
    let dpath = dir.path().join("d.jbkd");
    build_directory_pack(&dpath, 5000);
    let cpath = dir.path().join("c.jbkc");
    // a content pack of odd size before the directory pack => directory pack at an offset which
    // is not a multiple of the page size
    let blobs = vec![pattern(1, 4099), pattern(2, 13)];
    let input: Vec<_> = blobs.iter().map(|b| (b.clone(), Hint::No)).collect();
    build_content_pack(&cpath, creator::Compression::None, &input);
    let cont_path = dir.path().join("cont.jbk");
    jubako::tools::concat(&[&cpath, &dpath], utf8(&cont_path)).unwrap();
    let container = jubako::tools::open_pack(&cont_path).unwrap();
    assert_eq!(container.pack_count().into_u16(), 2);
    let mut seen_dir = false;
    let mut seen_content = false;
    for (_uuid, reader) in container.iter() {
        match DirectoryPack::new(reader.clone()) {
            Ok(_) => {
                seen_dir = true;
                check_entry_store(reader.clone(), 5000, "dir mmap in container");
            }
            Err(_) => {
                seen_content = true;
                let pack = ContentPack::new(reader.clone()).unwrap();
                check_content_pack(&pack, &blobs, "content in container with dir");
            }
        }
    }
    assert!(seen_dir && seen_content);
}

// ---------------------------------------------------------------------------------------------
// H11: schedules. Many threads share one source (FileSource has ONE file cursor behind a mutex,
// the compressed source is being decoded in the background) and read with interleaved streams.
// ---------------------------------------------------------------------------------------------
#[test]
fn h11_concurrent_views_share_a_source() {
    let mut comps = compressions();
    comps.push(("none", creator::Compression::None));
    for (name, comp) in comps {
        let dir = tmpdir();
        let path = dir.path().join("c.jbkc");
        let blobs: Vec<Vec<u8>> = (0..12u64)
            .map(|i| pattern(i + 1, 20_000 + 7919 * i as usize))
            .collect();
        let hint = if name == "none" { Hint::No } else { Hint::Yes };
        let input: Vec<_> = blobs.iter().map(|b| (b.clone(), hint)).collect();
        build_content_pack(&path, comp, &input);
        let pack = Arc::new(ContentPack::new(file_reader(&path)).unwrap());
        let blobs = Arc::new(blobs);
        let mut handles = vec![];
        for t in 0..8usize {
            let pack = Arc::clone(&pack);
            let blobs = Arc::clone(&blobs);
            let name = name.to_string();
            handles.push(std::thread::spawn(move || {
                for round in 0..3 {
                    for k in 0..blobs.len() {
                        let idx = (k * 5 + t + round) % blobs.len();
                        let blob = &blobs[idx];
                        let region = pack
                            .get_content(ContentIdx::from(idx as u32))
                            .unwrap()
                            .unwrap();
                        // two interleaved streams on the same region + a cut
                        let mut s1 = region.stream();
                        let o = blob.len() / 3;
                        let cut = region.cut(Offset::from(o), Size::from(blob.len() - o));
                        let mut s2 = cut.stream();
                        let mut v1 = Vec::new();
                        let mut v2 = Vec::new();
                        let mut b1 = vec![0u8; 100 + 37 * t];
                        let mut b2 = vec![0u8; 1500 + t];
                        loop {
                            let n1 = s1.read(&mut b1).unwrap();
                            v1.extend_from_slice(&b1[..n1]);
                            let n2 = s2.read(&mut b2).unwrap();
                            v2.extend_from_slice(&b2[..n2]);
                            assert_eq!(s1.offset() as usize, v1.len());
                            assert_eq!(s2.offset() as usize, v2.len());
                            if n1 == 0 && n2 == 0 {
                                break;
                            }
                        }
                        assert!(v1 == **blob, "{name} thread {t} blob {idx} stream 1");
                        assert!(v2 == blob[o..], "{name} thread {t} blob {idx} stream 2");
                    }
                }
            }));
        }
        for h in handles {
            h.join().unwrap();
        }
    }
}

// ---------------------------------------------------------------------------------------------
// H12: a stream outlives everything it was made from (region, pack, cluster cache):
//      the stream owns its source.
// ---------------------------------------------------------------------------------------------
#[test]
fn h12_stream_outlives_pack() {
    let mut comps = compressions();
    comps.push(("none", creator::Compression::None));
    for (name, comp) in comps {
        let dir = tmpdir();
        let path = dir.path().join("c.jbkc");
        let blobs = vec![pattern(1, 10), pattern(2, 200_000), pattern(3, 7)];
        let hint = if name == "none" { Hint::No } else { Hint::Yes };
        let input: Vec<_> = blobs.iter().map(|b| (b.clone(), hint)).collect();
        build_content_pack(&path, comp, &input);
        let (mut stream, mut stream2, region3) = {
            let pack = ContentPack::new(file_reader(&path)).unwrap();
            let region = pack.get_content(ContentIdx::from(1u32)).unwrap().unwrap();
            let slice = region.cut(Offset::from(100usize), Size::from(150_000usize));
            let r3: ByteRegion = slice.cut(Offset::from(5usize), Size::from(1000usize)).into();
            (slice.stream(), ByteStream::from(region.clone()), r3)
        };
        let mut v = Vec::new();
        stream.read_to_end(&mut v).unwrap();
        assert!(v == blobs[1][100..150_100], "{name}");
        let mut v = Vec::new();
        stream2.read_to_end(&mut v).unwrap();
        assert!(v == blobs[1], "{name}");
        assert_eq!(
            &*region3.get_slice(Offset::from(10usize), 20).unwrap(),
            &blobs[1][115..135],
            "{name}"
        );
    }
}

// ---------------------------------------------------------------------------------------------
// H13: Container API (manifest + directory + content in ONE file): Container::get_bytes gives
//      regions with a source which is the whole container file.
// ---------------------------------------------------------------------------------------------
fn build_single_file_container(
    dir: &Path,
    comp: creator::Compression,
    blobs: &[(Vec<u8>, Hint)],
    entry_count: u32,
) -> PathBuf {
    let cpath = dir.join("content.jbkc");
    let dpath = dir.join("directory.jbkd");
    let mpath = dir.join("manifest.jbkm");
    let content_info = build_content_pack(&cpath, comp, blobs);
    let dir_info = build_directory_pack(&dpath, entry_count);
    let mut creator = creator::ManifestPackCreator::new(
        jubako::VendorId::from([1, 0, 0, 0]),
        Default::default(),
    );
    creator.add_pack(dir_info, "directory.jbkd");
    creator.add_pack(content_info, "content.jbkc");
    let mut mfile = std::fs::OpenOptions::new()
        .read(true)
        .write(true)
        .create(true)
        .truncate(true)
        .open(&mpath)
        .unwrap();
    creator.finalize(&mut mfile).unwrap();
    drop(mfile);
    let out = dir.join("all.jbk");
    jubako::tools::concat(&[&cpath, &dpath, &mpath], utf8(&out)).unwrap();
    out
}

#[test]
fn h13_container_single_file_and_split() {
    let mut comps = compressions();
    comps.push(("none", creator::Compression::None));
    for (name, comp) in comps {
        let dir = tmpdir();
        let blobs = standard_blobs();
        let hint = if name == "none" { Hint::No } else { Hint::Yes };
        let input: Vec<_> = blobs.iter().map(|b| (b.clone(), hint)).collect();
        let all = build_single_file_container(dir.path(), comp, &input, 3000);
        for (kind, path) in [("single", all.clone()), ("split", dir.path().join("manifest.jbkm"))] {
            let container = jubako::reader::Container::new(&path).unwrap();
            for (idx, blob) in blobs.iter().enumerate() {
                let addr = jubako::ContentAddress::new(
                    jubako::PackId::from(1),
                    ContentIdx::from(idx as u32),
                );
                let region = match container.get_bytes(addr).unwrap().unwrap() {
                    jubako::reader::MayMissPack::FOUND(r) => r.unwrap(),
                    jubako::reader::MayMissPack::MISSING(_) => panic!("pack is missing"),
                };
                let ctx = format!("container {kind}/{name} blob#{idx}");
                assert_eq!(region.size(), Size::from(blob.len()), "{ctx}");
                check_stream_light(|| region.stream(), blob, &ctx);
                check_stream_light(|| ByteStream::from(region.clone()), blob, &ctx);
                check_nested(&region, blob, &ctx);
            }
            let store = container
                .get_entry_storage()
                .get_entry_store(0.into())
                .unwrap();
            for i in (0..3000u32).step_by(7) {
                let slice = store.get_entry_reader(EntryIdx::from(i)).unwrap();
                let expected = entry_value(i).to_le_bytes();
                check_slice_basic(&slice, &expected, &format!("container {kind}/{name} entry#{i}"));
                let region: ByteRegion = slice.into();
                check_nested(&region, &expected, &format!("container {kind}/{name} entry#{i}"));
            }
        }
    }
}

// ---------------------------------------------------------------------------------------------
// H14: more clusters than the cluster cache holds (40): a region obtained before its cluster is
//      evicted, and the region obtained after the cluster is loaded again, agree.
// ---------------------------------------------------------------------------------------------
#[test]
fn h14_cluster_cache_eviction() {
    let dir = tmpdir();
    let path = dir.path().join("c.jbkc");
    let per_cluster = 0xFFFusize;
    let nb_cluster = 45usize;
    let mut blobs = Vec::with_capacity(per_cluster * nb_cluster);
    for i in 0..per_cluster * nb_cluster {
        blobs.push(pattern(i as u64, i % 6));
    }
    let input: Vec<_> = blobs.iter().map(|b| (b.clone(), Hint::No)).collect();
    build_content_pack(&path, creator::Compression::None, &input);
    for (kind, reader) in [("file", file_reader(&path)), ("memory", memory_reader(&path))] {
        let pack = ContentPack::new(reader).unwrap();
        let probe = [1usize, 5, 4094, 4095, 4096, 8189, 8190, 8191];
        let early: Vec<ByteRegion> = probe
            .iter()
            .map(|i| pack.get_content(ContentIdx::from(*i as u32)).unwrap().unwrap())
            .collect();
        // touch every cluster (evicts the first ones), checking the first, last and middle blob
        for c in 0..nb_cluster {
            for k in [0usize, 1, per_cluster / 2, per_cluster - 2, per_cluster - 1] {
                let idx = c * per_cluster + k;
                let region = pack.get_content(ContentIdx::from(idx as u32)).unwrap().unwrap();
                let blob = &blobs[idx];
                let ctx = format!("{kind} evict blob#{idx}");
                assert_eq!(region.size(), Size::from(blob.len()), "{ctx}");
                check_stream_light(|| region.stream(), blob, &ctx);
                check_nested(&region, blob, &ctx);
            }
        }
        for (i, old) in probe.iter().zip(early.iter()) {
            let new = pack.get_content(ContentIdx::from(*i as u32)).unwrap().unwrap();
            let ctx = format!("{kind} evict reloaded blob#{i}");
            check_all_views(old, &blobs[*i], &ctx);
            check_all_views(&new, &blobs[*i], &ctx);
        }
    }
}

// ---------------------------------------------------------------------------------------------
// H15: empty contents at every position of a compressed cluster, and a compressed cluster made
//      only of empty contents (decoded size 0).
// ---------------------------------------------------------------------------------------------
#[test]
fn h15_empty_contents_in_compressed_clusters() {
    for (name, comp) in compressions() {
        let dir = tmpdir();
        for (case, sizes) in [
            ("only empties", vec![0usize, 0, 0]),
            ("one empty", vec![0]),
            ("edges", vec![0, 0, 5, 0, 4096, 0, 0, 1, 0]),
            ("one byte", vec![0, 1]),
        ] {
            let path = dir.path().join("c.jbkc");
            let blobs: Vec<Vec<u8>> = sizes
                .iter()
                .enumerate()
                .map(|(i, s)| pattern(i as u64 + 7, *s))
                .collect();
            let input: Vec<_> = blobs.iter().map(|b| (b.clone(), Hint::Yes)).collect();
            build_content_pack(&path, comp, &input);
            for (kind, reader) in [("file", file_reader(&path)), ("memory", memory_reader(&path))] {
                let pack = ContentPack::new(reader).unwrap();
                check_content_pack(&pack, &blobs, &format!("{kind}/{name}/{case}"));
            }
        }
    }
}

// ---------------------------------------------------------------------------------------------
// H16: first access on a fresh background decoder is exactly at / around the 4 KiB decoding
//      steps, and at the very end of the cluster.
// ---------------------------------------------------------------------------------------------
#[test]
fn h16_fresh_decoder_first_access_at_chunk_boundaries() {
    for (name, comp) in compressions() {
        let dir = tmpdir();
        let path = dir.path().join("c.jbkc");
        // blob 1 covers [3, 3 + 1 MiB) of the decoded cluster
        let blobs = vec![pattern(1, 3), pattern(2, 1 << 20), pattern(3, 4093), pattern(4, 1)];
        let input: Vec<_> = blobs.iter().map(|b| (b.clone(), Hint::Yes)).collect();
        build_content_pack(&path, comp, &input);
        let big = &blobs[1];
        for end_in_cluster in [
            4095usize, 4096, 4097, 8191, 8192, 8193, 65536, 65537, (1 << 20) - 1, 1 << 20, (1 << 20) + 3,
        ] {
            for via in 0..4 {
                // a new pack => a new decoder for every trial
                let pack = ContentPack::new(file_reader(&path)).unwrap();
                let region = pack.get_content(ContentIdx::from(1u32)).unwrap().unwrap();
                let end = end_in_cluster - 3; // relative to the blob
                let start = end.saturating_sub(17);
                let expected = &big[start..end];
                let ctx = format!("{name} end {end_in_cluster} via {via}");
                match via {
                    0 => assert_eq!(
                        &*region.get_slice(Offset::from(start), end - start).unwrap(),
                        expected,
                        "{ctx}"
                    ),
                    1 => {
                        let mut v = Vec::new();
                        region
                            .cut(Offset::from(start), Size::from(end - start))
                            .stream()
                            .read_to_end(&mut v)
                            .unwrap();
                        assert_eq!(v, expected, "{ctx}");
                    }
                    2 => {
                        let r: ByteRegion =
                            region.cut(Offset::from(start), Size::from(end - start)).into();
                        let mut s: ByteStream = r.into();
                        let mut v = vec![0u8; end - start];
                        s.read_exact(&mut v).unwrap();
                        assert_eq!(v, expected, "{ctx}");
                        assert_eq!(s.size_left(), 0);
                    }
                    _ => {
                        // stream from the beginning with one read of exactly `end` bytes
                        let mut s = region.stream();
                        let mut v = vec![0u8; end];
                        s.read_exact(&mut v).unwrap();
                        assert!(v == big[..end], "{ctx}");
                        assert_eq!(s.offset(), end as u64);
                        assert_eq!(s.size_left(), (big.len() - end) as u64);
                    }
                }
            }
        }
        // last blobs of the cluster first
        let pack = ContentPack::new(file_reader(&path)).unwrap();
        let region = pack.get_content(ContentIdx::from(3u32)).unwrap().unwrap();
        check_all_views(&region, &blobs[3], &format!("{name} last blob first"));
        let region = pack.get_content(ContentIdx::from(2u32)).unwrap().unwrap();
        check_all_views(&region, &blobs[2], &format!("{name} blob 2"));
    }
}

// ---------------------------------------------------------------------------------------------
// H17: two handles on the same content (clone of the region, region made from a slice of the
//      clone, stream made by each) advance independently: a stream is a cursor of its own.
// ---------------------------------------------------------------------------------------------
#[test]
fn h17_streams_are_independent_cursors() {
    let mut comps = compressions();
    comps.push(("none", creator::Compression::None));
    for (name, comp) in comps {
        let dir = tmpdir();
        let path = dir.path().join("c.jbkc");
        let blobs = vec![pattern(1, 777), pattern(2, 9000), pattern(3, 2)];
        let hint = if name == "none" { Hint::No } else { Hint::Yes };
        let input: Vec<_> = blobs.iter().map(|b| (b.clone(), hint)).collect();
        build_content_pack(&path, comp, &input);
        for (kind, reader) in [("file", file_reader(&path)), ("memory", memory_reader(&path))] {
            let pack = ContentPack::new(reader).unwrap();
            let region = pack.get_content(ContentIdx::from(1u32)).unwrap().unwrap();
            let clone = region.clone();
            let mut a = region.stream();
            let mut b = clone.stream();
            let mut c: ByteStream = ByteRegion::from(clone.as_slice()).into();
            let mut d = region.cut(Offset::from(1000usize), Size::from(8000usize)).stream();
            let (mut ba, mut bb, mut bc, mut bd) = (vec![0; 10], vec![0; 1500], vec![0; 3], vec![0; 4097]);
            let (mut pa, mut pb, mut pc, mut pd) = (0usize, 0usize, 0usize, 0usize);
            let e = &blobs[1];
            for _ in 0..200 {
                let n = a.read(&mut ba).unwrap();
                assert_eq!(&ba[..n], &e[pa..pa + n], "{kind}/{name} a");
                pa += n;
                let n = b.read(&mut bb).unwrap();
                assert_eq!(&bb[..n], &e[pb..pb + n], "{kind}/{name} b");
                pb += n;
                let n = c.read(&mut bc).unwrap();
                assert_eq!(&bc[..n], &e[pc..pc + n], "{kind}/{name} c");
                pc += n;
                let n = d.read(&mut bd).unwrap();
                assert_eq!(&bd[..n], &e[1000 + pd..1000 + pd + n], "{kind}/{name} d");
                pd += n;
                assert_eq!((a.offset(), b.offset(), c.offset(), d.offset()), (pa as u64, pb as u64, pc as u64, pd as u64));
                assert_eq!(a.size_left(), (e.len() - pa) as u64);
                assert_eq!(d.size_left(), (8000 - pd) as u64);
            }
            assert_eq!(pb, e.len());
            assert_eq!(pd, 8000);
        }
    }
}

// ---------------------------------------------------------------------------------------------
// H18: cluster tails at the offset-size boundaries (1/2/3 bytes offsets), raw and compressed,
//      with incompressible data so that the stored size is bigger than the decoded size.
// ---------------------------------------------------------------------------------------------
#[test]
fn h18_cluster_offset_size_boundaries() {
    let mut comps = compressions();
    comps.push(("none", creator::Compression::None));
    for (name, comp) in comps {
        let dir = tmpdir();
        for total in [254usize, 255, 256, 257, 65534, 65535, 65536, 65537] {
            let path = dir.path().join("c.jbkc");
            // three blobs, the last one ends exactly at `total`
            let sizes = [total / 3, 1, total - total / 3 - 1];
            let blobs: Vec<Vec<u8>> = sizes
                .iter()
                .enumerate()
                .map(|(i, s)| noise(i as u64 + total as u64, *s))
                .collect();
            let hint = if name == "none" { Hint::No } else { Hint::Yes };
            let input: Vec<_> = blobs.iter().map(|b| (b.clone(), hint)).collect();
            build_content_pack(&path, comp, &input);
            for (kind, reader) in [("file", file_reader(&path)), ("memory", memory_reader(&path))] {
                let pack = ContentPack::new(reader).unwrap();
                for (idx, blob) in blobs.iter().enumerate().rev() {
                    let region = pack
                        .get_content(ContentIdx::from(idx as u32))
                        .unwrap()
                        .unwrap();
                    let ctx = format!("{kind}/{name}/total {total} blob#{idx}");
                    assert_eq!(region.size(), Size::from(blob.len()), "{ctx}");
                    check_stream_light(|| region.stream(), blob, &ctx);
                    check_stream_light(|| ByteStream::from(region.clone()), blob, &ctx);
                    check_nested(&region, blob, &ctx);
                }
            }
        }
    }
}

// ---------------------------------------------------------------------------------------------
// H19: small (< 4 KiB) directory pack which is not at offset 0 of its file: the pack is read in
//      a private Vec whose offset 0 is the start of the pack.
// ---------------------------------------------------------------------------------------------
#[test]
fn h19_small_directory_pack_in_container() {
    let dir = tmpdir();
    let dpath = dir.path().join("d.jbkd");
    build_directory_pack(&dpath, 20);
    let cpath = dir.path().join("c.jbkc");
    let blobs = vec![pattern(1, 11), pattern(2, 13)];
    let input: Vec<_> = blobs.iter().map(|b| (b.clone(), Hint::No)).collect();
    build_content_pack(&cpath, creator::Compression::None, &input);
    let cont_path = dir.path().join("cont.jbk");
    jubako::tools::concat(&[&cpath, &dpath], utf8(&cont_path)).unwrap();
    for container in [
        jubako::tools::open_pack(&cont_path).unwrap(),
        jubako::reader::ContainerPack::new(memory_reader(&cont_path)).unwrap(),
    ] {
        let mut seen_dir = false;
        for (_uuid, reader) in container.iter() {
            if DirectoryPack::new(reader.clone()).is_ok() {
                seen_dir = true;
                check_entry_store(reader.clone(), 20, "small dir in container");
            } else {
                let pack = ContentPack::new(reader.clone()).unwrap();
                check_content_pack(&pack, &blobs, "content next to small dir");
            }
        }
        assert!(seen_dir);
    }
}

// ---------------------------------------------------------------------------------------------
// H20: schedule. Two FileSource built (public `FileSource::new(File)`) on two handles of the
//      SAME open file description (`File::try_clone`, e.g. an application which opens a
//      multi-pack file once and gives a handle to each worker). FileSource reads with
//      seek + read on the OS cursor (src/bases/io/file.rs:67-80, "TODO: Use read_at"); the
//      cursor is shared by the two handles but each FileSource has its own mutex, so two
//      threads move the cursor under each other between the seek and the read.
//      The library itself never shares a description (it always opens the path): the caller
//      has to do it. Single threaded use of the two sources is fine (every read seeks first).
// ---------------------------------------------------------------------------------------------
#[test]
fn h20_two_file_sources_sharing_one_file_description() {
    let dir = tmpdir();
    let path = dir.path().join("c.jbkc");
    let blobs: Vec<Vec<u8>> = (0..4u64).map(|i| noise(i + 1, 3_000_000)).collect();
    let input: Vec<_> = blobs.iter().map(|b| (b.clone(), Hint::No)).collect();
    build_content_pack(&path, creator::Compression::None, &input);

    // single threaded, interleaved: must be (and is) right
    {
        let f1 = std::fs::File::open(&path).unwrap();
        let f2 = f1.try_clone().unwrap();
        let p1 = ContentPack::new(Reader::from(FileSource::new(f1).unwrap())).unwrap();
        let p2 = ContentPack::new(Reader::from(FileSource::new(f2).unwrap())).unwrap();
        let r1 = p1.get_content(ContentIdx::from(1u32)).unwrap().unwrap();
        let r2 = p2.get_content(ContentIdx::from(2u32)).unwrap().unwrap();
        let (mut s1, mut s2) = (r1.stream(), r2.stream());
        let (mut b1, mut b2) = (vec![0u8; 100], vec![0u8; 4097]);
        let (mut o1, mut o2) = (0usize, 0usize);
        for _ in 0..300 {
            let n = s1.read(&mut b1).unwrap();
            assert_eq!(&b1[..n], &blobs[1][o1..o1 + n]);
            o1 += n;
            let n = s2.read(&mut b2).unwrap();
            assert_eq!(&b2[..n], &blobs[2][o2..o2 + n]);
            o2 += n;
        }
    }

    let f1 = std::fs::File::open(&path).unwrap();
    let f2 = f1.try_clone().unwrap();
    let blobs = Arc::new(blobs);
    // Packs are opened and clusters loaded one after the other (no concurrency yet)
    let packs: Vec<ContentPack> = [f1, f2]
        .into_iter()
        .map(|f| ContentPack::new(Reader::from(FileSource::new(f).unwrap())).unwrap())
        .collect();
    let regions: Vec<Vec<ByteRegion>> = packs
        .iter()
        .map(|p| {
            (0..blobs.len())
                .map(|i| p.get_content(ContentIdx::from(i as u32)).unwrap().unwrap())
                .collect()
        })
        .collect();
    let mut handles = vec![];
    for (t, regions) in regions.into_iter().enumerate() {
        let blobs = Arc::clone(&blobs);
        handles.push(std::thread::spawn(move || -> Vec<String> {
            let mut problems = vec![];
            for round in 0..20 {
                let idx = (round + t * 2) % blobs.len();
                let region = &regions[idx];
                let mut s = region.stream();
                let mut buf = vec![0u8; 100];
                let mut v = Vec::new();
                loop {
                    let n = s.read(&mut buf).unwrap();
                    if n == 0 {
                        break;
                    }
                    v.extend_from_slice(&buf[..n]);
                }
                if v != blobs[idx] {
                    let first = v.iter().zip(blobs[idx].iter()).position(|(a, b)| a != b);
                    problems.push(format!(
                        "thread {t}: stream of blob {idx} differs from the stored bytes (first difference at {first:?}, {} bytes read, size {})",
                        v.len(),
                        region.size().into_u64()
                    ));
                }
            }
            problems
        }));
    }
    let problems: Vec<String> = handles
        .into_iter()
        .flat_map(|h| h.join().unwrap())
        .collect();
    assert!(
        problems.is_empty(),
        "{} problems, first ones: {:#?}",
        problems.len(),
        &problems[..problems.len().min(4)]
    );
}
