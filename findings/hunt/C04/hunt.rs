//! Bug hunt for property C04:
//!   "Created packs verify; any later change to checksummed bytes makes the check fail".
//!
//! Every test PASSES when the property holds and FAILS when it is violated.
//!
//! Run with `TMPDIR=/tmp/wt/C04h/tmp cargo test --offline --test hunt_c04h [--release] [--features lz4,lzma]`.

use jubako as jbk;

use jbk::creator::{self, schema, Compression, ConcatMode, EntryStoreTrait};
use jbk::Pack;
use std::collections::HashMap;
use std::io::{Cursor, Read, Seek, SeekFrom, Write};
use std::panic::{catch_unwind, AssertUnwindSafe};
use std::path::{Path, PathBuf};
use std::sync::Arc;

const VENDOR: jbk::VendorId = jbk::VendorId::new([1, 2, 3, 4]);

/// `creator::CompHint` is not `Copy`: a copyable twin.
#[derive(Clone, Copy, Debug, PartialEq)]
enum CompHint {
    Detect,
    Yes,
    No,
}

impl CompHint {
    fn get(self) -> creator::CompHint {
        match self {
            Self::Detect => creator::CompHint::Detect,
            Self::Yes => creator::CompHint::Yes,
            Self::No => creator::CompHint::No,
        }
    }
}

// ---------------------------------------------------------------------------------------------
// Outcome of a check
// ---------------------------------------------------------------------------------------------

#[derive(Debug, Clone, PartialEq)]
enum Outcome {
    True,
    False,
    Err(String),
    Panic(String),
}

impl Outcome {
    fn is_true(&self) -> bool {
        matches!(self, Outcome::True)
    }
}

thread_local! {
    static QUIET: std::cell::Cell<bool> = const { std::cell::Cell::new(false) };
}

fn install_hook() {
    static ONCE: std::sync::Once = std::sync::Once::new();
    ONCE.call_once(|| {
        let default = std::panic::take_hook();
        std::panic::set_hook(Box::new(move |info| {
            if !QUIET.with(|q| q.get()) {
                default(info);
            }
        }));
    });
}

fn guarded<F: FnOnce() -> Result<bool, String>>(f: F) -> Outcome {
    install_hook();
    QUIET.with(|q| q.set(true));
    let r = catch_unwind(AssertUnwindSafe(f));
    QUIET.with(|q| q.set(false));
    match r {
        Ok(Ok(true)) => Outcome::True,
        Ok(Ok(false)) => Outcome::False,
        Ok(Err(e)) => Outcome::Err(e),
        Err(p) => {
            let msg = if let Some(s) = p.downcast_ref::<&str>() {
                s.to_string()
            } else if let Some(s) = p.downcast_ref::<String>() {
                s.clone()
            } else {
                "<panic>".to_string()
            };
            Outcome::Panic(msg)
        }
    }
}

fn es<E: std::fmt::Display>(e: E) -> String {
    format!("{e}")
}

/// The check of the whole container, as `Container::check` does it.
fn container_check(main: &Path) -> Outcome {
    guarded(|| {
        let c = jbk::reader::Container::new(main).map_err(es)?;
        c.check().map_err(es)
    })
}

/// The check of one file, as `jbk check <file>` does it.
fn file_check(file: &Path) -> Outcome {
    guarded(|| {
        let p = jbk::tools::open_pack(file).map_err(es)?;
        p.check().map_err(es)
    })
}

/// The check of one pack (`Pack::check`).
fn pack_check(file: &Path, span: &Span) -> Outcome {
    guarded(|| {
        let cp = jbk::tools::open_pack(file).map_err(es)?;
        let uuid = uuid::Uuid::from_bytes(span.uuid);
        let reader = cp
            .get_pack_reader(&uuid)
            .ok_or_else(|| "pack not found in file".to_string())?;
        match span.kind {
            b'm' => jbk::reader::ManifestPack::new(reader)
                .map_err(es)?
                .check()
                .map_err(es),
            b'd' => jbk::reader::DirectoryPack::new(reader)
                .map_err(es)?
                .check()
                .map_err(es),
            b'c' => jbk::reader::ContentPack::new(reader)
                .map_err(es)?
                .check()
                .map_err(es),
            k => Err(format!("unknown kind {k}")),
        }
    })
}

// ---------------------------------------------------------------------------------------------
// Raw layout helpers (the test locates the packs by itself)
// ---------------------------------------------------------------------------------------------

const CHECK_BLOCK: usize = 33 + 4;

#[derive(Clone, Debug)]
struct Span {
    kind: u8,
    start: usize,
    size: usize,
    check_pos: usize,
    uuid: [u8; 16],
}

impl Span {
    /// End (exclusive, absolute) of checked range + check block.
    fn covered_end(&self) -> usize {
        self.start + self.check_pos + CHECK_BLOCK
    }
}

fn le64(b: &[u8], p: usize) -> usize {
    u64::from_le_bytes(b[p..p + 8].try_into().unwrap()) as usize
}
fn le16(b: &[u8], p: usize) -> usize {
    u16::from_le_bytes(b[p..p + 2].try_into().unwrap()) as usize
}

fn span_at(b: &[u8], start: usize) -> Span {
    assert_eq!(&b[start..start + 3], b"jbk", "no pack at {start}");
    Span {
        kind: b[start + 3],
        start,
        size: le64(b, start + 32),
        check_pos: le64(b, start + 40),
        uuid: b[start + 10..start + 26].try_into().unwrap(),
    }
}

/// All the (non container) packs stored in a file.
fn spans(b: &[u8]) -> Vec<Span> {
    spans_from(b, 0)
}

fn spans_from(b: &[u8], origin: usize) -> Vec<Span> {
    let top = span_at(b, origin);
    if top.kind == b'C' {
        let locpos = origin + le64(b, origin + 64);
        let count = le16(b, origin + 72);
        (0..count)
            .map(|i| {
                let o = locpos + 36 * i;
                span_at(b, origin + le64(b, o + 24))
            })
            .collect()
    } else {
        vec![top]
    }
}

/// Absolute ranges of a manifest pack which are exempt (location + crc of each pack info).
fn exempt_ranges(b: &[u8], span: &Span) -> Vec<(usize, usize)> {
    if span.kind != b'm' {
        return vec![];
    }
    let n = le16(b, span.start + 64);
    let first = span.start + span.check_pos - n * 256;
    (0..n)
        .map(|k| (first + k * 256 + 38, first + (k + 1) * 256))
        .collect()
}

fn is_exempt(ex: &[(usize, usize)], pos: usize) -> bool {
    ex.iter().any(|(a, b)| pos >= *a && pos < *b)
}

/// The CRC used by jubako blocks (CRC-32C polynomial, not reflected, init all ones, no xorout),
/// stored big endian after the block.
fn jbk_crc(data: &[u8]) -> [u8; 4] {
    let mut crc: u32 = 0xFFFF_FFFF;
    for &b in data {
        crc ^= (b as u32) << 24;
        for _ in 0..8 {
            crc = if crc & 0x8000_0000 != 0 {
                (crc << 1) ^ 0x1EDC_6F41
            } else {
                crc << 1
            };
        }
    }
    crc.to_be_bytes()
}

fn poke(file: &Path, pos: usize, data: &[u8]) {
    let mut f = std::fs::OpenOptions::new().write(true).open(file).unwrap();
    f.seek(SeekFrom::Start(pos as u64)).unwrap();
    f.write_all(data).unwrap();
    f.flush().unwrap();
}

// ---------------------------------------------------------------------------------------------
// Creation helpers
// ---------------------------------------------------------------------------------------------

type PName = &'static str;
type VName = &'static str;
type EntryType = creator::BasicEntry<PName, VName>;
type EStore = creator::EntryStore<PName, VName, EntryType>;

struct Store {
    value_store: creator::StoreHandle,
    entry_store: Box<EStore>,
    count: u32,
}

impl Store {
    fn new(indexed: bool) -> Self {
        let value_store = if indexed {
            creator::ValueStore::new_indexed()
        } else {
            creator::ValueStore::new_plain(None)
        };
        let schema = schema::Schema::<PName, VName>::new(
            schema::CommonProperties::new(vec![
                schema::Property::new_array(0, value_store.clone(), "name"),
                schema::Property::new_content_address("content"),
                schema::Property::new_uint("n"),
            ]),
            vec![],
            None,
        );
        Self {
            value_store,
            entry_store: Box::new(creator::EntryStore::new(schema, None)),
            count: 0,
        }
    }

    fn add(&mut self, name: &str, addr: jbk::ContentAddress, n: u64) {
        let entry = EntryType::new_from_schema(
            &self.entry_store.schema,
            None,
            HashMap::from([
                ("name", jbk::Value::Array(name.as_bytes().into())),
                ("content", jbk::Value::Content(addr)),
                ("n", jbk::Value::Unsigned(n)),
            ]),
        );
        self.entry_store.add_entry(entry);
        self.count += 1;
    }

    fn fill(self, directory_pack: &mut creator::DirectoryPackCreator) {
        directory_pack.add_value_store(self.value_store);
        let id = directory_pack.add_entry_store(self.entry_store);
        directory_pack.create_index(
            "main",
            Default::default(),
            0.into(),
            id,
            self.count.into(),
            jbk::EntryIdx::from(0).into(),
        );
    }
}

impl EntryStoreTrait for Store {
    fn finalize(self: Box<Self>, directory_pack: &mut creator::DirectoryPackCreator) {
        (*self).fill(directory_pack)
    }
}

fn utf8(p: &Path) -> jbk::Utf8PathBuf {
    jbk::Utf8PathBuf::from_path_buf(p.to_path_buf()).unwrap()
}

/// A deterministic pseudo random (incompressible) buffer.
fn noise(len: usize, seed: u64) -> Vec<u8> {
    let mut s = seed.wrapping_mul(0x9E37_79B9_7F4A_7C15) | 1;
    (0..len)
        .map(|_| {
            s ^= s << 13;
            s ^= s >> 7;
            s ^= s << 17;
            (s >> 24) as u8
        })
        .collect()
}

fn text(len: usize) -> Vec<u8> {
    b"the quick brown fox jumps over the lazy dog. "
        .iter()
        .cycle()
        .take(len)
        .copied()
        .collect()
}

/// Build a container with `BasicCreator`. Return the path of the main file.
fn build_basic(
    dir: &Path,
    mode: ConcatMode,
    compression: Compression,
    hint: CompHint,
    contents: &[Vec<u8>],
    extra: Option<&[Vec<u8>]>,
) -> PathBuf {
    let out = dir.join("arch.jbk");
    let mut c =
        creator::BasicCreator::new(utf8(&out), mode, VENDOR, compression, Arc::new(())).unwrap();
    let mut store = Box::new(Store::new(false));
    for (i, data) in contents.iter().enumerate() {
        let addr = c
            .add_content(Box::new(Cursor::new(data.clone())), hint.get())
            .unwrap();
        store.add(&format!("entry{i}"), addr, i as u64);
    }
    let mut extras = vec![];
    if let Some(extra) = extra {
        let f: Box<dyn creator::PackRecipient> =
            creator::AtomicOutFile::new(utf8(&dir.join("extra.jbkc"))).unwrap();
        let mut e = creator::ContentPackCreator::new_from_output(
            f,
            jbk::PackId::from(2),
            VENDOR,
            Default::default(),
            compression,
        )
        .unwrap();
        for (i, data) in extra.iter().enumerate() {
            let addr = e
                .add_content(Box::new(Cursor::new(data.clone())), hint.get())
                .unwrap();
            store.add(&format!("extra{i}"), addr, 1000 + i as u64);
        }
        extras.push(e);
    }
    c.finalize(store, extras).unwrap();
    out
}

fn files_in(dir: &Path) -> Vec<PathBuf> {
    let mut v: Vec<PathBuf> = std::fs::read_dir(dir)
        .unwrap()
        .map(|e| e.unwrap().path())
        .filter(|p| p.is_file())
        .collect();
    v.sort();
    v
}

struct Manual {
    manifest: PathBuf,
    directory: PathBuf,
    content: PathBuf,
}

/// Build a container "by hand": three raw pack files (no container pack).
fn build_manual(dir: &Path, compression: Compression, contents: &[Vec<u8>]) -> Manual {
    let content_path = dir.join("raw.jbkc");
    let directory_path = dir.join("raw.jbkd");
    let manifest_path = dir.join("raw.jbkm");

    let mut content_pack = creator::ContentPackCreator::new(
        utf8(&content_path),
        jbk::PackId::from(1),
        VENDOR,
        Default::default(),
        compression,
    )
    .unwrap();
    let mut directory_pack =
        creator::DirectoryPackCreator::new(jbk::PackId::from(0), VENDOR, Default::default());
    let mut store = Store::new(true);
    for (i, data) in contents.iter().enumerate() {
        let addr = content_pack
            .add_content(Box::new(Cursor::new(data.clone())), CompHint::Detect.get())
            .unwrap();
        store.add(&format!("entry{i}"), addr, i as u64);
    }
    store.fill(&mut directory_pack);

    let mut directory_file = std::fs::OpenOptions::new()
        .read(true)
        .write(true)
        .create(true)
        .truncate(true)
        .open(&directory_path)
        .unwrap();
    let directory_info = directory_pack
        .finalize()
        .unwrap()
        .write(&mut directory_file)
        .unwrap();
    let (_f, content_info) = content_pack.finalize().unwrap();

    let mut manifest = creator::ManifestPackCreator::new(VENDOR, Default::default());
    manifest.add_pack(directory_info, "raw.jbkd");
    manifest.add_pack(content_info, "raw.jbkc");
    let mut manifest_file = std::fs::OpenOptions::new()
        .read(true)
        .write(true)
        .create(true)
        .truncate(true)
        .open(&manifest_path)
        .unwrap();
    manifest.finalize(&mut manifest_file).unwrap();
    Manual {
        manifest: manifest_path,
        directory: directory_path,
        content: content_path,
    }
}

// ---------------------------------------------------------------------------------------------
// The generic "alter and check" engine
// ---------------------------------------------------------------------------------------------

#[derive(Default)]
struct Report {
    violations: Vec<String>,
    panics: Vec<String>,
    tried: usize,
}

impl Report {
    fn note(&mut self, what: &str, o: Outcome) {
        if o.is_true() {
            self.violations.push(what.to_string());
        } else if let Outcome::Panic(m) = &o {
            if self.panics.len() < 20 {
                self.panics.push(format!("{what}: {m}"));
            }
        }
    }

    fn finish(self, title: &str) {
        eprintln!(
            "[{title}] {} alterations tried, {} accepted, {} panics",
            self.tried,
            self.violations.len(),
            self.panics.len()
        );
        for p in self.panics.iter().take(5) {
            eprintln!("[{title}] panic: {p}");
        }
        assert!(
            self.violations.is_empty(),
            "[{title}] {} alterations were accepted by a check, first ones: {:#?}",
            self.violations.len(),
            &self.violations[..self.violations.len().min(12)]
        );
    }
}

/// Positions (absolute) to alter for one pack.
fn positions(b: &[u8], span: &Span, exhaustive_limit: usize) -> Vec<usize> {
    let ex = exempt_ranges(b, span);
    let begin = span.start;
    let end = span.covered_end();
    let mut v = vec![];
    if end - begin <= exhaustive_limit {
        v.extend(begin..end);
    } else {
        // Head, tail and a stride in the middle
        v.extend(begin..begin + 192);
        v.extend(end - 700..end);
        let stride = ((end - begin) / 600).max(1);
        v.extend((begin + 192..end - 700).step_by(stride));
        for edge in [4096usize, 65535, 65536, 1 << 16, 1 << 20, 1 << 24] {
            for d in [0usize, 1] {
                let p = begin + edge - d;
                if p > begin && p < end {
                    v.push(p);
                }
            }
        }
    }
    v.retain(|p| !is_exempt(&ex, *p));
    v.sort();
    v.dedup();
    v
}

/// Alter one byte at a time in every pack of `file` and ask the three checks.
fn flip_all(
    report: &mut Report,
    main: &Path,
    file: &Path,
    patterns: &[u8],
    exhaustive_limit: usize,
    with_container_check: bool,
) {
    let orig = std::fs::read(file).unwrap();
    let origin = if &orig[..3] == b"jbk" {
        0
    } else {
        // The pack is at the end of the file (found by its tail header).
        let tail: Vec<u8> = orig[orig.len() - 64..].iter().rev().copied().collect();
        orig.len() - le64(&tail, 32)
    };
    for span in spans_from(&orig, origin) {
        for pos in positions(&orig, &span, exhaustive_limit) {
            for pat in patterns {
                report.tried += 1;
                poke(file, pos, &[orig[pos] ^ pat]);
                let tag = format!(
                    "{} pack '{}' at +{} (abs {pos}) xor {pat:#x}",
                    file.file_name().unwrap().to_string_lossy(),
                    span.kind as char,
                    pos - span.start
                );
                if with_container_check {
                    report.note(&format!("Container::check {tag}"), container_check(main));
                }
                if origin == 0 {
                    report.note(&format!("ContainerPack::check {tag}"), file_check(file));
                    report.note(&format!("Pack::check {tag}"), pack_check(file, &span));
                }
            }
            poke(file, pos, &[orig[pos]]);
        }
    }
    assert_eq!(std::fs::read(file).unwrap(), orig);
}

fn all_compressions() -> Vec<Compression> {
    vec![
        Compression::None,
        #[cfg(feature = "zstd")]
        Compression::zstd(),
        #[cfg(feature = "lz4")]
        Compression::lz4(),
        #[cfg(feature = "lzma")]
        Compression::lzma(),
    ]
}

fn small_contents() -> Vec<Vec<u8>> {
    vec![
        b"hello".to_vec(),
        vec![],
        text(300),
        noise(257, 7),
        vec![0u8; 256],
    ]
}

fn assert_pristine(main: &Path, dir: &Path, ctx: &str) {
    assert_eq!(
        container_check(main),
        Outcome::True,
        "{ctx}: Container::check of a pristine container"
    );
    for f in files_in(dir) {
        let b = std::fs::read(&f).unwrap();
        if b.len() < 64 || &b[..3] != b"jbk" {
            continue;
        }
        assert_eq!(
            file_check(&f),
            Outcome::True,
            "{ctx}: ContainerPack::check of pristine {f:?}"
        );
        for span in spans(&b) {
            assert_eq!(
                pack_check(&f, &span),
                Outcome::True,
                "{ctx}: Pack::check of pristine pack {} of {f:?}",
                span.kind as char
            );
            // The declared size is coherent with what the test believes about the layout.
            assert_eq!(span.size, span.check_pos + CHECK_BLOCK + 64);
        }
    }
}

// ---------------------------------------------------------------------------------------------
// H1: every created container verifies (all packagings, compressions, a range of sizes)
// ---------------------------------------------------------------------------------------------

#[test]
fn h01_pristine_everything_verifies() {
    let content_sets: Vec<(&str, Vec<Vec<u8>>)> = vec![
        ("no content", vec![]),
        ("one empty content", vec![vec![]]),
        ("small", small_contents()),
        (
            "boundaries",
            vec![
                noise(255, 1),
                noise(256, 2),
                text(65535),
                text(65536),
                noise(65537, 3),
                vec![7],
            ],
        ),
        ("several clusters", vec![noise(3 << 20, 4), text(5 << 20), noise(1 << 20, 5)]),
    ];
    for mode in [ConcatMode::OneFile, ConcatMode::TwoFiles, ConcatMode::NoConcat] {
        for comp in all_compressions() {
            for hint in [CompHint::Detect, CompHint::Yes, CompHint::No] {
                for (name, contents) in &content_sets {
                    if contents.len() == 3 && !matches!(hint, CompHint::Detect) {
                        continue; // big one: once per compression is enough
                    }
                    let dir = tempfile::tempdir().unwrap();
                    let main = build_basic(dir.path(), mode, comp, hint, contents, None);
                    assert_pristine(
                        &main,
                        dir.path(),
                        &format!("mode {} / {comp:?} / {name}", mode as u8),
                    );
                }
            }
        }
    }
}

#[test]
fn h01b_pristine_manual_and_extra_pack() {
    for comp in all_compressions() {
        let dir = tempfile::tempdir().unwrap();
        let m = build_manual(dir.path(), comp, &small_contents());
        assert_pristine(&m.manifest, dir.path(), &format!("manual {comp:?}"));

        let dir = tempfile::tempdir().unwrap();
        let main = build_basic(
            dir.path(),
            ConcatMode::OneFile,
            comp,
            CompHint::Detect,
            &small_contents(),
            Some(&[text(1000), noise(100, 3)]),
        );
        assert_pristine(&main, dir.path(), &format!("extra {comp:?}"));
    }
}

// ---------------------------------------------------------------------------------------------
// H2: one altered byte, every position of every pack, every packaging (no compression)
// ---------------------------------------------------------------------------------------------

fn flip_basic(mode: ConcatMode, comp: Compression, hint: CompHint, title: &str) {
    let dir = tempfile::tempdir().unwrap();
    let main = build_basic(
        dir.path(),
        mode,
        comp,
        hint,
        &small_contents(),
        Some(&[text(100)]),
    );
    assert_pristine(&main, dir.path(), title);
    let mut report = Report::default();
    for f in files_in(dir.path()) {
        flip_all(&mut report, &main, &f, &[0x01, 0xFF], 64 << 10, true);
    }
    assert_pristine(&main, dir.path(), title);
    report.finish(title);
}

#[test]
fn h02_single_byte_onefile() {
    flip_basic(
        ConcatMode::OneFile,
        Compression::None,
        CompHint::Detect,
        "onefile/none",
    );
}

#[test]
fn h03_single_byte_twofiles() {
    flip_basic(
        ConcatMode::TwoFiles,
        Compression::None,
        CompHint::Detect,
        "twofiles/none",
    );
}

#[test]
fn h04_single_byte_noconcat() {
    flip_basic(
        ConcatMode::NoConcat,
        Compression::None,
        CompHint::Detect,
        "noconcat/none",
    );
}

// H3: same with every compression (the check never decompresses, so no decoder thread is involved)
#[test]
fn h05_single_byte_compressed() {
    for comp in all_compressions() {
        if let Compression::None = comp {
            continue;
        }
        flip_basic(
            ConcatMode::OneFile,
            comp,
            CompHint::Yes,
            &format!("onefile/{comp:?}"),
        );
    }
}

// H4: raw packs (no container pack at all), found through FsLocator
#[test]
fn h06_single_byte_manual_raw_packs() {
    let dir = tempfile::tempdir().unwrap();
    let m = build_manual(dir.path(), Compression::None, &small_contents());
    assert_pristine(&m.manifest, dir.path(), "manual");
    let mut report = Report::default();
    for f in [&m.manifest, &m.directory, &m.content] {
        flip_all(&mut report, &m.manifest, f, &[0x01, 0x80, 0xFF], 64 << 10, true);
    }
    report.finish("manual raw packs");
}

// H5: big packs (several clusters, > 64KiB, > 2^24): sampled positions + boundaries
#[test]
fn h07_single_byte_big_pack() {
    let dir = tempfile::tempdir().unwrap();
    let contents = vec![noise(17 << 20, 11), text(70000), noise(65536, 12)];
    let main = build_basic(
        dir.path(),
        ConcatMode::TwoFiles,
        Compression::None,
        CompHint::No,
        &contents,
        None,
    );
    assert_pristine(&main, dir.path(), "big");
    let mut report = Report::default();
    for f in files_in(dir.path()) {
        // Only the check of the pack and of its file here (hashing 17MiB three times per
        // alteration would be too long); Container::check is sampled below.
        flip_all(&mut report, &main, &f, &[0xFF], 16 << 10, false);
    }
    // Container::check on a few positions of the content pack
    let cfile = dir.path().join("arch.jbkc");
    let orig = std::fs::read(&cfile).unwrap();
    let span = spans(&orig)
        .into_iter()
        .find(|s| s.kind == b'c')
        .expect("content pack");
    for off in [
        0usize,
        63,
        64,
        127,
        128,
        65535,
        65536,
        (1 << 24) - 1,
        1 << 24,
        span.check_pos - 1,
        span.check_pos,
        span.check_pos + 1,
        span.check_pos + 36,
    ] {
        let pos = span.start + off;
        report.tried += 1;
        poke(&cfile, pos, &[orig[pos] ^ 0x10]);
        report.note(
            &format!("Container::check big content pack +{off}"),
            container_check(&main),
        );
        poke(&cfile, pos, &[orig[pos]]);
    }
    report.finish("big pack");
}

// ---------------------------------------------------------------------------------------------
// H6: longer alterations: zeroed / overwritten windows (sector like damages)
// ---------------------------------------------------------------------------------------------

#[test]
fn h08_windows_zeroed_or_filled() {
    for mode in [ConcatMode::OneFile, ConcatMode::NoConcat] {
        let dir = tempfile::tempdir().unwrap();
        let main = build_basic(
            dir.path(),
            mode,
            Compression::None,
            CompHint::Detect,
            &[text(3000), noise(3000, 3), vec![0u8; 600]],
            None,
        );
        let mut report = Report::default();
        for f in files_in(dir.path()) {
            let orig = std::fs::read(&f).unwrap();
            for span in spans(&orig) {
                let ex = exempt_ranges(&orig, &span);
                for win in [2usize, 4, 8, 37, 64, 128, 256, 512] {
                    let mut pos = span.start;
                    while pos + win <= span.covered_end() {
                        for fill in [0x00u8, 0xFF] {
                            let mut new = orig[pos..pos + win].to_vec();
                            let mut changed = false;
                            for (i, b) in new.iter_mut().enumerate() {
                                if !is_exempt(&ex, pos + i) && *b != fill {
                                    *b = fill;
                                    changed = true;
                                }
                            }
                            if !changed {
                                continue;
                            }
                            report.tried += 1;
                            poke(&f, pos, &new);
                            let tag = format!(
                                "{:?} pack {} window {win}@+{} fill {fill:#x}",
                                f.file_name().unwrap(),
                                span.kind as char,
                                pos - span.start
                            );
                            report.note(&format!("Container::check {tag}"), container_check(&main));
                            report.note(&format!("ContainerPack::check {tag}"), file_check(&f));
                            report.note(&format!("Pack::check {tag}"), pack_check(&f, &span));
                            poke(&f, pos, &orig[pos..pos + win]);
                        }
                        pos += win.max(16) - 3;
                    }
                }
            }
            assert_eq!(std::fs::read(&f).unwrap(), orig);
        }
        report.finish("windows");
    }
}

// H7: a whole checked structure replaced by the same structure of another (valid) container:
// every block carries a valid CRC, only the pack digest can see it.
#[test]
fn h09_blocks_transplanted_from_a_sibling_container() {
    let dir_a = tempfile::tempdir().unwrap();
    let dir_b = tempfile::tempdir().unwrap();
    let a = build_manual(dir_a.path(), Compression::None, &small_contents());
    let mut other = small_contents();
    other[0] = b"HELLO".to_vec();
    let b = build_manual(dir_b.path(), Compression::None, &other);

    let mut report = Report::default();
    for (fa, fb) in [
        (&a.content, &b.content),
        (&a.directory, &b.directory),
        (&a.manifest, &b.manifest),
    ] {
        let oa = std::fs::read(fa).unwrap();
        let ob = std::fs::read(fb).unwrap();
        assert_eq!(oa.len(), ob.len(), "the two siblings have the same layout");
        let span = span_at(&oa, 0);
        // The kind specific header (64..128) of b, which differs only if layouts differ,
        // then any 64 bytes aligned window that differs.
        let mut pos = 64;
        while pos + 64 <= span.check_pos {
            if oa[pos..pos + 64] != ob[pos..pos + 64] {
                let ex = exempt_ranges(&oa, &span);
                if !(pos..pos + 64).any(|p| is_exempt(&ex, p)) {
                    report.tried += 1;
                    poke(fa, pos, &ob[pos..pos + 64]);
                    let tag = format!("{:?} window 64@{pos} from sibling", fa.file_name().unwrap());
                    report.note(&format!("Container::check {tag}"), container_check(&a.manifest));
                    report.note(&format!("ContainerPack::check {tag}"), file_check(fa));
                    report.note(&format!("Pack::check {tag}"), pack_check(fa, &span));
                    poke(fa, pos, &oa[pos..pos + 64]);
                }
            }
            pos += 64;
        }
        // The whole check block of the sibling (valid CRC, digest of other bytes)
        report.tried += 1;
        let cb = span.check_pos;
        poke(fa, cb, &ob[cb..cb + CHECK_BLOCK]);
        let tag = format!("{:?} check block from sibling", fa.file_name().unwrap());
        report.note(&format!("Container::check {tag}"), container_check(&a.manifest));
        report.note(&format!("ContainerPack::check {tag}"), file_check(fa));
        report.note(&format!("Pack::check {tag}"), pack_check(fa, &span));
        poke(fa, cb, &oa[cb..cb + CHECK_BLOCK]);
    }
    assert!(report.tried > 3);
    report.finish("transplant");
}

// ---------------------------------------------------------------------------------------------
// H8: set_location only touches exempt bytes: the check still passes, and still detects
// ---------------------------------------------------------------------------------------------

#[test]
fn h10_set_location_keeps_the_check_and_the_detection() {
    for len in [0usize, 1, 8, 100, 212, 213] {
        let dir = tempfile::tempdir().unwrap();
        let m = build_manual(dir.path(), Compression::None, &small_contents());
        let bytes = std::fs::read(&m.content).unwrap();
        let uuid = uuid::Uuid::from_bytes(span_at(&bytes, 0).uuid);

        // Move the content pack to a place named with `len` chars.
        let new_name: String = if len == 0 {
            String::new()
        } else {
            let mut s = "d/".repeat((len - 1) / 2);
            while s.len() < len {
                s.push('c');
            }
            s
        };
        assert_eq!(new_name.len(), len);
        let before = std::fs::read(&m.manifest).unwrap();
        let r = jbk::tools::set_location(&m.manifest, uuid, new_name.as_str().into()).unwrap();
        assert!(r.is_some());
        let after = std::fs::read(&m.manifest).unwrap();
        // Only exempt bytes have changed
        let span = span_at(&after, 0);
        let ex = exempt_ranges(&after, &span);
        for (i, (x, y)) in before.iter().zip(after.iter()).enumerate() {
            assert!(
                x == y || is_exempt(&ex, i),
                "set_location changed the checked byte {i}"
            );
        }
        assert_eq!(before.len(), after.len());

        if len > 0 {
            let target = dir.path().join(&new_name);
            std::fs::create_dir_all(target.parent().unwrap()).unwrap();
            std::fs::rename(&m.content, &target).unwrap();
            assert_eq!(
                file_check(&m.manifest),
                Outcome::True,
                "manifest after set_location({len})"
            );
            assert_eq!(
                container_check(&m.manifest),
                Outcome::True,
                "container after set_location({len})"
            );
            // The moved pack is really found (not skipped as missing): altering it is seen.
            let orig = std::fs::read(&target).unwrap();
            poke(&target, 200, &[orig[200] ^ 1]);
            assert!(
                !container_check(&m.manifest).is_true(),
                "alteration of the moved pack (location of {len} bytes) is not seen"
            );
            poke(&target, 200, &[orig[200]]);
        } else {
            assert_eq!(file_check(&m.manifest), Outcome::True);
        }

        // And the manifest still detects alterations of its checked bytes
        let mut report = Report::default();
        flip_all(&mut report, &m.manifest, &m.manifest, &[0x04], 64 << 10, false);
        report.finish(&format!("after set_location({len})"));
    }
}

// ---------------------------------------------------------------------------------------------
// H9: many packs (more than 255 / 256 pack infos), large pack ids
// ---------------------------------------------------------------------------------------------

#[test]
fn h11_manifest_with_many_packs() {
    let dir = tempfile::tempdir().unwrap();
    let n_content = 258usize;

    let mut directory_pack =
        creator::DirectoryPackCreator::new(jbk::PackId::from(0), VENDOR, Default::default());
    let mut store = Store::new(false);
    let mut infos = vec![];
    for i in 0..n_content {
        let pack_id: u16 = match i {
            0 => 1,
            1 => 255,
            2 => 256,
            3 => 65535,
            4 => 65534,
            _ => 1000 + i as u16,
        };
        let name = format!("c{i}.jbkc");
        let mut cp = creator::ContentPackCreator::new(
            utf8(&dir.path().join(&name)),
            jbk::PackId::from(pack_id),
            VENDOR,
            Default::default(),
            Compression::None,
        )
        .unwrap();
        let addr = cp
            .add_content(
                Box::new(Cursor::new(format!("content {i}").into_bytes())),
                CompHint::No.get(),
            )
            .unwrap();
        store.add(&format!("e{i}"), addr, i as u64);
        let (_f, info) = cp.finalize().unwrap();
        infos.push((info, name));
    }
    store.fill(&mut directory_pack);
    let dpath = dir.path().join("many.jbkd");
    let mut dfile = std::fs::OpenOptions::new()
        .read(true)
        .write(true)
        .create(true)
        .truncate(true)
        .open(&dpath)
        .unwrap();
    let dinfo = directory_pack.finalize().unwrap().write(&mut dfile).unwrap();

    let mut manifest = creator::ManifestPackCreator::new(VENDOR, Default::default());
    // The directory pack is neither first nor last
    let mut dinfo = Some(dinfo);
    for (i, (info, name)) in infos.into_iter().enumerate() {
        if i == 130 {
            manifest.add_pack(dinfo.take().unwrap(), "many.jbkd");
        }
        manifest.add_pack(info, name);
    }
    let mpath = dir.path().join("many.jbkm");
    let mut mfile = std::fs::OpenOptions::new()
        .read(true)
        .write(true)
        .create(true)
        .truncate(true)
        .open(&mpath)
        .unwrap();
    manifest.finalize(&mut mfile).unwrap();
    drop(mfile);

    assert_eq!(file_check(&mpath), Outcome::True, "manifest with 259 packs");
    assert_eq!(
        container_check(&mpath),
        Outcome::True,
        "container with 259 packs"
    );

    let orig = std::fs::read(&mpath).unwrap();
    let span = span_at(&orig, 0);
    let n = le16(&orig, 64);
    assert_eq!(n, n_content + 1);
    let first = span.check_pos - n * 256;
    let mut report = Report::default();
    let mut todo: Vec<usize> = (0..first).collect();
    for k in 0..n {
        for o in [0usize, 15, 16, 23, 24, 25, 31, 32, 33, 34, 35, 36, 37] {
            todo.push(first + k * 256 + o);
        }
    }
    todo.extend(span.check_pos..span.check_pos + CHECK_BLOCK);
    for pos in todo {
        report.tried += 1;
        poke(&mpath, pos, &[orig[pos] ^ 0x20]);
        report.note(&format!("Pack::check manifest +{pos}"), pack_check(&mpath, &span));
        if pos % 97 == 0 {
            report.note(
                &format!("Container::check manifest +{pos}"),
                container_check(&mpath),
            );
        }
        poke(&mpath, pos, &[orig[pos]]);
    }
    // One alteration in some content packs (first, 255th, 256th, last, and the big ids)
    for i in [0usize, 1, 2, 3, 4, 254, 255, 256, 257] {
        let p = dir.path().join(format!("c{i}.jbkc"));
        let o = std::fs::read(&p).unwrap();
        report.tried += 1;
        poke(&p, 140, &[o[140] ^ 0x01]);
        report.note(
            &format!("Container::check with content pack #{i} altered"),
            container_check(&mpath),
        );
        poke(&p, 140, &[o[140]]);
    }
    report.finish("many packs");
}

// ---------------------------------------------------------------------------------------------
// H10: a container which does not start at the beginning of its file (found by the tail header)
// ---------------------------------------------------------------------------------------------

#[test]
fn h12_container_after_a_prefix() {
    for prefix_len in [1usize, 63, 64, 4096, 70001] {
        let dir = tempfile::tempdir().unwrap();
        let main = build_basic(
            dir.path(),
            ConcatMode::OneFile,
            Compression::None,
            CompHint::Detect,
            &small_contents(),
            None,
        );
        let body = std::fs::read(&main).unwrap();
        let mut all = noise(prefix_len, 99);
        // Be sure that the prefix does not look like a pack
        all[0] = b'#';
        all.extend_from_slice(&body);
        std::fs::write(&main, &all).unwrap();
        assert_eq!(
            container_check(&main),
            Outcome::True,
            "container after a prefix of {prefix_len} bytes"
        );
        let mut report = Report::default();
        flip_all(&mut report, &main, &main, &[0x02], 64 << 10, true);
        report.finish(&format!("prefix {prefix_len}"));
    }
}

// A raw pack stored after a prefix and found by FsLocator through its tail header.
#[test]
fn h13_raw_packs_after_a_prefix() {
    let dir = tempfile::tempdir().unwrap();
    let m = build_manual(dir.path(), Compression::None, &small_contents());
    for f in [&m.content, &m.directory] {
        let body = std::fs::read(f).unwrap();
        let mut all = vec![b'#'; 1000];
        all.extend_from_slice(&body);
        std::fs::write(f, &all).unwrap();
    }
    assert_eq!(
        container_check(&m.manifest),
        Outcome::True,
        "raw packs after a prefix"
    );
    let mut report = Report::default();
    for f in [&m.content, &m.directory] {
        flip_all(&mut report, &m.manifest, f, &[0x40], 64 << 10, true);
    }
    report.finish("raw packs after prefix");
}

// ---------------------------------------------------------------------------------------------
// H11: tools::concat
// ---------------------------------------------------------------------------------------------

#[test]
fn h14_concat_keeps_the_checks() {
    let dir = tempfile::tempdir().unwrap();
    let m = build_manual(dir.path(), Compression::None, &small_contents());
    let out_dir = tempfile::tempdir().unwrap();
    let out = out_dir.path().join("all.jbk");
    jbk::tools::concat(&[&m.manifest, &m.directory, &m.content], utf8(&out)).unwrap();
    assert_pristine(&out, out_dir.path(), "concat of three raw packs");

    // concat of containers made by BasicCreator (TwoFiles)
    let dir2 = tempfile::tempdir().unwrap();
    let main = build_basic(
        dir2.path(),
        ConcatMode::TwoFiles,
        Compression::None,
        CompHint::Detect,
        &small_contents(),
        None,
    );
    let out_dir2 = tempfile::tempdir().unwrap();
    let out2 = out_dir2.path().join("all.jbk");
    jbk::tools::concat(&[&main, &dir2.path().join("arch.jbkc")], utf8(&out2)).unwrap();
    assert_pristine(&out2, out_dir2.path(), "concat of two containers");

    let mut report = Report::default();
    flip_all(&mut report, &out, &out, &[0x08], 64 << 10, true);
    flip_all(&mut report, &out2, &out2, &[0x08], 64 << 10, true);
    report.finish("concat");
}

// ---------------------------------------------------------------------------------------------
// H12: packs written at a non zero origin / in a stream which already holds bytes
// ---------------------------------------------------------------------------------------------

fn small_infos(dir: &Path) -> (creator::PackData, creator::PackData) {
    let m = build_manual(dir, Compression::None, &small_contents());
    let _ = m;
    // Build again to get fresh PackData (PackData is not Clone)
    let mut content_pack = creator::ContentPackCreator::new(
        utf8(&dir.join("raw.jbkc")),
        jbk::PackId::from(1),
        VENDOR,
        Default::default(),
        Compression::None,
    )
    .unwrap();
    content_pack
        .add_content(Box::new(Cursor::new(b"abc".to_vec())), CompHint::No.get())
        .unwrap();
    let (_f, cinfo) = content_pack.finalize().unwrap();
    let mut directory_pack =
        creator::DirectoryPackCreator::new(jbk::PackId::from(0), VENDOR, Default::default());
    let mut store = Store::new(false);
    store.add("abc", jbk::ContentAddress::new(1.into(), 0.into()), 3);
    store.fill(&mut directory_pack);
    let mut dfile = std::fs::OpenOptions::new()
        .read(true)
        .write(true)
        .create(true)
        .truncate(true)
        .open(dir.join("raw.jbkd"))
        .unwrap();
    let dinfo = directory_pack.finalize().unwrap().write(&mut dfile).unwrap();
    (dinfo, cinfo)
}

fn directory_creator() -> creator::DirectoryPackCreator {
    let mut directory_pack =
        creator::DirectoryPackCreator::new(jbk::PackId::from(0), VENDOR, Default::default());
    let mut store = Store::new(false);
    store.add("abc", jbk::ContentAddress::new(1.into(), 0.into()), 3);
    store.add("def", jbk::ContentAddress::new(1.into(), 1.into()), 4);
    store.fill(&mut directory_pack);
    directory_pack
}

fn at_origin(dir: &Path, name: &str, origin: usize) -> std::fs::File {
    let mut f = std::fs::OpenOptions::new()
        .read(true)
        .write(true)
        .create(true)
        .truncate(true)
        .open(dir.join(name))
        .unwrap();
    f.write_all(&vec![b'#'; origin]).unwrap();
    f
}

/// Both `FinalizedDirectoryPackCreator::write` and `ManifestPackCreator::finalize` take the
/// current position of the stream as the origin of the pack they write.
#[test]
fn h15a_directory_pack_written_at_a_non_zero_origin() {
    let dir = tempfile::tempdir().unwrap();
    let mut f = at_origin(dir.path(), "o.jbkd", 777);
    directory_creator().finalize().unwrap().write(&mut f).unwrap();
    drop(f);
    let all = std::fs::read(dir.path().join("o.jbkd")).unwrap();
    assert_eq!(
        span_at(&all, 777).size,
        all.len() - 777,
        "declared size of a directory pack written at origin 777"
    );
    let body = dir.path().join("body.jbkd");
    std::fs::write(&body, &all[777..]).unwrap();
    assert_eq!(
        file_check(&body),
        Outcome::True,
        "directory pack written at origin 777"
    );
    let mut report = Report::default();
    flip_all(&mut report, &body, &body, &[0x01], 64 << 10, false);
    report.finish("directory at origin 777");

    // Not C04 (the pack verifies), for information only: is this pack usable ?
    let usable = guarded(|| {
        let cp = jbk::tools::open_pack(&body).map_err(es)?;
        let uuid = uuid::Uuid::from_bytes(span_at(&all, 777).uuid);
        let reader = cp.get_pack_reader(&uuid).unwrap();
        let dp = Arc::new(jbk::reader::DirectoryPack::new(reader).map_err(es)?);
        let storage = dp.create_entry_storage();
        storage.get_entry_store(0.into()).map_err(es)?;
        Ok(true)
    });
    eprintln!("[directory at origin 777] entry store readable: {usable:?}");
}

#[test]
fn h15b_manifest_pack_written_at_a_non_zero_origin() {
    for origin in [0usize, 1, 333] {
        let dir = tempfile::tempdir().unwrap();
        let (dinfo, cinfo) = small_infos(dir.path());
        let mut f = at_origin(dir.path(), "o.jbkm", origin);
        let mut manifest = creator::ManifestPackCreator::new(VENDOR, Default::default());
        manifest.add_pack(dinfo, "raw.jbkd");
        manifest.add_pack(cinfo, "raw.jbkc");
        manifest.finalize(&mut f).unwrap();
        drop(f);
        let mpath = dir.path().join("o.jbkm");
        let all = std::fs::read(&mpath).unwrap();
        assert_eq!(span_at(&all, origin).size, all.len() - origin);
        // The pack alone
        let body = dir.path().join("body.jbkm");
        std::fs::write(&body, &all[origin..]).unwrap();
        assert_eq!(
            file_check(&body),
            Outcome::True,
            "manifest pack written at origin {origin} (the bytes of the pack, alone in a file)"
        );
        // The pack where it has been written (found by its tail header when origin != 0)
        assert_eq!(
            container_check(&mpath),
            Outcome::True,
            "container whose manifest has been written at origin {origin}"
        );
        let mut report = Report::default();
        flip_all(&mut report, &mpath, &mpath, &[0x01], 64 << 10, true);
        report.finish(&format!("manifest at origin {origin}"));
    }
}

/// A pack written in a stream which is longer than the pack (a preallocated buffer, a file
/// opened without truncation...) must either be refused or be a pack which verifies.
#[test]
fn h16_directory_pack_written_in_a_preallocated_stream() {
    let dir = tempfile::tempdir().unwrap();
    let mut stream = Cursor::new(vec![0u8; 8192]);
    let r = catch_unwind(AssertUnwindSafe(|| {
        directory_creator().finalize().unwrap().write(&mut stream)
    }));
    let Ok(Ok(_info)) = r else {
        return; // refused: fine
    };
    let bytes = stream.into_inner();
    let span = span_at(&bytes, 0);
    let p = dir.path().join("prealloc.jbkd");
    std::fs::write(&p, &bytes[..span.size.min(bytes.len())]).unwrap();
    assert_eq!(
        file_check(&p),
        Outcome::True,
        "directory pack created in a preallocated stream does not verify"
    );
}

#[test]
fn h17_manifest_pack_written_in_a_preallocated_stream() {
    let dir = tempfile::tempdir().unwrap();
    let (dinfo, cinfo) = small_infos(dir.path());
    let mut manifest = creator::ManifestPackCreator::new(VENDOR, Default::default());
    manifest.add_pack(dinfo, "raw.jbkd");
    manifest.add_pack(cinfo, "raw.jbkc");
    let mut stream = Cursor::new(vec![0u8; 8192]);
    let r = catch_unwind(AssertUnwindSafe(|| manifest.finalize(&mut stream)));
    let Ok(Ok(_uuid)) = r else {
        return; // refused: fine
    };
    let bytes = stream.into_inner();
    let span = span_at(&bytes, 0);
    let p = dir.path().join("prealloc.jbkm");
    std::fs::write(&p, &bytes[..span.size.min(bytes.len())]).unwrap();
    assert_eq!(
        file_check(&p),
        Outcome::True,
        "manifest pack created (without error) in a preallocated stream does not verify"
    );
}

// ---------------------------------------------------------------------------------------------
// H13: coherent (CRC fixed) alterations of metadata of the checked range
// ---------------------------------------------------------------------------------------------

/// Alter `bytes[pos]` of the block `[block, block+len)` (+4 of crc) and repair the CRC of the block.
fn alter_with_crc(file: &Path, block: usize, len: usize, changes: &[(usize, u8)]) -> Vec<u8> {
    let orig = std::fs::read(file).unwrap();
    assert_eq!(
        jbk_crc(&orig[block..block + len]),
        orig[block + len..block + len + 4],
        "the test knows how blocks are protected"
    );
    let mut blk = orig[block..block + len].to_vec();
    for (pos, v) in changes {
        blk[*pos - block] = *v;
    }
    let crc = jbk_crc(&blk);
    blk.extend_from_slice(&crc);
    poke(file, block, &blk);
    orig
}

#[test]
fn h18_coherent_alterations_of_headers() {
    assert_eq!(jbk_crc(b"123456789"), 0xFABB_F0EAu32.to_be_bytes());
    let dir = tempfile::tempdir().unwrap();
    let m = build_manual(dir.path(), Compression::None, &small_contents());
    let mut report = Report::default();

    for (f, kind) in [(&m.manifest, 'm'), (&m.directory, 'd'), (&m.content, 'c')] {
        let orig = std::fs::read(f).unwrap();
        let span = span_at(&orig, 0);
        // Pack header: vendor id, flags, padding, file_size, check_info_pos
        // (uuid: see h19)
        let mut cases: Vec<(usize, usize, Vec<(usize, u8)>, String)> = vec![];
        for pos in [4usize, 7, 26, 27, 31, 48, 59] {
            cases.push((0, 60, vec![(pos, orig[pos] ^ 1)], format!("pack header byte {pos}")));
        }
        // check_info_pos moved by -1 / +1 / to 64 / to 0, file_size kept or moved accordingly
        for (delta, with_size) in [(-1i64, true), (1, true), (-1, false), (1, false), (-37, true)] {
            let cp = (span.check_pos as i64 + delta) as u64;
            let mut ch: Vec<(usize, u8)> = cp
                .to_le_bytes()
                .iter()
                .enumerate()
                .map(|(i, b)| (40 + i, *b))
                .collect();
            if with_size {
                let sz = (span.size as i64 + delta) as u64;
                ch.extend(sz.to_le_bytes().iter().enumerate().map(|(i, b)| (32 + i, *b)));
            }
            cases.push((0, 60, ch, format!("check_info_pos {delta:+} (size too: {with_size})")));
        }
        // Kind specific header (64..124): every byte, one at a time
        for pos in 64..124 {
            cases.push((
                64,
                60,
                vec![(pos, orig[pos] ^ 1)],
                format!("{kind} header byte {pos}"),
            ));
        }
        for (block, len, changes, what) in cases {
            report.tried += 1;
            let o = alter_with_crc(f, block, len, &changes);
            let tag = format!("pack {kind}: {what} (crc repaired)");
            report.note(&format!("Container::check {tag}"), container_check(&m.manifest));
            report.note(&format!("ContainerPack::check {tag}"), file_check(f));
            report.note(&format!("Pack::check {tag}"), pack_check(f, &span));
            std::fs::write(f, &o).unwrap();
        }
    }

    // Manifest: checked part (first 38 bytes) of every pack info, crc of the pack info repaired
    let orig = std::fs::read(&m.manifest).unwrap();
    let span = span_at(&orig, 0);
    let n = le16(&orig, 64);
    let first = span.check_pos - n * 256;
    for k in 0..n {
        let block = first + k * 256;
        for o in 0..38 {
            report.tried += 1;
            let saved = alter_with_crc(
                &m.manifest,
                block,
                252,
                &[(block + o, orig[block + o] ^ 0x01)],
            );
            let tag = format!("pack info {k} byte {o} (crc repaired)");
            report.note(&format!("Container::check {tag}"), container_check(&m.manifest));
            report.note(
                &format!("Pack::check {tag}"),
                pack_check(&m.manifest, &span),
            );
            std::fs::write(&m.manifest, &saved).unwrap();
        }
    }
    assert_eq!(container_check(&m.manifest), Outcome::True);
    report.finish("coherent header alterations");
}

/// The identity (uuid) of a pack is part of its checked range.
/// The pack is a raw file found by its location: the container must not answer "all is fine"
/// when the bytes of the pack it points to have been altered.
#[test]
fn h19_uuid_of_a_located_pack_altered_coherently() {
    let dir = tempfile::tempdir().unwrap();
    let m = build_manual(dir.path(), Compression::None, &small_contents());
    assert_eq!(container_check(&m.manifest), Outcome::True);
    let orig = std::fs::read(&m.content).unwrap();
    let span = span_at(&orig, 0);
    assert!(10 < span.check_pos, "the uuid is inside the checked range");
    // One byte of the uuid (offset 10..26 of the pack header), header crc repaired.
    let saved = alter_with_crc(&m.content, 0, 60, &[(12, orig[12] ^ 0x01)]);
    let pack = {
        let mut s = span.clone();
        s.uuid[2] ^= 0x01;
        pack_check(&m.content, &s)
    };
    let file = file_check(&m.content);
    let container = container_check(&m.manifest);
    std::fs::write(&m.content, &saved).unwrap();
    assert_eq!(pack, Outcome::False, "the pack itself sees the alteration");
    assert_eq!(file, Outcome::False, "the check of the file sees the alteration");
    assert!(
        !container.is_true(),
        "Container::check() answers Ok(true) although 5 bytes of the checked range of its \
         content pack have been altered (the pack is silently considered as missing)"
    );
}

/// The check block is part of what the property covers: the kind byte of the check block.
#[test]
fn h20_check_block_altered_coherently() {
    let dir = tempfile::tempdir().unwrap();
    let m = build_manual(dir.path(), Compression::None, &small_contents());
    let mut report = Report::default();
    for (f, kind) in [(&m.manifest, 'm'), (&m.directory, 'd'), (&m.content, 'c')] {
        let orig = std::fs::read(f).unwrap();
        let span = span_at(&orig, 0);
        let cb = span.check_pos;
        // every byte of the digest, crc repaired
        for o in 0..33 {
            if o == 0 {
                continue; // kind byte: below
            }
            report.tried += 1;
            let saved = alter_with_crc(f, cb, 33, &[(cb + o, orig[cb + o] ^ 0x01)]);
            let tag = format!("pack {kind}: digest byte {o} (crc repaired)");
            report.note(&format!("Container::check {tag}"), container_check(&m.manifest));
            report.note(&format!("Pack::check {tag}"), pack_check(f, &span));
            std::fs::write(f, &saved).unwrap();
        }
        // kind byte: unknown kinds
        for k in [2u8, 3, 0x81, 0xFF] {
            report.tried += 1;
            let saved = alter_with_crc(f, cb, 33, &[(cb, k)]);
            let tag = format!("pack {kind}: check kind {k} (crc repaired)");
            report.note(&format!("Container::check {tag}"), container_check(&m.manifest));
            report.note(&format!("Pack::check {tag}"), pack_check(f, &span));
            std::fs::write(f, &saved).unwrap();
        }
    }
    report.finish("check block");
}

// ---------------------------------------------------------------------------------------------
// H14: truncated / extended files (panics of debug builds are known: only `true` is a failure)
// ---------------------------------------------------------------------------------------------

#[test]
fn h21_truncated_files_never_verify() {
    let dir = tempfile::tempdir().unwrap();
    let m = build_manual(dir.path(), Compression::None, &small_contents());
    let mut report = Report::default();
    for f in [&m.manifest, &m.directory, &m.content] {
        let orig = std::fs::read(f).unwrap();
        let span = span_at(&orig, 0);
        // Every length which cuts the checked range or the check block
        for len in 0..span.covered_end() {
            report.tried += 1;
            std::fs::write(f, &orig[..len]).unwrap();
            let tag = format!("{:?} truncated to {len}", f.file_name().unwrap());
            report.note(&format!("Container::check {tag}"), container_check(&m.manifest));
            report.note(&format!("ContainerPack::check {tag}"), file_check(f));
        }
        std::fs::write(f, &orig).unwrap();
    }
    report.finish("truncation");
}

// ---------------------------------------------------------------------------------------------
// H15: check is stable: repeated calls, calls after the content has been read, from threads
// ---------------------------------------------------------------------------------------------

#[test]
fn h22_repeated_and_concurrent_checks() {
    let dir = tempfile::tempdir().unwrap();
    let main = build_basic(
        dir.path(),
        ConcatMode::OneFile,
        all_compressions().pop().unwrap(),
        CompHint::Yes,
        &[text(100_000), noise(1000, 1)],
        None,
    );
    let container = Arc::new(jbk::reader::Container::new(&main).unwrap());
    // read something first
    let bytes = container
        .get_bytes(jbk::ContentAddress::new(1.into(), 0.into()))
        .unwrap()
        .unwrap();
    if let jbk::reader::MayMissPack::FOUND(Some(region)) = bytes {
        let mut v = vec![];
        region.stream().read_to_end(&mut v).unwrap();
        assert_eq!(v, text(100_000));
    } else {
        panic!("content not found");
    }
    let handles: Vec<_> = (0..8)
        .map(|_| {
            let c = Arc::clone(&container);
            std::thread::spawn(move || (0..5).all(|_| c.check().unwrap()))
        })
        .collect();
    for h in handles {
        assert!(h.join().unwrap());
    }

    // Altered file, fresh container, asked from several threads: never true
    let orig = std::fs::read(&main).unwrap();
    let span = spans(&orig).into_iter().find(|s| s.kind == b'd').unwrap();
    let pos = span.start + span.check_pos / 2;
    poke(&main, pos, &[orig[pos] ^ 0x55]);
    let container = Arc::new(jbk::reader::Container::new(&main).unwrap());
    let handles: Vec<_> = (0..8)
        .map(|_| {
            let c = Arc::clone(&container);
            std::thread::spawn(move || (0..5).any(|_| c.check().unwrap_or(false)))
        })
        .collect();
    for h in handles {
        assert!(!h.join().unwrap(), "an altered directory pack verified");
    }
}

// ---------------------------------------------------------------------------------------------
// H16: free data of the packs in the manifest (value store of the manifest)
// ---------------------------------------------------------------------------------------------

#[test]
fn h23_manifest_with_pack_free_data() {
    for sizes in [[0usize, 0], [1, 0], [0, 255], [255, 256], [300, 20000], [65535, 1]] {
        let dir = tempfile::tempdir().unwrap();
        let (mut dinfo, mut cinfo) = small_infos(dir.path());
        dinfo.free_data = noise(sizes[0], 5);
        cinfo.free_data = noise(sizes[1], 6);
        let mut manifest = creator::ManifestPackCreator::new(VENDOR, Default::default());
        manifest.add_pack(dinfo, "raw.jbkd");
        manifest.add_pack(cinfo, "raw.jbkc");
        let mpath = dir.path().join("fd.jbkm");
        let mut f = at_origin(dir.path(), "fd.jbkm", 0);
        let r = catch_unwind(AssertUnwindSafe(|| manifest.finalize(&mut f)));
        let Ok(Ok(_)) = r else {
            eprintln!("free data {sizes:?}: creation refused");
            continue;
        };
        drop(f);
        assert_eq!(
            container_check(&mpath),
            Outcome::True,
            "manifest with free data {sizes:?}"
        );
        let mut report = Report::default();
        flip_all(&mut report, &mpath, &mpath, &[0x80], 4 << 10, true);
        report.finish(&format!("free data {sizes:?}"));
    }
}

// ---------------------------------------------------------------------------------------------
// H17: degenerate containers: no content pack at all, nothing in the directory pack
// ---------------------------------------------------------------------------------------------

#[test]
fn h24_degenerate_containers() {
    let dir = tempfile::tempdir().unwrap();
    // A directory pack with nothing inside
    let directory_pack =
        creator::DirectoryPackCreator::new(jbk::PackId::from(0), VENDOR, Default::default());
    let mut f = at_origin(dir.path(), "empty.jbkd", 0);
    let dinfo = directory_pack.finalize().unwrap().write(&mut f).unwrap();
    drop(f);
    // A manifest with only this pack
    let mut manifest = creator::ManifestPackCreator::new(VENDOR, Default::default());
    manifest.add_pack(dinfo, "empty.jbkd");
    let mut f = at_origin(dir.path(), "empty.jbkm", 0);
    manifest.finalize(&mut f).unwrap();
    drop(f);
    let mpath = dir.path().join("empty.jbkm");
    let dpath = dir.path().join("empty.jbkd");
    assert_pristine(&mpath, dir.path(), "degenerate");
    let mut report = Report::default();
    flip_all(&mut report, &mpath, &mpath, &[0x01, 0xFF], 64 << 10, true);
    flip_all(&mut report, &mpath, &dpath, &[0x01, 0xFF], 64 << 10, true);
    report.finish("degenerate");

    // A content pack with no content, alone
    let cpath = dir.path().join("empty.jbkc");
    let cp = creator::ContentPackCreator::new(
        utf8(&cpath),
        jbk::PackId::from(1),
        VENDOR,
        Default::default(),
        Compression::None,
    )
    .unwrap();
    cp.finalize().unwrap();
    assert_eq!(file_check(&cpath), Outcome::True, "empty content pack");
    let mut report = Report::default();
    flip_all(&mut report, &cpath, &cpath, &[0x01, 0xFF], 64 << 10, false);
    report.finish("empty content pack");
}

// ---------------------------------------------------------------------------------------------
// H18: set_location on a manifest stored inside a container pack
// ---------------------------------------------------------------------------------------------

#[test]
fn h25_set_location_inside_a_container_pack() {
    for mode in [ConcatMode::OneFile, ConcatMode::TwoFiles] {
        let dir = tempfile::tempdir().unwrap();
        let main = build_basic(
            dir.path(),
            mode,
            Compression::None,
            CompHint::Detect,
            &small_contents(),
            Some(&[text(100)]),
        );
        let before = std::fs::read(&main).unwrap();
        let mspan = spans(&before).into_iter().find(|s| s.kind == b'm').unwrap();
        let n = le16(&before, mspan.start + 64);
        let first = mspan.start + mspan.check_pos - n * 256;
        for k in 0..n {
            let info = first + k * 256;
            let uuid = uuid::Uuid::from_bytes(before[info..info + 16].try_into().unwrap());
            let old_len = before[info + 38] as usize;
            let old = String::from_utf8(before[info + 39..info + 39 + old_len].to_vec()).unwrap();
            for new in ["x".repeat(213), String::new(), old.clone()] {
                let r = jbk::tools::set_location(&main, uuid, new.as_str().into()).unwrap();
                assert!(r.is_some());
                let after = std::fs::read(&main).unwrap();
                assert_eq!(before.len(), after.len());
                let ex = exempt_ranges(&after, &mspan);
                for (i, (x, y)) in before.iter().zip(after.iter()).enumerate() {
                    assert!(
                        x == y || is_exempt(&ex, i),
                        "set_location changed the byte {i} which is not exempt"
                    );
                }
                assert_eq!(
                    pack_check(&main, &mspan),
                    Outcome::True,
                    "manifest after set_location of pack {k}"
                );
                assert_eq!(file_check(&main), Outcome::True);
            }
        }
        assert_eq!(std::fs::read(&main).unwrap(), before);
        assert_eq!(container_check(&main), Outcome::True);
    }
}

// ---------------------------------------------------------------------------------------------
// H19: more packs than the 16 bits count of the manifest can tell
// ---------------------------------------------------------------------------------------------

#[test]
fn h26_manifest_pack_count_boundary() {
    let mut failures = vec![];
    // (number of content packs, directory pack declared last)
    for (nb_content, directory_last) in [(65534usize, false), (65535, false), (65536, true)] {
        let dir = tempfile::tempdir().unwrap();
        let (dinfo, cinfo) = small_infos(dir.path());
        let mut manifest = creator::ManifestPackCreator::new(VENDOR, Default::default());
        let mut dinfo = Some(dinfo);
        if !directory_last {
            manifest.add_pack(dinfo.take().unwrap(), "raw.jbkd");
        }
        for i in 0..nb_content {
            // The same (real) content pack declared under several ids.
            let twin = creator::PackData {
                uuid: cinfo.uuid,
                pack_size: cinfo.pack_size,
                pack_kind: cinfo.pack_kind,
                pack_id: jbk::PackId::from((i % 65535) as u16 + 1),
                free_data: vec![],
                check_info: cinfo.check_info,
            };
            manifest.add_pack(twin, "raw.jbkc");
        }
        if let Some(dinfo) = dinfo.take() {
            manifest.add_pack(dinfo, "raw.jbkd");
        }
        let mpath = dir.path().join("max.jbkm");
        let mut f = at_origin(dir.path(), "max.jbkm", 0);
        let r = catch_unwind(AssertUnwindSafe(|| manifest.finalize(&mut f)));
        let Ok(Ok(_)) = r else {
            eprintln!("{} packs: creation refused", nb_content + 1);
            continue;
        };
        drop(f);
        let bytes = std::fs::read(&mpath).unwrap();
        let span = span_at(&bytes, 0);
        let o = pack_check(&mpath, &span);
        if o != Outcome::True {
            failures.push(format!(
                "manifest created (without error) with {} packs (directory last: \
                 {directory_last}) does not verify: {o:?}",
                nb_content + 1
            ));
        }
    }
    assert!(failures.is_empty(), "{failures:#?}");
}

// ---------------------------------------------------------------------------------------------
// H20: the container is already open when the content pack is altered
// ---------------------------------------------------------------------------------------------

#[test]
fn h27_alteration_after_the_container_is_open() {
    for mode in [ConcatMode::OneFile, ConcatMode::TwoFiles] {
        let dir = tempfile::tempdir().unwrap();
        let main = build_basic(
            dir.path(),
            mode,
            Compression::None,
            CompHint::No,
            &[noise(20000, 1), text(20000)],
            None,
        );
        let container = jbk::reader::Container::new(&main).unwrap();
        assert!(container.check().unwrap());
        // Use the content pack, so that it is in the cache of the container
        let _ = container.get_pack(jbk::PackId::from(1)).unwrap().unwrap();
        assert!(container.check().unwrap());
        let cfile = match mode {
            ConcatMode::OneFile => main.clone(),
            _ => dir.path().join("arch.jbkc"),
        };
        let orig = std::fs::read(&cfile).unwrap();
        let span = spans(&orig).into_iter().find(|s| s.kind == b'c').unwrap();
        for off in [0usize, 70, 5000, span.check_pos - 1, span.check_pos + 5] {
            let pos = span.start + off;
            poke(&cfile, pos, &[orig[pos] ^ 0x01]);
            let o = guarded(|| container.check().map_err(es));
            poke(&cfile, pos, &[orig[pos]]);
            assert!(
                !o.is_true(),
                "open container: content pack altered at +{off} and check() says true"
            );
        }
        assert!(container.check().unwrap());
    }
}

// ---------------------------------------------------------------------------------------------
// H21: contents coming from files (the creator copies them file to file)
// ---------------------------------------------------------------------------------------------

#[test]
fn h28_contents_from_input_files() {
    for comp in all_compressions() {
        for mode in [ConcatMode::OneFile, ConcatMode::NoConcat] {
            let dir = tempfile::tempdir().unwrap();
            let src = tempfile::tempdir().unwrap();
            let datas = [noise(3_000_000, 9), text(2_000_000), vec![], noise(10, 1)];
            let out = dir.path().join("arch.jbk");
            let mut c =
                creator::BasicCreator::new(utf8(&out), mode, VENDOR, comp, Arc::new(())).unwrap();
            let mut store = Box::new(Store::new(false));
            for (i, d) in datas.iter().enumerate() {
                let p = src.path().join(format!("in{i}"));
                std::fs::write(&p, d).unwrap();
                let addr = c
                    .add_content(
                        Box::new(creator::InputFile::open(&p).unwrap()),
                        creator::CompHint::Detect,
                    )
                    .unwrap();
                store.add(&format!("f{i}"), addr, i as u64);
            }
            c.finalize(store, vec![]).unwrap();
            assert_pristine(&out, dir.path(), &format!("input files {comp:?}"));
            // and what is stored is what was given
            let container = jbk::reader::Container::new(&out).unwrap();
            for (i, d) in datas.iter().enumerate() {
                let bytes = container
                    .get_bytes(jbk::ContentAddress::new(1.into(), (i as u32).into()))
                    .unwrap()
                    .unwrap();
                let jbk::reader::MayMissPack::FOUND(Some(region)) = bytes else {
                    panic!("content {i} not found");
                };
                let mut v = vec![];
                region.stream().read_to_end(&mut v).unwrap();
                assert!(&v == d, "content {i} differs");
            }
            let mut report = Report::default();
            for f in files_in(dir.path()) {
                flip_all(&mut report, &out, &f, &[0x01], 2 << 10, false);
            }
            report.finish(&format!("input files {comp:?}"));
        }
    }
}

// ---------------------------------------------------------------------------------------------
// Not counted as a hypothesis on the library: a coherent rewrite of the whole check block.
// A digest stored in the pack itself cannot protect against someone who rewrites the digest
// (or who declares "no check", kind 0) and repairs the CRC of the block: this is inherent to the
// format and is NOT reported as a violation. The test is kept (ignored) to document it.
// Note that `Container::check` could see it for directory and content packs if it compared the
// check block with the copy held in the manifest (see the TODO in `Container::check`).
// ---------------------------------------------------------------------------------------------

#[test]
#[ignore = "inherent to a digest stored in the pack: documented, not a finding"]
fn h20b_check_block_rewritten_as_no_check() {
    let dir = tempfile::tempdir().unwrap();
    let m = build_manual(dir.path(), Compression::None, &small_contents());
    let mut report = Report::default();
    for (f, kind) in [(&m.directory, 'd'), (&m.content, 'c'), (&m.manifest, 'm')] {
        let orig = std::fs::read(f).unwrap();
        let span = span_at(&orig, 0);
        let cb = span.check_pos;
        report.tried += 1;
        let saved = alter_with_crc(f, cb, 33, &[(cb, 0)]);
        poke(f, 130, &[orig[130] ^ 0x01]);
        let tag = format!("pack {kind}: check kind 0 (crc repaired) then byte 130 altered");
        report.note(&format!("Container::check {tag}"), container_check(&m.manifest));
        report.note(&format!("Pack::check {tag}"), pack_check(f, &span));
        std::fs::write(f, &saved).unwrap();
    }
    report.finish("check block rewritten");
}
